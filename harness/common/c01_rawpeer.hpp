// c01_rawpeer.hpp - independent raw peers for the socket-level checks (C01, C06).
// Plain blocking POSIX sockets (+ an optional OpenSSL peer); shares no code with iora.
// All waits are bounded with poll(); nothing here uses SOCK_NONBLOCK or accept4(), which is
// how the interposer (c01_interpose_net.cpp) tells these sockets from the engine's.
#pragma once
#include <cerrno>
#include <chrono>
#include <cstdint>
#include <cstdio>
#include <cstring>
#include <string>
#include <vector>

#include <arpa/inet.h>
#include <fcntl.h>
#include <netinet/in.h>
#include <netinet/tcp.h>
#include <poll.h>
#include <sys/socket.h>
#include <sys/types.h>
#include <unistd.h>

#include <openssl/bio.h>
#include <openssl/ec.h>
#include <openssl/err.h>
#include <openssl/evp.h>
#include <openssl/pem.h>
#include <openssl/ssl.h>
#include <openssl/x509.h>

namespace rawpeer
{

using Clock = std::chrono::steady_clock;
inline std::int64_t msSince(Clock::time_point t0)
{
  return std::chrono::duration_cast<std::chrono::milliseconds>(Clock::now() - t0).count();
}

struct Addr
{
  std::uint32_t ip = 0; // host byte order
  std::uint16_t port = 0;
  bool operator==(const Addr &o) const { return ip == o.ip && port == o.port; }
  bool operator!=(const Addr &o) const { return !(*this == o); }
  bool operator<(const Addr &o) const { return ip != o.ip ? ip < o.ip : port < o.port; }
  std::string host() const
  {
    char b[32];
    std::snprintf(b, sizeof b, "%u.%u.%u.%u", (ip >> 24) & 255, (ip >> 16) & 255, (ip >> 8) & 255, ip & 255);
    return b;
  }
  std::string str() const { return host() + ":" + std::to_string(port); }
};
inline sockaddr_in toSockaddr(const Addr &a)
{
  sockaddr_in sa{};
  sa.sin_family = AF_INET;
  sa.sin_addr.s_addr = htonl(a.ip);
  sa.sin_port = htons(a.port);
  return sa;
}
inline Addr fromSockaddr(const sockaddr_in &sa) { return Addr{ntohl(sa.sin_addr.s_addr), ntohs(sa.sin_port)}; }
constexpr std::uint32_t kLoopback = 0x7f000001u;

inline void setBufs(int fd, int rcv, int snd)
{
  if (rcv > 0) ::setsockopt(fd, SOL_SOCKET, SO_RCVBUF, &rcv, sizeof rcv);
  if (snd > 0) ::setsockopt(fd, SOL_SOCKET, SO_SNDBUF, &snd, sizeof snd);
}

inline Addr localAddr(int fd)
{
  sockaddr_in sa{};
  socklen_t sl = sizeof sa;
  if (::getsockname(fd, reinterpret_cast<sockaddr *>(&sa), &sl) != 0) return {};
  return fromSockaddr(sa);
}

// ------------------------------------------------------------------------------ TCP
/// listening socket on 127.0.0.1:<ephemeral>; returns fd or -1
inline int tcpListen(std::uint16_t &port, int backlog = 16, int rcvbuf = 0, int sndbuf = 0)
{
  int fd = ::socket(AF_INET, SOCK_STREAM | SOCK_CLOEXEC, 0);
  if (fd < 0) return -1;
  int one = 1;
  ::setsockopt(fd, SOL_SOCKET, SO_REUSEADDR, &one, sizeof one);
  setBufs(fd, rcvbuf, sndbuf); // inherited by accepted sockets
  sockaddr_in sa = toSockaddr(Addr{kLoopback, 0});
  if (::bind(fd, reinterpret_cast<sockaddr *>(&sa), sizeof sa) != 0 || ::listen(fd, backlog) != 0)
  {
    ::close(fd);
    return -1;
  }
  port = localAddr(fd).port;
  return fd;
}

/// accept with a bound; -1 on timeout/error
inline int tcpAccept(int lfd, int timeoutMs)
{
  pollfd p{lfd, POLLIN, 0};
  int pr;
  do pr = ::poll(&p, 1, timeoutMs);
  while (pr < 0 && errno == EINTR);
  if (pr <= 0) return -1;
  int fd = ::accept(lfd, nullptr, nullptr);
  if (fd >= 0)
  {
    int one = 1;
    ::setsockopt(fd, IPPROTO_TCP, TCP_NODELAY, &one, sizeof one);
  }
  return fd;
}

/// blocking connect to 127.0.0.1:port (loopback connects complete at once or fail at once).
/// If `localPort` is given the socket is bound to 127.0.0.1:<ephemeral> first and the port is
/// reported through *localPort BEFORE connecting (onBound is called with it), so that the other
/// side can recognise this connection by its source port.
template <class OnBound>
inline int tcpConnectFrom(std::uint16_t port, int rcvbuf, int sndbuf, OnBound onBound)
{
  int fd = ::socket(AF_INET, SOCK_STREAM | SOCK_CLOEXEC, 0);
  if (fd < 0) return -1;
  setBufs(fd, rcvbuf, sndbuf);
  {
    sockaddr_in la = toSockaddr(Addr{kLoopback, 0});
    if (::bind(fd, reinterpret_cast<sockaddr *>(&la), sizeof la) != 0)
    {
      ::close(fd);
      return -1;
    }
    onBound(localAddr(fd).port);
  }
  int one = 1;
  ::setsockopt(fd, IPPROTO_TCP, TCP_NODELAY, &one, sizeof one);
  timeval tv{10, 0};
  ::setsockopt(fd, SOL_SOCKET, SO_SNDTIMEO, &tv, sizeof tv); // bounds a blocking connect()
  sockaddr_in sa = toSockaddr(Addr{kLoopback, port});
  int r;
  do r = ::connect(fd, reinterpret_cast<sockaddr *>(&sa), sizeof sa);
  while (r < 0 && errno == EINTR);
  if (r != 0)
  {
    ::close(fd);
    return -1;
  }
  timeval z{0, 0};
  ::setsockopt(fd, SOL_SOCKET, SO_SNDTIMEO, &z, sizeof z);
  return fd;
}

/// remote port of a connected socket (0 on error)
inline std::uint16_t remotePort(int fd)
{
  sockaddr_in sa{};
  socklen_t sl = sizeof sa;
  if (::getpeername(fd, reinterpret_cast<sockaddr *>(&sa), &sl) != 0) return 0;
  return ntohs(sa.sin_port);
}

inline int tcpConnect(std::uint16_t port, int rcvbuf = 0, int sndbuf = 0)
{
  int fd = ::socket(AF_INET, SOCK_STREAM | SOCK_CLOEXEC, 0);
  if (fd < 0) return -1;
  setBufs(fd, rcvbuf, sndbuf);
  int one = 1;
  ::setsockopt(fd, IPPROTO_TCP, TCP_NODELAY, &one, sizeof one);
  timeval tv{10, 0};
  ::setsockopt(fd, SOL_SOCKET, SO_SNDTIMEO, &tv, sizeof tv); // bounds a blocking connect()
  sockaddr_in sa = toSockaddr(Addr{kLoopback, port});
  int r;
  do r = ::connect(fd, reinterpret_cast<sockaddr *>(&sa), sizeof sa);
  while (r < 0 && errno == EINTR);
  if (r != 0)
  {
    ::close(fd);
    return -1;
  }
  timeval z{0, 0};
  ::setsockopt(fd, SOL_SOCKET, SO_SNDTIMEO, &z, sizeof z);
  return fd;
}

enum : int
{
  RP_TIMEOUT = -2,
  RP_ERROR = -1,
  RP_EOF = 0
};

/// read up to n bytes, waiting at most timeoutMs; >0 bytes, 0 EOF, -1 error (errno), -2 timeout
inline int readSome(int fd, void *buf, std::size_t n, int timeoutMs)
{
  pollfd p{fd, POLLIN, 0};
  int pr;
  do pr = ::poll(&p, 1, timeoutMs);
  while (pr < 0 && errno == EINTR);
  if (pr == 0) return RP_TIMEOUT;
  if (pr < 0) return RP_ERROR;
  ssize_t r;
  do r = ::recv(fd, buf, n, 0);
  while (r < 0 && errno == EINTR);
  if (r < 0) return RP_ERROR;
  return static_cast<int>(r);
}

/// write up to n bytes once the socket is writable; >0 written, -1 error, -2 timeout
inline int writeSome(int fd, const void *buf, std::size_t n, int timeoutMs)
{
  pollfd p{fd, POLLOUT, 0};
  int pr;
  do pr = ::poll(&p, 1, timeoutMs);
  while (pr < 0 && errno == EINTR);
  if (pr == 0) return RP_TIMEOUT;
  if (pr < 0) return RP_ERROR;
  ssize_t r;
  do r = ::send(fd, buf, n, MSG_NOSIGNAL | MSG_DONTWAIT);
  while (r < 0 && errno == EINTR);
  if (r < 0) return (errno == EAGAIN || errno == EWOULDBLOCK) ? RP_TIMEOUT : RP_ERROR;
  return static_cast<int>(r);
}

/// half close: FIN, the peer keeps reading
inline void fin(int fd) { ::shutdown(fd, SHUT_WR); }
/// abortive close: RST (SO_LINGER 0), no TIME_WAIT
inline void reset(int fd)
{
  linger lg{1, 0};
  ::setsockopt(fd, SOL_SOCKET, SO_LINGER, &lg, sizeof lg);
  ::close(fd);
}

// ------------------------------------------------------------------------------ UDP
/// blocking UDP socket bound to ip:port (port 0 = ephemeral); fd or -1; `bound` gets the address
inline int udpBind(std::uint32_t ip, std::uint16_t port, Addr &bound, int rcvbuf = 0)
{
  int fd = ::socket(AF_INET, SOCK_DGRAM | SOCK_CLOEXEC, 0);
  if (fd < 0) return -1;
  setBufs(fd, rcvbuf, 0);
  sockaddr_in sa = toSockaddr(Addr{ip, port});
  if (::bind(fd, reinterpret_cast<sockaddr *>(&sa), sizeof sa) != 0)
  {
    ::close(fd);
    return -1;
  }
  bound = localAddr(fd);
  return fd;
}

inline bool udpSendTo(int fd, const Addr &to, const void *data, std::size_t n)
{
  sockaddr_in sa = toSockaddr(to);
  ssize_t r;
  do r = ::sendto(fd, data, n, MSG_NOSIGNAL, reinterpret_cast<sockaddr *>(&sa), sizeof sa);
  while (r < 0 && errno == EINTR);
  return r == static_cast<ssize_t>(n);
}

/// one datagram; returns its real length (may exceed cap: then it was truncated = oversize),
/// -2 timeout, -1 error
inline int udpRecvFrom(int fd, void *buf, std::size_t cap, Addr &from, int timeoutMs)
{
  pollfd p{fd, POLLIN, 0};
  int pr;
  do pr = ::poll(&p, 1, timeoutMs);
  while (pr < 0 && errno == EINTR);
  if (pr == 0) return RP_TIMEOUT;
  if (pr < 0) return RP_ERROR;
  sockaddr_in sa{};
  socklen_t sl = sizeof sa;
  ssize_t r;
  do r = ::recvfrom(fd, buf, cap, MSG_TRUNC | MSG_DONTWAIT, reinterpret_cast<sockaddr *>(&sa), &sl);
  while (r < 0 && errno == EINTR);
  if (r < 0) return (errno == EAGAIN || errno == EWOULDBLOCK) ? RP_TIMEOUT : RP_ERROR;
  from = fromSockaddr(sa);
  return static_cast<int>(r);
}

// ------------------------------------------------------------------------------ TLS
/// in-process self-signed certificate (EC P-256), also written as PEM files when the code
/// under test needs file names
struct SelfSigned
{
  EVP_PKEY *key = nullptr;
  X509 *cert = nullptr;
  std::string certFile, keyFile;
  ~SelfSigned()
  {
    if (cert) X509_free(cert);
    if (key) EVP_PKEY_free(key);
    if (!certFile.empty()) ::unlink(certFile.c_str());
    if (!keyFile.empty()) ::unlink(keyFile.c_str());
  }
  bool generate(const char *cn = "localhost")
  {
    key = EVP_EC_gen("P-256");
    if (!key) return false;
    cert = X509_new();
    if (!cert) return false;
    X509_set_version(cert, 2);
    ASN1_INTEGER_set(X509_get_serialNumber(cert), 1);
    X509_gmtime_adj(X509_getm_notBefore(cert), -3600);
    X509_gmtime_adj(X509_getm_notAfter(cert), 3600L * 24 * 365);
    X509_set_pubkey(cert, key);
    X509_NAME *nm = X509_get_subject_name(cert);
    X509_NAME_add_entry_by_txt(nm, "CN", MBSTRING_ASC, reinterpret_cast<const unsigned char *>(cn), -1, -1, 0);
    X509_set_issuer_name(cert, nm);
    return X509_sign(cert, key, EVP_sha256()) > 0;
  }
  bool writeFiles(const std::string &dir, const std::string &tag)
  {
    certFile = dir + "/" + tag + "-cert.pem";
    keyFile = dir + "/" + tag + "-key.pem";
    FILE *f = std::fopen(certFile.c_str(), "w");
    if (!f) return false;
    bool ok = PEM_write_X509(f, cert) == 1;
    std::fclose(f);
    f = std::fopen(keyFile.c_str(), "w");
    if (!f) return false;
    ok = ok && PEM_write_PrivateKey(f, key, nullptr, nullptr, 0, nullptr, nullptr) == 1;
    std::fclose(f);
    return ok;
  }
};

/// OpenSSL peer over an already connected blocking socket. All calls are bounded by poll().
struct TlsPeer
{
  SSL_CTX *ctx = nullptr;
  SSL *ssl = nullptr;
  int fd = -1;
  std::string err;
  int lastWant = 0;               // SSL_ERROR_WANT_READ / WANT_WRITE the handshake was waiting for when it timed out
  int lastSslError = 0;           // SSL_get_error() of the failed handshake step
  unsigned long lastErrCode = 0;  // ERR_get_error() of the failed handshake step
  ~TlsPeer() { destroy(); }
  void destroy()
  {
    if (ssl) SSL_free(ssl);
    ssl = nullptr;
    if (ctx) SSL_CTX_free(ctx);
    ctx = nullptr;
  }
  /// server role needs a certificate; maxVersion 0 = library default (TLS 1.3), else TLS1_2_VERSION
  bool init(bool server, const SelfSigned *cert, int maxVersion = 0)
  {
    ctx = SSL_CTX_new(server ? TLS_server_method() : TLS_client_method());
    if (!ctx) return false;
    SSL_CTX_set_min_proto_version(ctx, TLS1_2_VERSION);
    if (maxVersion) SSL_CTX_set_max_proto_version(ctx, maxVersion);
    if (server)
    {
      if (!cert || SSL_CTX_use_certificate(ctx, cert->cert) != 1 || SSL_CTX_use_PrivateKey(ctx, cert->key) != 1)
        return false;
    }
    SSL_CTX_set_verify(ctx, SSL_VERIFY_NONE, nullptr);
    return true;
  }
  int waitFor(int sslErr, int timeoutMs)
  {
    pollfd p{fd, static_cast<short>(sslErr == SSL_ERROR_WANT_WRITE ? POLLOUT : POLLIN), 0};
    int pr;
    do pr = ::poll(&p, 1, timeoutMs);
    while (pr < 0 && errno == EINTR);
    return pr;
  }
  /// handshake on `sock` (which is switched to non-blocking so that every step is bounded)
  bool handshake(int sock, bool server, int timeoutMs)
  {
    fd = sock;
    int fl = ::fcntl(sock, F_GETFL, 0);
    if (fl >= 0) ::fcntl(sock, F_SETFL, fl | O_NONBLOCK);
    ssl = SSL_new(ctx);
    if (!ssl) return false;
    SSL_set_fd(ssl, fd);
    // a blocked SSL_write reports the records it has completely written so far, so the number of
    // application bytes the other side can have seen never exceeds what SSL_write reported plus
    // the one call in flight
    SSL_set_mode(ssl, SSL_MODE_ENABLE_PARTIAL_WRITE | SSL_MODE_ACCEPT_MOVING_WRITE_BUFFER);
    if (server) SSL_set_accept_state(ssl);
    else SSL_set_connect_state(ssl);
    auto t0 = Clock::now();
    int quietMs = 0;
    for (;;)
    {
      ERR_clear_error();
      int r = SSL_do_handshake(ssl);
      if (r == 1) return true;
      int e = SSL_get_error(ssl, r);
      if (e != SSL_ERROR_WANT_READ && e != SSL_ERROR_WANT_WRITE)
      {
        char b[200];
        lastSslError = e;
        lastErrCode = ERR_get_error();
        ERR_error_string_n(lastErrCode, b, sizeof b);
        err = std::string("handshake: ssl error ") + std::to_string(e) + " " + b;
        return false;
      }
      // wait in slices and count only slices in which poll() really waited and saw nothing: a
      // freeze of the whole process/VM advances the wall clock but costs one slice at most
      (void)t0;
      bool ready = false;
      while (quietMs < timeoutMs)
      {
        int pr = waitFor(e, 100);
        if (pr > 0)
        {
          ready = true;
          break;
        }
        if (pr < 0) break;
        quietMs += 100;
      }
      if (!ready)
      {
        err = "handshake: timeout";
        lastWant = e;
        return false;
      }
      quietMs = 0;
    }
  }
  /// >0 bytes, 0 = clean TLS close or TCP EOF, -1 error, -2 timeout
  int readSome(void *buf, std::size_t n, int timeoutMs)
  {
    auto t0 = Clock::now();
    for (;;)
    {
      ERR_clear_error();
      int r = SSL_read(ssl, buf, static_cast<int>(n));
      if (r > 0) return r;
      int e = SSL_get_error(ssl, r);
      if (e == SSL_ERROR_ZERO_RETURN) return RP_EOF;
      if (e == SSL_ERROR_SYSCALL || e == SSL_ERROR_SSL)
      {
        // EOF without close_notify is reported as an error by OpenSSL 3; for the stream
        // oracle it is an end of stream like any other
        unsigned long q = ERR_peek_error();
        if (e == SSL_ERROR_SSL && ERR_GET_REASON(q) == SSL_R_UNEXPECTED_EOF_WHILE_READING) return RP_EOF;
        if (e == SSL_ERROR_SYSCALL && (errno == 0 || q == 0) && r == 0) return RP_EOF;
        return RP_ERROR;
      }
      if (e != SSL_ERROR_WANT_READ && e != SSL_ERROR_WANT_WRITE) return RP_ERROR;
      int left = timeoutMs - static_cast<int>(msSince(t0));
      if (left <= 0) return RP_TIMEOUT;
      if (waitFor(e, left) <= 0) return RP_TIMEOUT;
    }
  }
  /// writes the whole buffer (TLS records are all-or-nothing towards the caller); >0, -1, -2
  int writeAll(const void *buf, std::size_t n, int timeoutMs)
  {
    auto t0 = Clock::now();
    for (;;)
    {
      ERR_clear_error();
      int r = SSL_write(ssl, buf, static_cast<int>(n));
      if (r > 0) return r;
      int e = SSL_get_error(ssl, r);
      if (e != SSL_ERROR_WANT_READ && e != SSL_ERROR_WANT_WRITE) return RP_ERROR;
      int left = timeoutMs - static_cast<int>(msSince(t0));
      if (left <= 0) return RP_TIMEOUT;
      if (waitFor(e, left) <= 0) return RP_TIMEOUT;
    }
  }
  /// send close_notify (TLS-level FIN), keep the socket
  void closeNotify()
  {
    if (ssl) SSL_shutdown(ssl);
  }
};

} // namespace rawpeer
