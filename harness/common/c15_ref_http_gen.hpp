// c15_ref_http_gen.hpp - generators / renderers for HTTP/1.1 messages (property C15).
// Every random choice is drawn from pbt::Src. The generator decides the *meaning* (Expect) and
// the *rendering* (case of names, OWS, chunk pattern, extensions, trailers) at the same time.
#pragma once
#include "c15_ref_http.hpp"
#include <cstdio>
#include "pbt.hpp"

namespace refhttp
{

struct GenOpts
{
  std::size_t maxBody = 300;
  bool bws = true;        // BWS before ';' of a chunk extension (recipients MUST tolerate it)
  bool obsText = true;    // bytes >= 0x80 in field values / reason
  bool chunked = true;
  bool trailers = true;
  bool extensions = true;
};

struct Msg
{
  Expect exp;
  std::string wire;
  std::vector<std::size_t> hot; // cut offsets inside a length field / at a chunk boundary / in the header terminator
  bool chunked = false, closeDelimited = false, hasTrailers = false, hasExt = false, interim = false;
  std::size_t bodyStart = 0;
  std::size_t chunks = 0;
};

namespace gen
{

inline std::string randCase(pbt::Src &src, const std::string &name)
{
  switch (src.weighted({4, 1, 1, 3}))
  {
  case 0: return name;
  case 1: return lower(name);
  case 2:
  {
    std::string o = name;
    for (auto &c : o)
      if (c >= 'a' && c <= 'z') c = char(c - 32);
    return o;
  }
  default:
  {
    std::uint64_t mask = (std::uint64_t)src.range(0, (1LL << 40) - 1);
    std::string o = name;
    for (std::size_t i = 0; i < o.size(); ++i)
    {
      bool up = (mask >> (i % 40)) & 1;
      char c = o[i];
      if (c >= 'a' && c <= 'z' && up) o[i] = char(c - 32);
      else if (c >= 'A' && c <= 'Z' && !up) o[i] = char(c + 32);
    }
    return o;
  }
  }
}

inline std::string owsBefore(pbt::Src &src)
{
  static const std::vector<std::string> v = {" ", " ", " ", "", "  ", "\t", " \t "};
  return src.oneOf(v);
}
inline std::string owsAfter(pbt::Src &src)
{
  static const std::vector<std::string> v = {"", "", "", "", " ", "\t", "  \t"};
  return src.oneOf(v);
}

inline std::string genBody(pbt::Src &src, std::size_t maxLen)
{
  if (maxLen == 0) return "";
  static const std::vector<std::string> frags = {
    "\r\n", "0\r\n\r\n", "\r\n\r\n", "GET /x HTTP/1.1\r\nHost: h\r\n\r\n", "HTTP/1.1 200 OK\r\nContent-Length: 5\r\n\r\n",
    "5\r\nhello\r\n", "Content-Length: 3\r\n", "\n", "\r", std::string(1, '\0'), "Transfer-Encoding: chunked\r\n", "a", "{\"k\":1}",
    "FFFFFFFFFFFFFFEC\r\n", "0", ";ext=1", "\xff\xfe", " "};
  std::string b;
  switch (src.weighted({2, 4, 3, 4, 2}))
  {
  case 0: return "";
  case 1:
  {
    std::size_t n = (std::size_t)src.sized(1, (std::int64_t)std::min<std::size_t>(maxLen, 40));
    std::uint64_t seed = (std::uint64_t)src.range(0, 1 << 20);
    for (std::size_t i = 0; i < n; ++i) b += char('a' + (seed + i * 7) % 26);
    return b;
  }
  case 2: return src.blob(std::min<std::size_t>(maxLen, 64));
  case 3:
  {
    auto rows = src.rows(8, 1, 0, (std::int64_t)frags.size() - 1);
    for (auto &r : rows) b += frags[(std::size_t)r[0]];
    if (b.size() > maxLen) b.resize(maxLen);
    return b;
  }
  default:
  {
    // sizes around the hex-digit boundaries 15/16/17, 255/256/257, up to maxLen
    static const std::vector<std::size_t> marks = {15, 16, 17, 31, 32, 100, 255, 256, 257, 1000, 4095, 4096, 4097, 65535, 65536, 70000};
    std::size_t n = src.oneOf(marks);
    if (n > maxLen) n = (std::size_t)src.range(1, (std::int64_t)maxLen);
    std::uint64_t seed = (std::uint64_t)src.range(0, 255);
    b.resize(n);
    for (std::size_t i = 0; i < n; ++i) b[i] = char((seed + i * 131 + (i >> 8)) & 0xff);
    return b;
  }
  }
}

inline std::string hexSize(pbt::Src &src, std::size_t n)
{
  static const char *lo = "0123456789abcdef", *up = "0123456789ABCDEF";
  std::string d;
  int style = (int)src.weighted({3, 2, 1});
  std::uint64_t mask = style == 2 ? (std::uint64_t)src.range(0, 65535) : 0;
  if (n == 0) d = "0";
  int i = 0;
  while (n)
  {
    const char *t = style == 0 ? lo : style == 1 ? up : ((mask >> (i++ % 16)) & 1 ? up : lo);
    d.insert(d.begin(), t[n & 15]);
    n >>= 4;
  }
  if (src.coin(1, 8)) d.insert(0, (std::size_t)src.range(1, 3), '0');
  return d;
}

inline std::string chunkExt(pbt::Src &src, const GenOpts &o, bool &used)
{
  if (!o.extensions || !src.coin(1, 4)) return "";
  used = true;
  static const std::vector<std::string> exts = {";x", ";x=y", ";a=1;b=2", ";q=\"a;b\\\"c\"", ";name=\"\"", ";sig=abc123", ";x=\"5\\\\\"", ";e=\"\t \""};
  std::string e = src.oneOf(exts);
  if (o.bws && src.coin(1, 5)) e = (src.coin() ? " " : "\t") + e;
  return e;
}

/// Renders `body` in chunked coding appended to m.wire (m.wire already holds the header block).
inline void renderChunked(pbt::Src &src, const GenOpts &o, const std::string &body, Msg &m)
{
  std::string &w = m.wire;
  std::vector<std::size_t> sizes;
  std::size_t n = body.size();
  if (n)
  {
    switch (src.weighted({3, 2, 4, 2}))
    {
    case 0: sizes.push_back(n); break;
    case 1:
      if (n <= 48) { sizes.assign(n, 1); break; }
      [[fallthrough]];
    case 2:
    {
      std::size_t left = n;
      int parts = (int)src.range(2, 6);
      for (int i = 0; i < parts - 1 && left > 1; ++i)
      {
        std::size_t k = (std::size_t)src.range(1, (std::int64_t)left - 1);
        if (src.coin(1, 2)) k = std::min<std::size_t>(k, 20);
        sizes.push_back(k);
        left -= k;
      }
      sizes.push_back(left);
      break;
    }
    default:
    {
      // sizes that sit on hex digit boundaries
      std::size_t left = n;
      for (std::size_t k : {(std::size_t)16, (std::size_t)15, (std::size_t)256, (std::size_t)1, (std::size_t)255, (std::size_t)17})
      {
        if (left > k) { sizes.push_back(k); left -= k; }
      }
      sizes.push_back(left);
    }
    }
  }
  std::size_t off = 0;
  for (std::size_t sz : sizes)
  {
    std::size_t lineStart = w.size();
    w += hexSize(src, sz);
    w += chunkExt(src, o, m.hasExt);
    w += "\r\n";
    for (std::size_t k = lineStart; k <= w.size(); ++k) m.hot.push_back(k); // before/inside/after the size line
    w.append(body, off, sz);
    off += sz;
    m.hot.push_back(w.size());     // between data and CRLF
    w += "\r\n";
    m.hot.push_back(w.size() - 1); // between CR and LF
    ++m.chunks;
  }
  std::size_t lineStart = w.size();
  w += src.coin(1, 6) ? std::string((std::size_t)src.range(2, 5), '0') : "0";
  w += chunkExt(src, o, m.hasExt);
  w += "\r\n";
  for (std::size_t k = lineStart; k <= w.size(); ++k) m.hot.push_back(k);
  if (o.trailers && src.coin(1, 3))
  {
    m.hasTrailers = true;
    static const std::vector<std::string> tn = {"X-Checksum", "Expires", "X-Trailer-2", "Server-Timing"};
    static const std::vector<std::string> tv = {"abc", "0", "Content-Length: 9", "chunked", "", "GET / HTTP/1.1"};
    int k = (int)src.range(1, 2);
    for (int i = 0; i < k; ++i)
    {
      w += randCase(src, tn[(std::size_t)((src.range(0, 1) * 2 + i) % (int)tn.size())]) + ":" + owsBefore(src) + src.oneOf(tv) + owsAfter(src) + "\r\n";
      m.hot.push_back(w.size());
    }
  }
  w += "\r\n";
  m.hot.push_back(w.size() - 1);
  m.chunked = true;
}

inline const std::vector<std::string> &valuePool()
{
  static const std::vector<std::string> v = {
    "chunked", "5", "0", "Transfer-Encoding: chunked", "Content-Length: 10", "a\tb", "text/html; charset=utf-8", "",
    "x, y", "keep-alive", "*/*", "HTTP/1.1 200 OK", "application/json", "gzip, chunked", "\\r\\n\\r\\n", "a:b:c",
    "Mozilla/5.0 (X11; Linux x86_64)", "100", "0x10", "W/\"etag\"", "=?", "bytes=0-4"};
  return v;
}

inline std::string genValue(pbt::Src &src, const GenOpts &o)
{
  switch (src.weighted({6, 2, 1, 1}))
  {
  case 0: return src.oneOf(valuePool());
  case 1:
  {
    // random visible ASCII with inner spaces
    std::size_t n = (std::size_t)src.sized(1, 24);
    std::uint64_t seed = (std::uint64_t)src.range(0, 1 << 20);
    std::string s;
    for (std::size_t i = 0; i < n; ++i)
    {
      seed = seed * 6364136223846793005ULL + 1442695040888963407ULL;
      s += char(0x21 + (seed >> 33) % 94);
      if (i + 1 < n && (seed >> 20) % 7 == 0) s += ' ';
    }
    return s;
  }
  case 2:
    if (o.obsText) return std::string("caf\xc3\xa9 \xff\x80") + (src.coin() ? "x" : "\xfe");
    return "plain";
  default:
  {
    std::size_t n = (std::size_t)src.sized(30, 400);
    return std::string(n, 'v');
  }
  }
}

struct NameSet
{
  std::vector<std::string> used; // lower case
  bool add(const std::string &n)
  {
    std::string l = lower(n);
    if (std::find(used.begin(), used.end(), l) != used.end()) return false;
    used.push_back(l);
    return true;
  }
};

inline const std::vector<std::string> &namePool()
{
  static const std::vector<std::string> v = {
    "Accept", "User-Agent", "X-Request-Id", "Content-Type", "X-Custom", "Cookie", "Authorization", "X-Transfer-Encoding",
    "X-Content-Length", "Content-Length-Hint", "Transfer-Encoding-Hint", "Via", "X-Forwarded-For", "Cache-Control",
    "Accept-Encoding", "TE", "ETag", "Date", "Server", "X-Chunked", "If-None-Match", "a", "X", "x-1_2.3", "!#$%&'*+-.^_`|~",
    "Content-Encoding", "Connection", "Keep-Alive", "Content-Language"};
  return v;
}

/// 0..maxN extra fields with unique names (none of them a framing field)
inline void genExtraFields(pbt::Src &src, const GenOpts &o, NameSet &ns, std::vector<Field> &out, int maxN)
{
  auto rows = src.rows((std::size_t)maxN, 1, 0, (std::int64_t)namePool().size() - 1);
  for (auto &r : rows)
  {
    std::string n = namePool()[(std::size_t)r[0]];
    if (!ns.add(n)) continue;
    std::string v = genValue(src, o);
    if (lower(n) == "connection") v = src.coin() ? "keep-alive" : "close";
    out.push_back(Field{n, v});
  }
}

/// Renders the field lines in a drawn order; records hot offsets for `hotName` (lower case).
inline void renderFields(pbt::Src &src, std::vector<Field> fields, Msg &m, const std::string &hotName)
{
  // drawn permutation: rotate + optional reverse (cheap, still moves the framing field around)
  if (!fields.empty())
  {
    std::size_t rot = (std::size_t)src.range(0, (std::int64_t)fields.size() - 1);
    std::rotate(fields.begin(), fields.begin() + (std::ptrdiff_t)rot, fields.end());
    if (src.coin(1, 3)) std::reverse(fields.begin(), fields.end());
  }
  for (auto &f : fields)
  {
    std::string wireName = randCase(src, f.name);
    std::size_t start = m.wire.size();
    m.wire += wireName + ":" + owsBefore(src) + f.value + owsAfter(src) + "\r\n";
    if (lower(f.name) == hotName)
      for (std::size_t k = start + wireName.size(); k < m.wire.size(); ++k) m.hot.push_back(k);
    m.exp.fields.push_back(Field{wireName, f.value});
  }
  m.wire += "\r\n";
  for (std::size_t k = m.wire.size() - 3; k < m.wire.size(); ++k) m.hot.push_back(k);
  m.bodyStart = m.wire.size();
}

inline std::string decLen(pbt::Src &src, std::size_t n)
{
  std::string d = std::to_string(n);
  if (src.coin(1, 10)) d.insert(0, (std::size_t)src.range(1, 3), '0');
  return d;
}

inline const std::vector<std::string> &targetPool()
{
  static const std::vector<std::string> v = {"/", "/a", "/api/v1/items", "/x?y=1", "/p/q?a=b&c=d", "/caf\xc3\xa9", "/a%20b", "/chunked",
                                             "/Content-Length:5", "/a//b/", "/very/long/" + std::string(120, 'p'), "/?", "/;x=1"};
  return v;
}

} // namespace gen

/// One valid request. `http10` requests carry no chunked body.
inline Msg genRequest(pbt::Src &src, const GenOpts &o)
{
  using namespace gen;
  Msg m;
  static const std::vector<std::string> methodsBody = {"POST", "PUT", "PATCH", "DELETE", "GET", "OPTIONS"};
  static const std::vector<std::string> methodsNoBody = {"GET", "HEAD", "DELETE", "OPTIONS", "TRACE", "CONNECT", "POST"};
  bool http10 = src.coin(1, 12);
  // framing: 0 none, 1 content-length, 2 chunked
  int framing = (int)src.weighted({3, 4, o.chunked && !http10 ? 5 : 0});
  std::string body = framing == 0 ? "" : genBody(src, o.maxBody);
  m.exp.method = framing == 0 ? src.oneOf(methodsNoBody) : src.oneOf(methodsBody);
  std::string target = src.oneOf(targetPool());
  m.exp.path = target.substr(0, target.find('?'));
  m.exp.version = http10 ? "1.0" : "1.1";
  m.exp.body = body;
  m.wire = m.exp.method + " " + target + (http10 ? " HTTP/1.0\r\n" : " HTTP/1.1\r\n");
  NameSet ns;
  std::vector<Field> fields;
  ns.add("host");
  ns.add("content-length");
  ns.add("transfer-encoding");
  ns.add("upgrade");
  ns.add("expect");
  if (!http10 || src.coin())
  {
    static const std::vector<std::string> hosts = {"example.com", "localhost:8080", "h", "[::1]:80", "a.b.c.d.e"};
    fields.push_back(Field{"Host", src.oneOf(hosts)});
  }
  genExtraFields(src, o, ns, fields, 5);
  std::string hotName;
  if (framing == 1)
  {
    fields.push_back(Field{"Content-Length", decLen(src, body.size())});
    hotName = "content-length";
  }
  else if (framing == 2)
  {
    fields.push_back(Field{"Transfer-Encoding", src.coin(1, 3) ? randCase(src, "chunked") : "chunked"});
    hotName = "transfer-encoding";
  }
  else if (src.coin(1, 5))
  {
    fields.push_back(Field{"Content-Length", "0"});
    hotName = "content-length";
  }
  renderFields(src, fields, m, hotName);
  if (framing == 2) renderChunked(src, o, body, m);
  else m.wire += body;
  m.exp.chunked = m.chunked;
  return m;
}

/// One valid response to a request with method `method`. kind: 0 final, 1 interim 1xx.
inline Msg genResponse(pbt::Src &src, const GenOpts &o, const std::string &method, bool interim, bool allowCloseDelimited)
{
  using namespace gen;
  Msg m;
  m.interim = interim;
  bool http10 = !interim && src.coin(1, 12);
  static const std::vector<int> finals = {200, 200, 200, 201, 404, 500, 301, 204, 304, 299, 599, 206, 400};
  static const std::vector<int> interims = {100, 102, 103, 199};
  int code = interim ? src.oneOf(interims) : src.oneOf(finals);
  static const std::vector<std::string> reasons = {"OK", "", "Not Found", "Internal Server Error", "Created 2 items", "No Content", "r\xc3\xa9ponse", "Content-Length: 5"};
  std::string reason = src.oneOf(reasons);
  if (!o.obsText && reason.find('\xc3') != std::string::npos) reason = "OK";
  m.exp.status = code;
  m.exp.reason = reason;
  m.exp.version = http10 ? "1.0" : "1.1";
  m.wire = std::string("HTTP/") + m.exp.version + " " + std::to_string(code) + " " + reason + "\r\n";
  bool noBody = interim || method == "HEAD" || code == 204 || code == 304;
  NameSet ns;
  ns.add("content-length");
  ns.add("transfer-encoding");
  std::vector<Field> fields;
  genExtraFields(src, o, ns, fields, interim ? 2 : 5);
  std::string hotName;
  // framing: 0 none(close-delimited or bodyless), 1 content-length, 2 chunked
  int framing;
  std::string body;
  if (noBody)
  {
    // headers may still describe the body a GET would have returned
    // 1xx and 204 never carry a framing field (sender MUST NOT: RFC 9110 §8.6, RFC 9112 §6.1); HEAD / 304 may
    framing = (interim || code == 204) ? 0 : (int)src.weighted({3, 3, http10 ? 0 : 1});
    if (framing == 1) { fields.push_back(Field{"Content-Length", decLen(src, (std::size_t)src.range(0, 5000))}); hotName = "content-length"; }
    if (framing == 2) { fields.push_back(Field{"Transfer-Encoding", "chunked"}); hotName = "transfer-encoding"; }
    renderFields(src, fields, m, hotName);
    return m;
  }
  framing = (int)src.weighted({allowCloseDelimited ? 2 : 0, 4, o.chunked && !http10 ? 5 : 0});
  body = genBody(src, o.maxBody);
  m.exp.body = body;
  if (framing == 1) { fields.push_back(Field{"Content-Length", decLen(src, body.size())}); hotName = "content-length"; }
  if (framing == 2) { fields.push_back(Field{"Transfer-Encoding", src.coin(1, 3) ? randCase(src, "chunked") : "chunked"}); hotName = "transfer-encoding"; }
  renderFields(src, fields, m, hotName);
  if (framing == 2) renderChunked(src, o, body, m);
  else m.wire += body;
  m.closeDelimited = framing == 0;
  m.exp.chunked = m.chunked;
  return m;
}

// ------------------------------------------------------------------ invalid length information
struct BadLen
{
  std::string kind;   // stable name, part of the failure signature
  std::string wire;   // complete header block + a plausible body (what a guessing framer would take)
};

/// A message (request if `request`, else a 200 response) whose length information is invalid.
/// The body bytes are chosen so that a framer which guesses finds a "complete" message.
inline BadLen genBadLength(pbt::Src &src, bool request)
{
  using namespace gen;
  BadLen b;
  std::string start = request ? (src.coin() ? "POST /bad HTTP/1.1\r\n" : "PUT /bad?x=1 HTTP/1.1\r\n") : "HTTP/1.1 200 OK\r\n";
  std::string common = request ? randCase(src, "Host") + ": h\r\n" : randCase(src, "Server") + ": s\r\n";
  if (src.coin()) common += randCase(src, "X-Pad") + ": " + src.oneOf(valuePool()) + "\r\n";
  std::string cl = randCase(src, "Content-Length"), te = randCase(src, "Transfer-Encoding");
  std::string body12 = "abcdefghijkl";
  int k = (int)src.range(0, request ? 21 : 19);
  auto withCl = [&](const std::string &v, const std::string &body) { b.wire = start + common + cl + ":" + owsBefore(src) + v + "\r\n\r\n" + body; };
  auto withChunks = [&](const std::string &chunkBytes) { b.wire = start + common + te + ": chunked\r\n\r\n" + chunkBytes; };
  switch (k)
  {
  case 0: b.kind = "cl-trailing-junk"; withCl("12abc", body12); break;
  case 1: b.kind = "cl-plus-sign"; withCl("+5", "hello"); break;
  case 2: b.kind = "cl-minus-sign"; withCl("-5", "hello"); break;
  case 3: b.kind = "cl-hex-prefix"; withCl("0x5", "hello"); break;
  case 4: b.kind = "cl-exponent"; withCl("1e1", "0123456789"); break;
  case 5: b.kind = "cl-empty"; withCl("", ""); break;
  case 6: b.kind = "cl-inner-space"; withCl("1 2", body12); break;
  case 7: b.kind = "cl-list-conflict"; withCl("5, 6", "hello!"); break;
  case 8: b.kind = "cl-overflow-2p64"; withCl("18446744073709551616", "hello"); break;
  case 9: b.kind = "cl-overflow-wrap5"; withCl("18446744073709551621", "hello"); break; // 2^64+5
  case 10: b.kind = "cl-decimal-point"; withCl("5.0", "hello"); break;
  case 11:
  {
    b.kind = "cl-duplicate-conflict";
    bool smallFirst = src.coin();
    std::string a = smallFirst ? "5" : "7", c = smallFirst ? "7" : "5";
    b.wire = start + cl + ": " + a + "\r\n" + common + randCase(src, "Content-Length") + ": " + c + "\r\n\r\n" + "hello!!";
    break;
  }
  case 12: b.kind = "chunk-size-not-hex"; withChunks("zz\r\nhello\r\n0\r\n\r\n"); break;
  case 13: b.kind = "chunk-size-empty"; withChunks("\r\nhello\r\n0\r\n\r\n"); break;
  case 14: b.kind = "chunk-size-minus"; withChunks("-5\r\nhello\r\n0\r\n\r\n"); break;
  case 15: b.kind = "chunk-size-plus"; withChunks("+5\r\nhello\r\n0\r\n\r\n"); break;
  case 16: b.kind = "chunk-size-0x"; withChunks("0x5\r\nhello\r\n0\r\n\r\n"); break;
  case 17: b.kind = "chunk-size-overflow-17-digits"; withChunks("10000000000000005\r\nhello\r\n0\r\n\r\n"); break;
  case 18: b.kind = "chunk-size-junk"; withChunks("5xyz\r\nhello\r\n0\r\n\r\n"); break;
  case 19:
    // a framer that skips two octets behind the data without looking finds a perfectly valid last chunk
    b.kind = "chunk-data-no-crlf";
    withChunks(src.coin() ? "5\r\nhelloXX0\r\n\r\n" : "5\r\nhelloXX\r\n0\r\n\r\n");
    break;
  case 20: b.kind = "te-substring"; b.wire = start + common + te + ": " + src.oneOf<std::string>({"xchunked", "chunkedx", "not-chunked", "chunked, identity", "chunked,", ",", "chunked , ,"}) + "\r\n\r\n5\r\nhello\r\n0\r\n\r\n"; break;
  default: b.kind = "te-substring"; b.wire = start + common + te + ": chunked;q=1, gzip\r\n\r\n5\r\nhello\r\n0\r\n\r\n"; break;
  }
  return b;
}

/// chunk sizes near 2^64 (valid hex, beyond every cap, wrap position arithmetic)
inline BadLen genHugeChunk(pbt::Src &src, bool request)
{
  using namespace gen;
  BadLen b;
  static const std::vector<std::string> sizes = {"FFFFFFFFFFFFFFEC", "ffffffffffffffff", "FFFFFFFFFFFFFFFE", "fffffffffffffff0", "8000000000000000",
                                                 "FFFFFFFFFFFFFFF7", "7fffffffffffffff", "FFFFFFFFFFFFFFE0"};
  std::string sz = src.oneOf(sizes);
  b.kind = "chunk-size-near-2p64";
  std::string start = request ? "POST /huge HTTP/1.1\r\nHost: h\r\n" : "HTTP/1.1 200 OK\r\n";
  b.wire = start + randCase(src, "Transfer-Encoding") + ": chunked\r\n\r\n" + sz + "\r\n" + "hello\r\n0\r\n\r\n";
  return b;
}

// ------------------------------------------------------------------ repeated / combined length fields
/// One message carrying several Content-Length values (separate field lines, comma lists, or both, in drawn
/// spellings with leading zeros) or Content-Length next to Transfer-Encoding.
///   mustReject : at least two values differ numerically => invalid length information, never framed.
///   otherwise  : all values equal the real body length (a recipient MAY accept or reject the repeat), or
///                Content-Length next to "Transfer-Encoding: chunked" (reject, or frame by chunked - never by
///                Content-Length). `accepted` lists every acceptable rendering of the message as seen by the application.
struct LengthCombo
{
  std::string kind;
  std::string wire;              // the complete message
  bool mustReject = false;
  std::vector<Expect> accepted;  // !mustReject: acceptable hand-overs (differ only in the Content-Length value kept)
};

inline LengthCombo genLengthCombo(pbt::Src &src, bool request)
{
  using namespace gen;
  LengthCombo lc;
  static const std::vector<std::string> bodies = {"", "h", "hello", "hello!!", "0123456789abcdef", "GET / HTTP/1.1\r\n\r\n"};
  std::string body = src.oneOf(bodies);
  const std::uint64_t L = body.size();
  auto spell = [&](std::uint64_t v)
  {
    std::string d = std::to_string(v);
    switch (src.weighted({4, 2, 1}))
    {
    case 1: return "0" + d;
    case 2: return "00" + d;
    default: return d;
    }
  };
  int mode = (int)src.weighted({6, 3, 2}); // 0 different values, 1 equal values, 2 Content-Length next to Transfer-Encoding
  std::size_t n = (std::size_t)src.range(2, 3);
  std::vector<std::uint64_t> vals;
  if (mode == 0)
  {
    std::vector<std::uint64_t> pool = {0, 0, 1, 5, 7, L, L + 1, L ? L - 1 : 2, 9999999, 99999999999ULL};
    for (std::size_t i = 0; i < n; ++i) vals.push_back(src.oneOf(pool));
    bool differ = false;
    for (auto v : vals) differ |= v != vals[0];
    if (!differ) vals.back() = vals[0] + 1 + (std::uint64_t)src.range(0, 4); // make it a conflict
    lc.mustReject = true;
  }
  else if (mode == 1)
    vals.assign(n, L);
  else
    vals.assign(1, src.oneOf<std::uint64_t>({0, 5, L, L + 1, 7}));
  // arrangement: each value becomes its own field line or joins the previous one as a list element
  std::vector<std::string> lines; // Content-Length field values
  for (std::size_t i = 0; i < vals.size(); ++i)
  {
    std::string sp = spell(vals[i]);
    if (i > 0 && src.coin(1, 3)) lines.back() += (src.coin() ? ", " : ",") + sp;
    else lines.push_back(sp);
  }
  lc.kind = mode == 0 ? "cl-multi-conflict" : mode == 1 ? "cl-multi-equal" : "cl-with-transfer-encoding";
  if (mode == 0 && vals[0] == 0) lc.kind += "-zero-first";
  Expect base;
  std::string start;
  std::vector<Field> fields;
  if (request)
  {
    base.method = src.coin() ? "POST" : "PUT";
    base.path = "/len";
    base.version = "1.1";
    start = base.method + " /len HTTP/1.1\r\n";
    fields.push_back(Field{randCase(src, "Host"), "h"});
  }
  else
  {
    base.status = 200;
    base.reason = "OK";
    base.version = "1.1";
    start = "HTTP/1.1 200 OK\r\n";
    fields.push_back(Field{randCase(src, "Server"), "s"});
  }
  if (src.coin()) fields.push_back(Field{randCase(src, "X-Pad"), src.oneOf(valuePool())});
  std::size_t clLines = lines.size();
  for (auto &l : lines) fields.push_back(Field{randCase(src, "Content-Length"), l});
  if (mode == 2) fields.push_back(Field{randCase(src, "Transfer-Encoding"), "chunked"});
  // drawn order (the Content-Length lines keep their relative order: "first is zero" must stay first)
  std::size_t nonCl = fields.size() - clLines - (mode == 2 ? 1 : 0);
  std::vector<Field> ordered;
  {
    std::vector<Field> cl(fields.begin() + (std::ptrdiff_t)nonCl, fields.begin() + (std::ptrdiff_t)(nonCl + clLines));
    std::vector<Field> other(fields.begin(), fields.begin() + (std::ptrdiff_t)nonCl);
    if (mode == 2) other.push_back(fields.back());
    std::size_t oi = 0, ci = 0;
    while (oi < other.size() || ci < cl.size())
    {
      bool takeCl = ci < cl.size() && (oi >= other.size() || src.coin());
      ordered.push_back(takeCl ? cl[ci++] : other[oi++]);
    }
  }
  lc.wire = start;
  for (auto &f : ordered) lc.wire += f.name + ":" + owsBefore(src) + f.value + owsAfter(src) + "\r\n";
  lc.wire += "\r\n";
  if (mode == 2) lc.wire += (body.empty() ? std::string() : [&] { char b[32]; std::snprintf(b, sizeof b, "%zx", body.size()); return std::string(b) + "\r\n" + body + "\r\n"; }()) + "0\r\n\r\n";
  else lc.wire += body;
  if (!lc.mustReject)
  {
    // acceptable hand-overs: all other fields as sent, exactly one Content-Length value out of the lines sent
    for (auto &l : lines)
    {
      Expect e = base;
      e.body = body;
      e.chunked = mode == 2;
      for (auto &f : ordered)
        if (lower(f.name) != "content-length") e.fields.push_back(f);
      e.fields.push_back(Field{"Content-Length", l});
      lc.accepted.push_back(e);
    }
  }
  return lc;
}

} // namespace refhttp
