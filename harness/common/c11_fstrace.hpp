// c11_fstrace.hpp - file-system effect tracer for the crash-consistency check (C11).
//
// harness/c11_fstrace.cpp puts strong definitions of fopen/fopen64/open/open64/openat/
// write/writev/pwrite/lseek/rename/renameat/truncate/ftruncate/remove/unlink/unlinkat/
// fclose/close into the harness executable (each forwards to the real function found
// with dlsym(RTLD_NEXT)). libstdc++'s file streams and std::filesystem reach the C
// library through the PLT (verified with ltrace: fopen64, write, writev, fclose, rename,
// truncate, remove), so every modification of a file under the traced directory is seen
// here, at exactly the granularity at which the operating system receives it: bytes in a
// not yet flushed stream buffer never show up, bytes handed to write() do (process-crash
// model).
//
// While tracing, the tracer keeps a simulated directory image (names -> inodes ->
// contents) and records the sequence of *effects*. A crash point is a prefix of that
// sequence plus, for a write, a number of bytes of the next effect. The harness
// cross-checks the simulated final image against the real directory after every traced
// session (a file modification that bypassed the tracer is a harness error, never a
// verdict).
#pragma once
#include <cstdint>
#include <map>
#include <string>
#include <vector>

namespace fstrace
{

struct Image
{
  std::map<std::string, int> paths;   // name relative to the traced directory -> inode
  std::map<int, std::string> inodes;  // inode -> content
  int nextInode = 1;

  std::map<std::string, std::string> files() const
  {
    std::map<std::string, std::string> f;
    for (auto &p : paths) f[p.first] = inodes.at(p.second);
    return f;
  }
  void put(const std::string &name, std::string content)
  {
    int ino = nextInode++;
    paths[name] = ino;
    inodes[ino] = std::move(content);
  }
};

struct Effect
{
  enum Kind { Create, TruncOpen, Write, Rename, Unlink, Truncate };
  Kind kind = Write;
  std::string name, name2;        // relative names (name2: rename target)
  int inode = 0;                  // Create: the new inode; Write/Truncate/TruncOpen: target
  std::uint64_t off = 0;          // Write: absolute offset; Truncate: new size
  std::string data;               // Write: the bytes
  std::vector<std::size_t> segs;  // Write: internal iovec boundaries (offsets into data)
  int op = -1;                    // history operation in flight when the effect was issued
  const char *api = "";           // libc entry point that produced it
};

/// apply `e` to `img`; for a Write, `bytes` < data.size() applies only a prefix (torn write)
void apply(Image &img, const Effect &e, std::size_t bytes = static_cast<std::size_t>(-1));

/// start tracing modifications below directory `dir` (no trailing slash); `initial` is the
/// directory's current content (what the harness materialised there)
void begin(const std::string &dir, const Image &initial);
/// history operation now in flight (-1: none); attached to every effect recorded
void setOp(int op);

struct Result
{
  std::vector<Effect> effects;
  Image finalImage;
  std::vector<std::string> unsupported; // calls on traced files the tracer cannot model
};
/// stop tracing and return what was recorded
Result end();

// ---- helpers that touch the real file system without being traced -----------------
/// wipe `dir` (flat) and write the image's files into it
void materialise(const std::string &dir, const Image &img);
/// read back the real directory (flat, regular files)
std::map<std::string, std::string> readDir(const std::string &dir);

/// counters proving the interposition is live (calls seen on traced files)
struct Stats { std::uint64_t opens = 0, writes = 0, renames = 0, closes = 0; };
Stats stats();

} // namespace fstrace
