// C12 - the key-value store is a map with absolute expiry, across restarts.
//
//   history : model-based operation histories (src.rows = op list) against
//             iora::storage::KVStore with a HARNESS-OWNED WALL CLOCK (c12_clock.cpp
//             interposes clock_gettime: CLOCK_REALTIME is an ms-aligned value that
//             moves only on Advance ops). After EVERY step every read API is compared,
//             for every key of the universe, with a plain reference map with per-key
//             absolute expiry evaluated at the read (c12_kvref.hpp).
//
// The store's eviction wheel / worker / (optional) background compaction thread run on
// the real steady clock in the background; nothing they do may change any answer.
#include "c12_clock.hpp"
#include "c12_kvref.hpp"
#include "pbt.hpp"

#include <iora/core/logger.hpp>
#include <iora/storage/kvstore.hpp>

#include <algorithm>
#include <memory>
#include <thread>

using iora::storage::KVStore;
using iora::storage::KVStoreConfig;
using kvref::Bytes;
using kvref::Model;

namespace
{

constexpr std::int64_t kBaseMs = 1700000000000LL; // 2023-11-14T22:13:20Z
constexpr std::int64_t kDay = 86400000LL;

const std::int64_t kAdvance[] = {0, 1, 999, 1000, 3600000LL, 400 * kDay};
const std::int64_t kTtlSec[] = {1, 1, 2, 3, 60, 3600, 86400, 400 * 86400LL};
const std::int64_t kExpireOff[] = {-400 * kDay, -3600000LL, -1000, -1, 0, 1, 999, 1000, 1001, 3600000LL, 400 * kDay};

enum Op
{
  OpSet,
  OpSetTtl,
  OpBatch,
  OpRemove,
  OpRemovePrefix,
  OpClear,
  OpExpireAt,
  OpPersist,
  OpCompact,
  OpReopen,
  OpAdvance,
  OpAdvanceToExpiry,
  OpYield,
  OpFlush,
  OpCount
};
const char *kOpName[] = {"set", "setTtl", "batch", "remove", "removePrefix", "clear", "expireAt",
                         "persist", "compact", "reopen", "advance", "advanceToExpiry", "yield", "flush"};
// weights (sum 100)
const int kOpWeight[] = {14, 14, 8, 7, 5, 2, 12, 6, 5, 6, 14, 4, 2, 1};

Op decodeOp(std::int64_t r)
{
  int x = static_cast<int>(r % 100);
  for (int i = 0; i < OpCount; ++i)
  {
    if (x < kOpWeight[i]) return static_cast<Op>(i);
    x -= kOpWeight[i];
  }
  return OpSet;
}

struct Cfg
{
  std::uint32_t cache = 1000;
  int tickMs = 1000;
  int compMode = 0; // 0 inline/64B  1 inline/4KiB  2 off (big log, bg thread idle)  3 background every 1 ms, 256 B
  bool getFirst = true;
  std::string str() const
  {
    return pbt::Fmt() << "cache=" << cache << " tick=" << tickMs << "ms comp=" << compMode
                      << (getFirst ? " get-first" : " get-last");
  }
  KVStoreConfig make() const
  {
    KVStoreConfig c;
    c.maxCacheSize = cache;
    c.ttlTickDuration = std::chrono::milliseconds(tickMs);
    switch (compMode)
    {
    case 0: c.enableBackgroundCompaction = false; c.maxLogSizeBytes = 64; break;
    case 1: c.enableBackgroundCompaction = false; c.maxLogSizeBytes = 4096; break;
    case 2: c.enableBackgroundCompaction = true; c.maxLogSizeBytes = 10 * 1024 * 1024; break; // 30 s interval: idle
    default:
      c.enableBackgroundCompaction = true;
      c.maxLogSizeBytes = 256;
      c.compactionInterval = std::chrono::milliseconds(1);
      break;
    }
    return c;
  }
};

struct Runner
{
  pbt::Case &c;
  const kvref::Universe &U;
  Cfg cfg;
  std::string path;
  std::unique_ptr<KVStore> kv;
  Model model;
  std::size_t step = 0;
  std::string lastOp;
  // keys on which persist/expireAt was called while the model said "expired": if such a
  // key becomes visible again the failure gets its own structural signature
  std::map<std::string, std::string> revivedBy;
  // keys whose expiry was cleared/moved by persist/expireAt since their value was written
  // (the value record and the expiry record are then separate log records)
  std::set<std::string> expiryChanged;
  bool justReopened = false;
  std::uint64_t boundaryReads = 0;

  Runner(pbt::Case &cc, const kvref::Universe &u, Cfg cf, std::string p)
      : c(cc), U(u), cfg(cf), path(std::move(p)) {}

  std::int64_t now() const { return c12_clock_now(); }

  bool open()
  {
    try
    {
      kv = std::make_unique<KVStore>(path, cfg.make());
      return true;
    }
    catch (const std::exception &e)
    {
      c.fail("C12/open-threw", pbt::Fmt() << "step " << step << " (" << lastOp << "): KVStore ctor threw: " << e.what());
      return false;
    }
  }

  bool fail(const std::string &sig, const std::string &key, const std::string &what)
  {
    std::string s = sig;
    if (!key.empty())
    {
      auto it = revivedBy.find(key);
      if (it != revivedBy.end()) s = "C12/expired-key-revived-by-" + it->second;
      else if (justReopened && sig.find("misses-live-key") != std::string::npos && expiryChanged.count(key))
        s = "C12/restart-loses-key-whose-expiry-was-changed";
    }
    c.fail(s, pbt::Fmt() << "after step " << step << " (" << lastOp << ") at t=+" << (now() - kBaseMs)
                         << "ms: " << what);
    return false;
  }

  // ---- the oracle: every read path, every key --------------------------------
  bool checkKeyGet(const std::string &k, Model::Vis v, const Model::Entry *e)
  {
    auto got = kv->get(k);
    if (v == Model::Absent && got)
      return fail("C12/get-shows-absent-or-expired-key", k,
                  "get(" + kvref::showKey(k) + ") = " + kvref::showVal(*got) + ", reference: absent/expired");
    if (v == Model::Present && !got)
      return fail("C12/get-misses-live-key", k,
                  "get(" + kvref::showKey(k) + ") = nullopt, reference: " + kvref::showVal(e->value));
    if (got && e && *got != e->value)
      return fail("C12/get-wrong-value", k,
                  "get(" + kvref::showKey(k) + ") = " + kvref::showVal(*got) + ", reference: " + kvref::showVal(e->value));
    return true;
  }

  bool checkAll()
  {
    const std::int64_t t = now();
    std::set<std::string> present, maybe;
    for (const auto &k : U.keys)
    {
      Model::Vis v = model.vis(k, t);
      if (v == Model::Present) present.insert(k);
      if (v == Model::Boundary) { maybe.insert(k); ++boundaryReads; }
    }
    // per-key reads; start index rotates so that a small cache holds different keys
    const std::size_t n = U.keys.size();
    for (std::size_t i = 0; i < n; ++i)
    {
      const std::string &k = U.keys[(i + step) % n];
      Model::Vis v = model.vis(k, t);
      auto mit = model.m.find(k);
      const Model::Entry *e = (mit != model.m.end() && v != Model::Absent) ? &mit->second : nullptr;
      if (cfg.getFirst && !checkKeyGet(k, v, e)) return false;
      bool ex = kv->exists(k);
      if (v == Model::Absent && ex) return fail("C12/exists-shows-absent-or-expired-key", k, "exists(" + kvref::showKey(k) + ") = true, reference: absent/expired");
      if (v == Model::Present && !ex) return fail("C12/exists-misses-live-key", k, "exists(" + kvref::showKey(k) + ") = false, reference: present");
      auto tl = kv->ttl(k);
      if (v == Model::Absent && tl) return fail("C12/ttl-on-absent-or-expired-key", k, pbt::Fmt() << "ttl(" << kvref::showKey(k) << ") = " << tl->count() << "s, reference: absent/expired");
      if (v == Model::Present)
      {
        if (!e->expiry && tl) return fail("C12/ttl-on-permanent-key", k, pbt::Fmt() << "ttl(" << kvref::showKey(k) << ") = " << tl->count() << "s, reference: no expiry");
        if (e->expiry)
        {
          std::int64_t want = (*e->expiry - t) / 1000;
          if (!tl) return fail("C12/ttl-missing", k, pbt::Fmt() << "ttl(" << kvref::showKey(k) << ") = nullopt, reference: " << want << "s (expiry +" << (*e->expiry - kBaseMs) << "ms)");
          if (tl->count() != want) return fail("C12/ttl-wrong", k, pbt::Fmt() << "ttl(" << kvref::showKey(k) << ") = " << tl->count() << "s, reference: " << want << "s (expiry +" << (*e->expiry - kBaseMs) << "ms)");
        }
      }
      if (v == Model::Boundary && tl && tl->count() != 0) return fail("C12/ttl-wrong", k, pbt::Fmt() << "ttl(" << kvref::showKey(k) << ") = " << tl->count() << "s at expiry == now");
      if (!cfg.getFirst && !checkKeyGet(k, v, e)) return false;
    }
    // empty key: never present
    if (kv->get("") || kv->exists("") || kv->ttl("")) return fail("C12/empty-key-visible", "", "empty key reported present");

    auto setCheck = [&](const std::vector<std::string> &got, const std::set<std::string> &must,
                        const std::set<std::string> &may, const std::string &api) -> bool
    {
      std::set<std::string> g(got.begin(), got.end());
      if (g.size() != got.size()) return fail("C12/" + api + "-duplicate", "", api + " returned a key twice");
      for (const auto &k : g)
        if (!must.count(k) && !may.count(k))
          return fail("C12/" + api + "-shows-absent-or-expired-key", k, api + " contains " + kvref::showKey(k) + ", reference: absent/expired");
      for (const auto &k : must)
        if (!g.count(k)) return fail("C12/" + api + "-misses-live-key", k, api + " lacks " + kvref::showKey(k));
      return true;
    };
    if (!setCheck(kv->keys(), present, maybe, "keys")) return false;
    // prefix scans: two prefixes per step (rotating) plus the empty prefix
    for (std::size_t j = 0; j < 3; ++j)
    {
      const std::string &p = j == 2 ? U.prefixes[0] : U.prefixes[(step * 2 + j) % U.prefixes.size()];
      std::set<std::string> must, may;
      for (const auto &k : present) if (k.size() >= p.size() && k.compare(0, p.size(), p) == 0) must.insert(k);
      for (const auto &k : maybe) if (k.size() >= p.size() && k.compare(0, p.size(), p) == 0) may.insert(k);
      if (!setCheck(kv->keysWithPrefix(p), must, may, "keysWithPrefix")) return false;
    }
    std::size_t sz = kv->size();
    if (sz < present.size() || sz > present.size() + maybe.size())
      return fail("C12/size-wrong", "", pbt::Fmt() << "size() = " << sz << ", reference: " << present.size() << (maybe.empty() ? "" : "..") << (maybe.empty() ? "" : std::to_string(present.size() + maybe.size())));
    {
      std::vector<std::string> ask(U.keys.begin(), U.keys.end());
      ask.push_back("");          // empty key is ignored
      ask.push_back(U.keys[0]);   // duplicate request
      ask.push_back("nokey");
      auto gb = kv->getBatch(ask);
      for (const auto &kvp : gb)
      {
        const std::string &k = kvp.first;
        if (!present.count(k) && !maybe.count(k))
          return fail("C12/getBatch-shows-absent-or-expired-key", k, "getBatch contains " + kvref::showKey(k) + ", reference: absent/expired");
        if (kvp.second != model.m.at(k).value)
          return fail("C12/getBatch-wrong-value", k, "getBatch[" + kvref::showKey(k) + "] = " + kvref::showVal(kvp.second) + ", reference: " + kvref::showVal(model.m.at(k).value));
      }
      for (const auto &k : present)
        if (!gb.count(k)) return fail("C12/getBatch-misses-live-key", k, "getBatch lacks " + kvref::showKey(k));
    }
    // a key that is strictly expired now can never come back: forget the bookkeeping for
    // keys that are legitimately re-created later
    return true;
  }
};

// Key for an operation: r[1] selects from the universe; when bit 4 of r[3] is set and the
// reference holds keys, r[1] selects among the keys currently in the reference instead (so
// that overwrite / persist / expireAt / remove hit an existing - possibly expired - key).
const std::string &chooseKey(const kvref::Universe &U, const Model &m, const pbt::Row &r)
{
  if (((r[3] >> 4) & 1) && !m.m.empty())
  {
    auto it = m.m.begin();
    std::advance(it, static_cast<long>(static_cast<std::size_t>(r[1]) % m.m.size()));
    for (const auto &k : U.keys)
      if (k == it->first) return k;
  }
  return U.key(r[1]);
}

std::string renderOps(const std::vector<std::string> &ops)
{
  std::string s;
  for (std::size_t i = 0; i < ops.size(); ++i)
  {
    if (i) s += "; ";
    s += std::to_string(i + 1) + ":" + ops[i];
  }
  return s;
}

const kvref::Universe &universe()
{
  static kvref::Universe u(true);
  return u;
}

const std::string &scratch()
{
  static std::string d = kvref::scratchBase("c12");
  return d;
}

// Executes a history given as decoded rows. Used by the property and the regressions.
void runHistory(pbt::Case &c, Cfg cfg, const std::vector<pbt::Row> &rows)
{
  static bool clockOk = c12clock::verifyInterposed();
  if (!clockOk)
  {
    c.fail("harness/clock-not-interposed", "std::chrono::system_clock::now() does not resolve to the harness clock");
    return;
  }
  iora::core::Logger::setLevel(iora::core::Logger::Level::Fatal);
  pbt::watchdog(120, "C12/store-call-did-not-return");
  const auto &U = universe();
  kvref::wipeDir(scratch());
  c12_clock_set(kBaseMs);

  Runner R(c, U, cfg, scratch() + "/kv");
  std::vector<std::string> rendered;
  bool ttlOpSeen = false, ntExpiredByAdvance = false, ntRestartAfterTtl = false, ntOverwriteTtl = false;
  std::uint64_t digest = pbt::hash64(cfg.str());

  if (R.open())
  {
    R.lastOp = "open";
    bool ok = R.checkAll();
    for (std::size_t i = 0; ok && i < rows.size(); ++i)
    {
      const pbt::Row &r = rows[i];
      Op op = decodeOp(r[0]);
      R.step = i + 1;
      const std::int64_t t = R.now();
      std::string desc;
      for (auto x : r) digest = pbt::hashMix(digest, static_cast<std::uint64_t>(x));
      try
      {
        switch (op)
        {
        case OpSet:
        {
          const std::string &k = chooseKey(U, R.model, r);
          Bytes v = kvref::makeValue(r[2], R.step);
          desc = "set(" + kvref::showKey(k) + "," + kvref::showVal(v) + ")";
          auto it = R.model.m.find(k);
          if (it != R.model.m.end() && it->second.expiry) { ntOverwriteTtl = true; c.label("overwrite of a TTL key (plain set)"); }
          R.kv->set(k, v);
          R.model.set(k, v);
          R.revivedBy.erase(k);
          R.expiryChanged.erase(k);
          break;
        }
        case OpSetTtl:
        {
          const std::string &k = chooseKey(U, R.model, r);
          Bytes v = kvref::makeValue(r[2], R.step);
          std::int64_t ttl = kTtlSec[r[3] % 8];
          desc = pbt::Fmt() << "setTtl(" << kvref::showKey(k) << "," << kvref::showVal(v) << "," << ttl << "s)";
          auto it = R.model.m.find(k);
          if (it != R.model.m.end() && it->second.expiry) { ntOverwriteTtl = true; c.label("overwrite of a TTL key (TTL set)"); }
          if (r[3] % 16 >= 8) R.kv->setString(k, std::string(v.begin(), v.end()), std::chrono::seconds(ttl));
          else R.kv->set(k, v, std::chrono::seconds(ttl));
          R.model.setTtl(k, v, t + ttl * 1000);
          R.revivedBy.erase(k);
          R.expiryChanged.erase(k);
          ttlOpSeen = true;
          break;
        }
        case OpBatch:
        {
          std::unordered_map<std::string, Bytes> b;
          std::size_t cnt = 1 + static_cast<std::size_t>(r[1] % 4);
          bool withTtl = (r[3] % 2) == 1;
          std::int64_t ttl = kTtlSec[(r[3] / 2) % 8];
          desc = withTtl ? (pbt::Fmt() << "batchTtl(" << ttl << "s:").str() : std::string("batch(");
          for (std::size_t j = 0; j < cnt; ++j)
          {
            const std::string &k = U.key(r[1] / 4 + static_cast<std::int64_t>(j) * 7);
            Bytes v = kvref::makeValue(r[2] + static_cast<std::int64_t>(j), R.step, j == 0);
            b[k] = v;
          }
          for (auto &kvp : b)
          {
            desc += kvref::showKey(kvp.first) + "=" + kvref::showVal(kvp.second) + " ";
            auto it = R.model.m.find(kvp.first);
            if (it != R.model.m.end() && it->second.expiry) { ntOverwriteTtl = true; c.label("overwrite of a TTL key (batch)"); }
          }
          desc += ")";
          if (withTtl) R.kv->setBatch(b, std::chrono::seconds(ttl));
          else R.kv->setBatch(b);
          for (auto &kvp : b)
          {
            if (withTtl) R.model.setTtl(kvp.first, kvp.second, t + ttl * 1000);
            else R.model.set(kvp.first, kvp.second);
            R.revivedBy.erase(kvp.first);
            R.expiryChanged.erase(kvp.first);
          }
          if (withTtl) ttlOpSeen = true;
          break;
        }
        case OpRemove:
        {
          const std::string &k = chooseKey(U, R.model, r);
          desc = "remove(" + kvref::showKey(k) + ")";
          R.kv->remove(k);
          R.model.remove(k);
          R.revivedBy.erase(k);
          break;
        }
        case OpRemovePrefix:
        {
          const std::string &p = U.prefix(r[1]);
          desc = "removePrefix(" + kvref::showKey(p) + ")";
          std::size_t lo = 0, hi = 0;
          for (const auto &k : U.keys)
            if (k.size() >= p.size() && k.compare(0, p.size(), p) == 0)
            {
              auto v = R.model.vis(k, t);
              if (v == Model::Present) { ++lo; ++hi; }
              else if (v == Model::Boundary) ++hi;
            }
          std::size_t n = R.kv->removeWithPrefix(p);
          R.model.removePrefix(p);
          for (const auto &k : U.keys)
            if (k.size() >= p.size() && k.compare(0, p.size(), p) == 0 && R.model.m.find(k) == R.model.m.end()) R.revivedBy.erase(k);
          if (n < lo || n > hi)
          {
            R.lastOp = desc;
            R.fail("C12/removeWithPrefix-count", "", pbt::Fmt() << "removeWithPrefix returned " << n << ", reference: " << lo << ".." << hi);
            ok = false;
          }
          break;
        }
        case OpClear:
          desc = "clear()";
          R.kv->clear();
          R.model.clear();
          R.revivedBy.clear();
          break;
        case OpExpireAt:
        {
          const std::string &k = chooseKey(U, R.model, r);
          std::int64_t off = kExpireOff[r[2] % 11];
          desc = pbt::Fmt() << "expireAt(" << kvref::showKey(k) << ",now" << (off >= 0 ? "+" : "") << off << "ms)";
          auto v = R.model.vis(k, t);
          if (v == Model::Boundary)
          {
            desc += "[skipped: expiry==now]";
            c.label("op skipped on a key at expiry == now");
            break;
          }
          bool expiredResident = (v == Model::Absent && R.model.m.count(k));
          if (expiredResident && pbt::isKnown("C12/expired-key-revived-by-expireAt") && off > 0)
          {
            desc += "[skipped: known finding]";
            c.label("excluded: expireAt(future) on an expired, not yet evicted key (known finding)");
            break;
          }
          R.kv->expireAt(k, std::chrono::system_clock::time_point(std::chrono::milliseconds(t + off)));
          if (v == Model::Present)
          {
            if (R.model.m[k].expiry) R.expiryChanged.insert(k);
            R.model.m[k].expiry = t + off;
            ttlOpSeen = true;
            c.label(off < 0 ? "expireAt past" : off == 0 ? "expireAt now" : "expireAt future");
          }
          else if (expiredResident)
          {
            R.revivedBy[k] = "expireAt";
            c.label("expireAt on an expired key");
          }
          break;
        }
        case OpPersist:
        {
          const std::string &k = chooseKey(U, R.model, r);
          desc = "persist(" + kvref::showKey(k) + ")";
          auto v = R.model.vis(k, t);
          if (v == Model::Boundary)
          {
            desc += "[skipped: expiry==now]";
            c.label("op skipped on a key at expiry == now");
            break;
          }
          bool expiredResident = (v == Model::Absent && R.model.m.count(k));
          if (expiredResident && pbt::isKnown("C12/expired-key-revived-by-persist"))
          {
            desc += "[skipped: known finding]";
            c.label("excluded: persist on an expired, not yet evicted key (known finding)");
            break;
          }
          R.kv->persist(k);
          if (v == Model::Present)
          {
            if (R.model.m[k].expiry) { c.label("persist of a TTL key"); R.expiryChanged.insert(k); }
            R.model.m[k].expiry.reset();
          }
          else if (expiredResident)
          {
            R.revivedBy[k] = "persist";
            c.label("persist on an expired key");
          }
          break;
        }
        case OpCompact:
          desc = "compact()";
          R.kv->compact();
          if (ttlOpSeen) { ntRestartAfterTtl = true; c.label("compaction after TTL operations"); }
          break;
        case OpReopen:
        {
          if (r[1] % 4 == 0) R.cfg.cache = (r[2] % 3 == 0) ? 1 : (r[2] % 3 == 1) ? 2 : 1000;
          desc = pbt::Fmt() << "close+reopen(cache=" << R.cfg.cache << ")";
          R.lastOp = desc;
          R.kv.reset();
          if (!R.open()) ok = false;
          R.justReopened = true;
          if (ttlOpSeen) { ntRestartAfterTtl = true; c.label("restart after TTL operations"); }
          break;
        }
        case OpAdvance:
        case OpAdvanceToExpiry:
        {
          std::int64_t d;
          if (op == OpAdvance) d = kAdvance[r[1] % 6];
          else
          {
            // to the earliest pending expiry -1 / exactly / +1 ms
            std::int64_t best = -1;
            for (auto &kvp : R.model.m)
              if (kvp.second.expiry && *kvp.second.expiry > t && (best < 0 || *kvp.second.expiry < best)) best = *kvp.second.expiry;
            d = best < 0 ? 1 : std::max<std::int64_t>(0, best - t + (r[1] % 3) - 1);
          }
          if (t + d > kBaseMs + 150 * 365 * kDay) d = 0; // stay far below the store's plausibility ceiling (year 2300)
          desc = pbt::Fmt() << "advance(" << d << "ms)";
          for (auto &kvp : R.model.m)
            if (kvp.second.expiry && *kvp.second.expiry > t && *kvp.second.expiry <= t + d)
            {
              ntExpiredByAdvance = true;
              c.label("advance across a key's expiry");
            }
          c12_clock_advance(d);
          break;
        }
        case OpYield:
          desc = "yield(3ms real)";
          std::this_thread::sleep_for(std::chrono::milliseconds(3));
          break;
        case OpFlush:
          desc = "flush()";
          R.kv->flush();
          break;
        default: break;
        }
      }
      catch (const std::exception &e)
      {
        R.lastOp = desc;
        c.fail("C12/op-threw", pbt::Fmt() << "step " << R.step << " " << desc << " threw: " << e.what());
        ok = false;
      }
      R.lastOp = desc;
      rendered.push_back(desc);
      c.label(std::string("op ") + kOpName[op]);
      if (ok) ok = R.checkAll();
      R.justReopened = false;
    }
    // final restart: nothing expired may reappear, nothing live may be lost
    if (ok)
    {
      R.step = rows.size() + 1;
      R.lastOp = "final close+reopen";
      R.kv.reset();
      R.justReopened = true;
      if (R.open()) ok = R.checkAll();
    }
  }
  R.kv.reset();
  c12_clock_disable();
  kvref::wipeDir(scratch());
  c.describe(cfg.str() + " | " + renderOps(rendered));
  c.label(pbt::Fmt() << "cache " << cfg.cache);
  c.label(pbt::Fmt() << "tick " << cfg.tickMs << "ms");
  c.label(pbt::Fmt() << "compaction mode " << cfg.compMode);
  if (R.boundaryReads) c.label("reads at expiry == now (either answer accepted)");
  if (ntExpiredByAdvance) c.label("nontrivial: TTL op, advance across expiry, read");
  if (ntRestartAfterTtl) c.label("nontrivial: compaction/restart after TTL ops");
  if (ntOverwriteTtl) c.label("nontrivial: overwrite of a TTL key");
  if (ntExpiredByAdvance || ntRestartAfterTtl || ntOverwriteTtl) c.nontrivial(digest);
}

} // namespace

PBT_PROPERTY(history)
{
  Cfg cfg;
  cfg.cache = src.oneOf<std::uint32_t>({1, 2, 1000});
  cfg.tickMs = src.oneOf<int>({1000, 1});
  cfg.compMode = static_cast<int>(src.weighted({4, 3, 2, 1}));
  cfg.getFirst = src.coin();
  auto rows = src.rows(48, 4, 0, (1 << 20) - 1);
  runHistory(c, cfg, rows);
}

// ---- fixed cases (same executor, same oracle) -----------------------------------
namespace
{
// helper: row with the first op-code value that decodes to `op`
pbt::Row row(Op op, std::int64_t a = 0, std::int64_t b = 0, std::int64_t d = 0)
{
  int x = 0;
  for (int i = 0; i < op; ++i) x += kOpWeight[i];
  return pbt::Row{x, a, b, d};
}
} // namespace

// TTL, advance across the expiry, then persist()/expireAt() on the expired key: the key must stay gone
PBT_REGRESSION(persist_on_expired_key)
{
  Cfg cfg;
  runHistory(c, cfg, {row(OpSetTtl, 0, 2, 0), row(OpAdvance, 4), row(OpPersist, 0), row(OpReopen, 1)});
}
PBT_REGRESSION(expireat_on_expired_key)
{
  Cfg cfg;
  runHistory(c, cfg, {row(OpSetTtl, 0, 2, 0), row(OpAdvance, 4), row(OpExpireAt, 0, 9), row(OpReopen, 1)});
}
// TTL -> plain overwrite -> compaction -> restart -> 400 days later: still there
PBT_REGRESSION(overwrite_clears_expiry_across_restart)
{
  Cfg cfg;
  cfg.cache = 1;
  runHistory(c, cfg, {row(OpSetTtl, 0, 2, 0), row(OpSet, 0, 3), row(OpCompact), row(OpReopen, 1), row(OpAdvance, 5)});
}
// TTL keys written by every TTL path, restart after expiry: none may reappear
PBT_REGRESSION(expired_never_reappear_after_restart)
{
  Cfg cfg;
  cfg.compMode = 2;
  runHistory(c, cfg, {row(OpSetTtl, 0, 2, 2), row(OpBatch, 5, 2, 1), row(OpSet, 3, 2), row(OpExpireAt, 3, 7),
                      row(OpAdvance, 4), row(OpReopen, 1), row(OpCompact), row(OpReopen, 1)});
}

// TTL set, then persist / extend, restart after the ORIGINAL expiry: the key must survive
PBT_REGRESSION(persist_then_restart_after_original_expiry)
{
  Cfg cfg;
  cfg.compMode = 2;
  runHistory(c, cfg, {row(OpSetTtl, 0, 2, 0), row(OpPersist, 0), row(OpAdvance, 4), row(OpReopen, 1)});
}
PBT_REGRESSION(extend_then_restart_after_original_expiry)
{
  Cfg cfg;
  cfg.compMode = 2;
  runHistory(c, cfg, {row(OpSetTtl, 0, 2, 0), row(OpExpireAt, 0, 10), row(OpAdvance, 4), row(OpReopen, 1)});
}
// same through a snapshot: TTL key compacted into the snapshot, persisted in the log
PBT_REGRESSION(persist_after_snapshot_then_restart)
{
  Cfg cfg;
  cfg.compMode = 2;
  runHistory(c, cfg, {row(OpSetTtl, 0, 2, 0), row(OpCompact), row(OpPersist, 0), row(OpAdvance, 4), row(OpReopen, 1)});
}

// empty value written, store reloaded (UBSan: memcpy(null, p, 0) in load())
PBT_REGRESSION(empty_value_reload)
{
  Cfg cfg;
  cfg.compMode = 2;
  runHistory(c, cfg, {row(OpSet, 0, 0), row(OpSetTtl, 3, 0, 4), row(OpReopen, 1)});
}

PBT_MAIN()
