// C02 - "Every session gets exactly one close; nothing before announce or after close".
//
//   fanout         : scripted fake engine (TransportEngineInjector seam), deterministic.
//                    Histories of announce / observe / unobserve / setSessionData /
//                    onData / onClose over several ids; oracle = exact callback
//                    sequence predicted by a reference model (global first, then each
//                    still-registered observer once in registration order, then the
//                    current user-data cleanup once).
//   lifecycle_tcp,
//   lifecycle_udp  : real engines on loopback against raw POSIX peers. Histories over
//                    <= 8 sessions of connect (listening / refused / unresolvable /
//                    black hole + small connectTimeout), raw peers connecting to iora
//                    listeners, app close, peer FIN, peer RST, idle GC, back-pressure
//                    close, data both ways, observers and user data registered and
//                    unregistered at generated points, two close causes issued
//                    back-to-back, reconnect from inside the close callback, then
//                    stop() (sometimes mid-history). Oracle = invariant over the event
//                    log (c02_eventlog.hpp) + bounded wait for a close after a definite
//                    cause while the transport keeps running.
#include "pbt.hpp"

#include "c02_eventlog.hpp"
#include "c02_fake_engine.hpp"
#include "c02_rawpeer.hpp"

#include <iora/core/logger.hpp>

#include <algorithm>
#include <atomic>
#include <deque>
#include <memory>
#include <thread>

using namespace iora::network;
using c02log::Cause;
using c02log::K;
using Injector = iora::network::test::TransportEngineInjector;

namespace
{

void quietLogs()
{
  static bool once = [] {
    iora::core::Logger::setLevel(iora::core::Logger::Level::Fatal);
    return true;
  }();
  (void)once;
}

// ============================================================================
// (a) fan-out against the scripted fake engine
// ============================================================================
struct FanOp
{
  int op, a, b, c;
};
struct FanPlan
{
  std::vector<FanOp> ops;
};

std::string describeFan(const FanPlan &p)
{
  static const char *n[] = {"announce", "observe", "unobserve", "setData", "close", "data", "getData", "armGlobal"};
  std::string s = "fanout:";
  for (auto &o : p.ops)
    s += std::string(" ") + n[o.op] + "(" + std::to_string(o.a) + "," + std::to_string(o.b) + "," + std::to_string(o.c) + ")";
  return s;
}

void runFanout(const FanPlan &plan, pbt::Case &c)
{
  quietLogs();
  c.describe(describeFan(plan));
  auto engOwner = std::make_unique<c02fake::FakeEngine>();
  c02fake::FakeEngine *fe = engOwner.get();
  auto t = Injector::make(std::move(engOwner), TransportConfig{});
  t->start();

  // ---- actual callback record ------------------------------------------------
  struct Rec
  {
    char kind; // G global close, O observer, C cleanup, D data, a accept, c connect
    std::uint64_t x; // sid or tag
    bool operator==(const Rec &o) const { return kind == o.kind && x == o.x; }
  };
  std::vector<Rec> actual;
  auto show = [](const std::vector<Rec> &v)
  {
    std::string s;
    for (auto &r : v) s += std::string(1, r.kind) + std::to_string(r.x) + " ";
    return s;
  };

  // ---- reference model -------------------------------------------------------
  constexpr int NIDS = 6;
  struct MObs
  {
    std::uint64_t tag;
    ObserverId handle;
    int idx;        // session index
    bool registered;
    int action;     // 0 none, 1 getData check, 2 observe a new one on the same sid, 3 replace user data
  };
  struct MData
  {
    bool present{false};
    std::uint64_t tag{0};
    bool nonNull{false}, hasCleanup{false};
  };
  struct MSess
  {
    int state{0}; // 0 unborn, 1 open, 2 closed
    SessionId sid{0};
    MData data;
    // re-entrant action performed INSIDE the global close callback of this session's close:
    // 0 none, 1 unobserve an observer of this session, 2 unobserve an observer of another session,
    // 3 observe(this session, new observer), 4 replace the user data, 5 clear the user data
    int globalAction{0};
    int globalParam{0};
  };
  MSess ms[NIDS];
  std::deque<MObs> mobs; // deque: stable references while callbacks append
  std::uint64_t nextTag = 1;
  // user data payload objects (address = data pointer handed to iora)
  struct Payload
  {
    std::uint64_t tag;
  };
  std::deque<Payload> payloads;
  std::string reentrantFail;
  std::string reentrantSig;
  // filled by the global callback when it returns: what the model says is registered for the
  // closing session at that moment (the documented order reads the observer list AFTER the
  // global callback), and how many model observers existed then
  std::vector<std::uint64_t> obsAfterGlobal;
  std::size_t mobsAfterGlobal = 0;
  bool usedGlobalReentry = false;

  t->onAccept([&](SessionId sid, const TransportAddress &) { actual.push_back({'a', sid}); });
  t->onConnect([&](SessionId sid, const TransportAddress &) { actual.push_back({'c', sid}); });
  t->onData([&](SessionId sid, iora::core::BufferView, std::chrono::steady_clock::time_point) { actual.push_back({'D', sid}); });
  Transport *tp = t.get();
  auto expectedDataPtr = [&](int idx) -> void *
  {
    if (!ms[idx].data.present || !ms[idx].data.nonNull) return nullptr;
    for (auto &p : payloads)
      if (p.tag == ms[idx].data.tag) return &p;
    return nullptr;
  };
  auto idxOfSid = [&](SessionId sid)
  {
    for (int i = 0; i < NIDS; ++i)
      if (ms[i].state != 0 && ms[i].sid == sid) return i;
    return -1;
  };
  std::function<void(void *)> cleanupFn = [&](void *p) { actual.push_back({'C', static_cast<Payload *>(p)->tag}); };
  t->onClose(
    [&](SessionId sid, const TransportErrorInfo &)
    {
      actual.push_back({'G', sid});
      // the user data must still be registered while the global callback runs
      int idx = idxOfSid(sid);
      if (idx >= 0 && tp->getSessionData(sid) != expectedDataPtr(idx) && reentrantFail.empty())
        reentrantFail = "getSessionData inside the global close callback did not return the registered pointer";
      if (idx >= 0 && ms[idx].globalAction != 0)
      {
        usedGlobalReentry = true;
        const int act = ms[idx].globalAction;
        if (act == 1 || act == 2)
        {
          // candidates: observers of this session (1) / of other sessions (2), any model state
          std::vector<MObs *> cand;
          for (auto &o : mobs)
            if ((act == 1) == (o.idx == idx)) cand.push_back(&o);
          if (!cand.empty())
          {
            MObs *o = cand[static_cast<std::size_t>(ms[idx].globalParam) % cand.size()];
            bool ret = tp->unobserve(o->handle);
            if (ret != o->registered && reentrantFail.empty())
            {
              reentrantSig = "C02/fanout/unobserve-in-global-callback";
              reentrantFail = std::string("unobserve() called inside the global close callback returned ") + (ret ? "true" : "false") +
                              " for observer t" + std::to_string(o->tag) + " that is " + (o->registered ? "still registered" : "not registered") +
                              (act == 1 ? " for the closing session" : " for another session");
            }
            o->registered = false;
          }
        }
        else if (act == 3)
        {
          std::uint64_t nt = nextTag++;
          ObserverId h = tp->observe(sid, [&, nt](SessionId, const TransportErrorInfo &) { actual.push_back({'O', nt}); });
          mobs.push_back(MObs{nt, h, idx, true, 0});
        }
        else if (act == 4)
        {
          std::uint64_t nt = nextTag++;
          payloads.push_back(Payload{nt});
          tp->setSessionData(sid, &payloads.back(), cleanupFn);
          ms[idx].data = MData{true, nt, true, true};
        }
        else if (act == 5)
        {
          tp->setSessionData(sid, nullptr, nullptr);
          ms[idx].data = MData{};
        }
      }
      obsAfterGlobal.clear();
      if (idx >= 0)
        for (auto &o : mobs)
          if (o.idx == idx && o.registered) obsAfterGlobal.push_back(o.tag);
      mobsAfterGlobal = mobs.size();
    });

  auto makeObserver = [&](std::uint64_t tag) -> CloseCallback
  {
    return [&, tag](SessionId sid, const TransportErrorInfo &)
    {
      actual.push_back({'O', tag});
      MObs *self = nullptr;
      for (auto &o : mobs)
        if (o.tag == tag) self = &o;
      if (!self) return;
      int idx = self->idx;
      if (self->action == 1)
      {
        if (tp->getSessionData(sid) != expectedDataPtr(idx) && reentrantFail.empty())
          reentrantFail = "getSessionData inside an observer did not return the registered pointer (cleanup ran early?)";
      }
      else if (self->action == 2)
      {
        // registering on a session that is closing: must never be invoked
        std::uint64_t nt = nextTag++;
        ObserverId h = tp->observe(sid, [&, nt](SessionId, const TransportErrorInfo &) { actual.push_back({'O', nt}); });
        mobs.push_back(MObs{nt, h, idx, true, 0}); // "registered" in the map, but a zombie
      }
      else if (self->action == 3)
      {
        // replace the user data before the cleanup step: the NEW entry is the one to clean
        std::uint64_t nt = nextTag++;
        payloads.push_back(Payload{nt});
        tp->setSessionData(sid, &payloads.back(), cleanupFn);
        ms[idx].data = MData{true, nt, true, true};
      }
    };
  };

  bool anyRich = false;
  unsigned closes = 0;

  auto doClose = [&](int idx) -> bool
  {
    // expected sequence from the model, computed BEFORE firing. Re-entrant actions of
    // observers (3: replace data) change the expected cleanup, so the tail is
    // computed after the call from the model state the callbacks left behind.
    std::vector<Rec> expected;
    expected.push_back({'G', ms[idx].sid});
    unsigned nObs = 0;
    std::size_t before = actual.size();
    obsAfterGlobal.clear();
    mobsAfterGlobal = mobs.size();
    fe->cbs().onClose(ms[idx].sid, TransportErrorInfo{TransportError::PeerClosed, "scripted"});
    // documented order: global first, THEN the list of still-registered observers is read
    for (auto tag : obsAfterGlobal)
    {
      expected.push_back({'O', tag});
      ++nObs;
    }
    const std::size_t mobsBefore = mobsAfterGlobal;
    if (ms[idx].data.present && ms[idx].data.nonNull && ms[idx].data.hasCleanup)
      expected.push_back({'C', ms[idx].data.tag});
    std::vector<Rec> got(actual.begin() + static_cast<std::ptrdiff_t>(before), actual.end());
    ++closes;
    if (nObs >= 2 || (nObs >= 1 && expected.back().kind == 'C')) anyRich = true;
    if (!(got == expected))
    {
      // structural signature from the first difference
      std::string sig = "C02/fanout/sequence";
      std::size_t i = 0;
      while (i < got.size() && i < expected.size() && got[i] == expected[i]) ++i;
      char g = i < got.size() ? got[i].kind : '-', e = i < expected.size() ? expected[i].kind : '-';
      sig += std::string("/expected-") + e + "-got-" + g;
      c.fail(sig, "close of session " + std::to_string(ms[idx].sid) + ": expected callback sequence [" + show(expected) +
                    "] but observed [" + show(got) + "] (G=global O=observer tag C=cleanup tag)");
      return false;
    }
    // model: session closed, its observers and user data are gone
    ms[idx].state = 2;
    ms[idx].data = MData{};
    for (std::size_t i = 0; i < mobsBefore; ++i)
      if (mobs[i].idx == idx) mobs[i].registered = false;
    // zombies registered during the fan-out stay in iora's map: unobserve() will find them
    return true;
  };

  for (auto &op0 : plan.ops)
  {
    FanOp op = op0;
    int idx = op.a % NIDS;
    // an op on an id that does not exist yet announces it first (accept/connect by parity)
    const bool implicitAnnounce = (op.op == 1 || op.op == 3 || op.op == 4 || op.op == 5) && ms[idx].state == 0;
  again:
    switch (implicitAnnounce && ms[idx].state == 0 ? 0 : op.op)
    {
    case 0: // announce
      if (ms[idx].state == 0)
      {
        if ((op.b + op.a) % 2 == 0)
        {
          ms[idx].sid = fe->allocSid();
          ms[idx].state = 1;
          std::size_t before = actual.size();
          fe->cbs().onAccept(ms[idx].sid, TransportAddress{"127.0.0.1", 1000});
          if (actual.size() != before + 1 || !(actual.back() == Rec{'a', ms[idx].sid}))
          {
            c.fail("C02/fanout/accept-not-forwarded", "accept callback not forwarded exactly once");
            return;
          }
        }
        else
        {
          auto r = t->connect("127.0.0.1", 1, TlsMode::None);
          if (!r.isOk())
          {
            c.fail("C02/fanout/connect-failed", "connect on the fake engine failed");
            return;
          }
          ms[idx].sid = r.value();
          ms[idx].state = 1;
          fe->cbs().onConnect(ms[idx].sid, TransportAddress{"127.0.0.1", 1});
          if (actual.empty() || !(actual.back() == Rec{'c', ms[idx].sid}))
          {
            c.fail("C02/fanout/connect-not-forwarded", "connect callback not forwarded");
            return;
          }
        }
        if (implicitAnnounce) goto again;
      }
      break;
    case 1: // observe
      if (ms[idx].state != 0)
      {
        std::uint64_t tag = nextTag++;
        int action = op.b % 8 < 4 ? 0 : (op.b % 8 < 6 ? 1 : op.b % 8 == 6 ? 2 : 3);
        ObserverId h = t->observe(ms[idx].sid, makeObserver(tag));
        mobs.push_back(MObs{tag, h, idx, true, action});
        // an observer registered on an already closed id can never be invoked: keep it
        // "registered" for unobserve()'s return value only (doClose won't run again)
      }
      break;
    case 2: // unobserve
      if (!mobs.empty())
      {
        MObs &o = mobs[static_cast<std::size_t>(op.a) % mobs.size()];
        bool ret = t->unobserve(o.handle);
        if (ret != o.registered)
        {
          c.fail("C02/fanout/unobserve-result", std::string("unobserve returned ") + (ret ? "true" : "false") +
                                                  " for an observer that the model says is " +
                                                  (o.registered ? "registered" : "not registered"));
          return;
        }
        o.registered = false;
      }
      break;
    case 3: // setSessionData
      if (ms[idx].state != 0)
      {
        int variant = op.b % 4; // 0,1: data+cleanup  2: data, no cleanup  3: nullptr + cleanup (clears)
        std::uint64_t tag = nextTag++;
        payloads.push_back(Payload{tag});
        if (variant <= 1)
        {
          t->setSessionData(ms[idx].sid, &payloads.back(), cleanupFn);
          ms[idx].data = MData{true, tag, true, true};
        }
        else if (variant == 2)
        {
          t->setSessionData(ms[idx].sid, &payloads.back(), nullptr);
          ms[idx].data = MData{true, tag, true, false};
        }
        else
        {
          t->setSessionData(ms[idx].sid, nullptr, cleanupFn);
          ms[idx].data = MData{true, tag, false, true};
        }
      }
      break;
    case 4: // close
      if (ms[idx].state == 1 && !doClose(idx)) return;
      break;
    case 5: // data
      if (ms[idx].state == 1)
      {
        std::uint8_t b[3] = {1, 2, 3};
        std::size_t before = actual.size();
        fe->cbs().onData(ms[idx].sid, iora::core::BufferView{b, 3}, std::chrono::steady_clock::now());
        if (actual.size() != before + 1 || !(actual.back() == Rec{'D', ms[idx].sid}))
        {
          c.fail("C02/fanout/data-not-forwarded", "onData not forwarded exactly once for an open session");
          return;
        }
      }
      break;
    case 7: // arm a re-entrant action for the global callback of this id's close
      if (ms[idx].state != 2)
      {
        ms[idx].globalAction = 1 + op.b % 5;
        ms[idx].globalParam = op.b / 5;
      }
      break;
    case 6: // getSessionData
      if (ms[idx].state != 0)
      {
        void *p = t->getSessionData(ms[idx].sid);
        if (p != expectedDataPtr(idx))
        {
          c.fail("C02/fanout/get-session-data", "getSessionData does not return the pointer registered last");
          return;
        }
      }
      break;
    }
    if (!reentrantFail.empty())
    {
      c.fail(reentrantSig.empty() ? "C02/fanout/data-gone-before-cleanup-step" : reentrantSig, reentrantFail);
      return;
    }
  }
  // drain: the engine closes every remaining session (as stop() does)
  for (int i = 0; i < NIDS; ++i)
    if (ms[i].state == 1 && !doClose(i)) return;
  if (!reentrantFail.empty())
  {
    c.fail(reentrantSig.empty() ? "C02/fanout/data-gone-before-cleanup-step" : reentrantSig, reentrantFail);
    return;
  }
  std::size_t before = actual.size();
  t->stop();
  t.reset();
  if (actual.size() != before)
  {
    c.fail("C02/fanout/callback-at-destruction", "callbacks ran while destroying a transport whose sessions were all closed");
    return;
  }
  c.label("fanout closes=" + std::to_string(std::min(closes, 6u)));
  if (usedGlobalReentry) c.label("re-entrant action inside the global close callback");
  if (anyRich && closes >= 2)
  {
    std::uint64_t d = 0;
    for (auto &o : plan.ops) d = pbt::hashMix(d, static_cast<std::uint64_t>(o.op * 1000003 + (o.a % NIDS) * 131 + (o.b % 8)));
    c.nontrivial(d);
  }
}

FanPlan genFanPlan(pbt::Src &src)
{
  FanPlan p;
  auto rows = src.rows(48, 3, 0, 999);
  for (auto &r : rows)
  {
    // weights: announce 4, observe 6, unobserve 3, setData 4, close 4, data 1, getData 1
    static const int w[] = {0, 0, 0, 0, 1, 1, 1, 1, 1, 1, 2, 2, 2, 3, 3, 3, 3, 4, 4, 4, 4, 5, 6, 7, 7, 7};
    int op = w[static_cast<std::size_t>(r[0]) % (sizeof(w) / sizeof(w[0]))];
    p.ops.push_back(FanOp{op, static_cast<int>(r[1]), static_cast<int>(r[2]), 0});
  }
  return p;
}

// ============================================================================
// (b) lifecycle against the real engines
// ============================================================================
enum Op
{
  NewAccept = 0, // raw peer connects to / sends a datagram to the iora listener
  NewConnect,    // t->connect(target)
  NewSync,       // t->connectSync(target)
  NewVia,        // UDP: connectViaListener
  AppClose,
  PeerFin,
  PeerRst,
  Send,
  PeerSend,
  Backpressure,
  SetMode,   // setReadMode(sid, Sync|Async|Disabled) at any point, also after the close
  RecvSync,  // receiveSync with a small buffer and a short timeout (partial reads)
  HandBack,  // Sync, peer data, partial receiveSync, close cause, then back to Async (HttpClient's pattern)
  Observe,
  Unobserve,
  SetData,
  Race,
  Quiesce,
  Sleep,
  GcWait,
  StopNow,
  kOpMax
};
const char *opName(int o)
{
  static const char *n[] = {"accept", "connect", "connectSync", "via", "appClose", "peerFin", "peerRst", "send", "peerSend",
                            "backpressure", "setMode", "recvSync", "handBack", "observe", "unobserve", "setData", "race", "quiesce", "sleep", "gcWait", "stop"};
  return o >= 0 && o < kOpMax ? n[o] : "?";
}
enum Target
{
  TListening = 0,
  TRefused,      // TCP: bound, not listening.  UDP: port whose socket was closed (ICMP)
  TUnresolvable, // host name that is not a name
  TBlackHole,    // TCP only
  TTlsGarbage,   // TCP only: TLS client connect to a raw peer that answers garbage
  TTlsStall,     // TCP only: TLS client connect to a raw peer that never answers (handshakeTimeout)
  TUnreachable,  // 255.255.255.255: connect() fails synchronously with ENETUNREACH inside doConnect
  TTlsServerMode,// connect(..., TlsMode::Server): never valid for an outbound connection - must fail closed
  TFdExhausted,  // retired (see newConnect): behaves like TUnreachable
  kTargetMax
};
const char *targetName(int t)
{
  static const char *n[] = {"listening", "refused", "unresolvable", "blackhole", "tls-garbage", "tls-stall", "unreachable", "tls-server-mode", "fd-exhausted"};
  return n[(t % kTargetMax + kTargetMax) % kTargetMax];
}

struct LOp
{
  int op, a, b, c;
};
struct LPlan
{
  bool udp{false};
  bool edge{true}, hiRes{true}, batching{false}, gcCase{false};
  int connectTimeoutMs{150};
  int maxWriteQueue{1024};
  int reconnect{0};      // 0 none; else number of reconnects issued from inside the close callback
  int reconnectTarget{0};
  bool waitBeforeStop{false}; // wait (bounded) for every definite cause before the final stop
  bool allowRearmAfterClose{false}; // fixed reproducers of C02-2 only
  int tlsCfg{2}; // client TLS: 0 disabled (the default), 1 enabled but defaultMode None (no context), 2 fully configured
  bool unobserveInGlobal{false}; // the global close callback unobserves one observer of the closing session
  bool restart{false};        // after the stop: start() again, one accept + one connect, stop() (ids stay distinct)
  std::vector<LOp> ops;
};

std::string describeLife(const LPlan &p)
{
  std::string s = p.udp ? "udp" : "tcp";
  s += pbt::Fmt() << " edge=" << p.edge << " hiRes=" << p.hiRes << " batch=" << p.batching << " gc=" << p.gcCase
                  << " connTmo=" << p.connectTimeoutMs << " mwq=" << p.maxWriteQueue << " reconnectInClose=" << p.reconnect
                  << "/" << targetName(p.reconnectTarget) << " waitBeforeStop=" << p.waitBeforeStop << " restart=" << p.restart << " unobserveInGlobal=" << p.unobserveInGlobal << " tlsCfg=" << p.tlsCfg << " ops:";
  for (auto &o : p.ops)
  {
    s += std::string(" ") + opName(o.op);
    if (o.op == NewConnect || o.op == NewSync || o.op == NewVia) s += std::string("[") + targetName(o.a) + (o.b % 2 ? ",wait" : "") + "]";
    else if (o.op == Race) s += "[" + std::to_string(o.a % 8) + " on #" + std::to_string(o.b % 8) + "]";
    else if (o.op == Sleep) s += "[" + std::to_string(o.a % 20) + "ms]";
    else if (o.op != Quiesce && o.op != StopNow && o.op != GcWait && o.op != NewAccept) s += "[#" + std::to_string(o.a % 8) + "]";
  }
  return s;
}

constexpr int kBoundMs = 20000; // bounded-wait B: >= 100x the expected time of any step here

struct Sess
{
  char origin{'A'}; // A accepted, C connect, S connectSync, V via
  int target{TListening};
  SessionId sid{0};
  bool sidKnown{false};
  int rawFd{-1};             // peer-side socket (TCP stream fd / UDP socket)
  std::uint16_t ioraPort{0}; // UDP: port of iora's socket for this session, if learned
  bool established{false};   // a live kernel connection exists (TCP) / peer socket exists (UDP)
  bool causeIssued{false};
  bool definite{false};      // a cause that MUST lead to a close was issued
  std::uint64_t firstCause{0};
  bool rawClosed{false};
};

void runLifecycle(const LPlan &plan, pbt::Case &c)
{
  quietLogs();
  c.describe(describeLife(plan));
  pbt::watchdog(90, "C02/harness-watchdog");
  const bool udp = plan.udp;

  TransportConfig cfg;
  cfg.useEdgeTriggered = plan.edge;
  cfg.enableHighResolutionTimers = plan.hiRes;
  cfg.batching.enabled = plan.batching;
  cfg.gcInterval = std::chrono::seconds(1);
  cfg.idleTimeout = std::chrono::seconds(plan.gcCase ? 1 : 600);
  cfg.connectTimeout = std::chrono::milliseconds(plan.connectTimeoutMs);
  cfg.maxWriteQueue = static_cast<std::size_t>(plan.maxWriteQueue);
  bool needTls = false;
  for (auto &o : plan.ops)
    if ((o.op == NewConnect || o.op == NewSync || o.op == NewVia) &&
        (o.a % kTargetMax == TTlsGarbage || o.a % kTargetMax == TTlsStall || o.a % kTargetMax == TTlsServerMode)) needTls = true;
  if (needTls && !plan.udp && plan.tlsCfg != 0)
  {
    // the configuration dimension: enabled-without-a-mode yields no client context, exactly like
    // "disabled" - a connect that asks for TLS must then fail closed WITH its terminal close
    cfg.clientTls.enabled = true;
    cfg.clientTls.defaultMode = plan.tlsCfg == 2 ? TlsMode::Client : TlsMode::None;
    cfg.clientTls.verifyPeer = false;
    cfg.handshakeTimeout = std::chrono::milliseconds(2 * plan.connectTimeoutMs);
  }
  const bool smallQueue = plan.maxWriteQueue <= 4;
  if (smallQueue) cfg.soSndBuf = 4096;
  const int peerRcvBuf = smallQueue ? 4096 : 0;

  // Everything a callback can touch is declared BEFORE the transport, so that it
  // outlives it on every exit path (a destructor may still run the drain callbacks).
  c02raw::FdBag bag;
  c02log::Log log;
  struct Payload
  {
    std::uint64_t tag;
    std::uint64_t sid;
  };
  std::deque<Payload> payloads;
  // observers registered by the harness thread; the global close callback (I/O thread) may
  // unobserve one of the closing session's observers from inside the callback
  struct ObsRec
  {
    std::uint64_t tag;
    ObserverId h;
    SessionId sid;
    bool unobserveTried;
  };
  std::mutex obsMu;
  std::vector<ObsRec> observers;
  std::atomic<bool> unobservedInGlobal{false};
  std::atomic<int> reconnectsLeft{plan.reconnect};
  std::uint16_t reconnectPort = 0; // fixed before start()
  const std::string badHost = "not a host name";
  auto t = udp ? Transport::udp(cfg) : Transport::tcp(cfg);
  Transport *tp = t.get();

  // ---- targets ---------------------------------------------------------------
  std::uint16_t refusedPort = 0;
  [[maybe_unused]] int refusedFd = -1;
  c02raw::BlackHole hole;
  bool holeOpen = false;
  if (!udp)
  {
    refusedFd = bag.add(c02raw::tcpRefusedPort(refusedPort));
  }
  else
  {
    // a UDP port with no socket behind it: bind, remember, close at once. The kernel
    // answers datagrams with ICMP port unreachable (optional close cause only).
    int f = c02raw::udpBind(refusedPort);
    if (f >= 0) ::close(f);
  }

  // ---- callbacks ---------------------------------------------------------------
  int reconnectLfd = -1;
  if (plan.reconnect > 0)
  {
    if (plan.reconnectTarget == TListening)
    {
      reconnectLfd = udp ? bag.add(c02raw::udpBind(reconnectPort)) : bag.add(c02raw::tcpListen(reconnectPort, 64));
      (void)reconnectLfd;
    }
    else
      reconnectPort = refusedPort;
  }
  auto gauge = [tp] { return tp->getStats().sessionsCurrent; };
  t->onAccept([&](SessionId sid, const TransportAddress &a) { log.addCb(K::Accept, sid, a.port, gauge()); });
  t->onConnect([&](SessionId sid, const TransportAddress &) { log.addCb(K::Connect, sid, 0, gauge()); });
  t->onData([&](SessionId sid, iora::core::BufferView v, std::chrono::steady_clock::time_point)
            { log.addCb(K::Data, sid, v.size(), gauge()); });
  t->onClose(
    [&](SessionId sid, const TransportErrorInfo &e)
    {
      log.addCb(K::CloseBegin, sid, static_cast<std::uint64_t>(e.code), gauge());
      if (plan.unobserveInGlobal)
      {
        // unobserve one of THIS session's observers from inside the global callback of its close:
        // the observer list is read after the global callback, so it must succeed and silence it
        ObsRec pick{0, 0, 0, true};
        {
          std::lock_guard<std::mutex> lk(obsMu);
          for (auto &o : observers)
            if (o.sid == sid && !o.unobserveTried)
            {
              o.unobserveTried = true;
              pick = o;
              pick.unobserveTried = false;
              break;
            }
        }
        if (!pick.unobserveTried)
        {
          log.add(K::UnobsBegin, sid, pick.tag);
          bool r = tp->unobserve(pick.h);
          log.add(K::UnobsEnd, sid, pick.tag, r ? 1 : 0);
          unobservedInGlobal.store(true);
        }
      }
      // the classic "reconnect from the close callback" pattern
      if (reconnectsLeft.load() > 0 && reconnectsLeft.fetch_sub(1) > 0)
      {
        auto r = plan.reconnectTarget == TUnresolvable ? tp->connect(badHost, 9, TlsMode::None)
                                                       : tp->connect("127.0.0.1", reconnectPort, TlsMode::None);
        if (r.isOk()) log.add(K::Returned, r.value());
      }
      log.add(K::CloseEnd, sid);
    });
  auto cleanupFn = [&log, gauge](void *p)
  {
    auto *pl = static_cast<Payload *>(p);
    log.addCb(K::Cleanup, pl->sid, pl->tag, gauge());
  };

  if (!t->start().isOk())
  {
    c.inconclusive("transport did not start");
    return;
  }
  auto lr = t->addListener("127.0.0.1", 0, TlsMode::None);
  if (!lr.isOk())
  {
    c.inconclusive("listener did not bind");
    t->stop();
    return;
  }
  ListenerId lid = lr.value();
  // the listening port is found without trusting iora more than necessary: it is only
  // used to address the listener
  std::uint16_t ioraPort = t->getListenerAddress(lid).port;
  if (ioraPort == 0)
  {
    c.inconclusive("listener address unknown");
    t->stop();
    return;
  }

  std::vector<Sess> sess;
  std::uint64_t nextTag = 1;
  bool stopped = false;
  std::set<std::uint64_t> causeKinds;
  bool racedOne = false;
  bool usedModes = false;
  bool sharedPeers = false;
  bool bail = false; // harness-side problem: stop the history (never a violation)
  unsigned opsDone = 0;

  auto issueCause = [&](Sess &s, std::uint64_t cause, bool definite)
  {
    if (s.sidKnown) log.add(K::Cause, s.sid, cause, definite ? 1 : 0);
    causeKinds.insert(cause);
    if (!s.causeIssued) s.firstCause = cause;
    s.causeIssued = true;
    if (definite) s.definite = true;
  };
  auto closedAlready = [&](const Sess &s)
  {
    if (!s.sidKnown) return false;
    return log.hasClose(s.sid, 0);
  };

  // bounded wait for the close of every session with a definite cause
  auto quiesce = [&]() -> bool
  {
    for (auto &s : sess)
    {
      if (!s.sidKnown || !s.definite) continue;
      if (!log.hasClose(s.sid, kBoundMs))
      {
        c.failTimed(std::string("C02/no-close-while-running/") + c02log::causeName(s.firstCause),
                    "session " + std::to_string(s.sid) + " (origin " + std::string(1, s.origin) + ", target " +
                      targetName(s.target) + "): no close notification within " + std::to_string(kBoundMs / 1000) +
                      " s after cause '" + c02log::causeName(s.firstCause) + "' while the transport keeps running\n  log: " +
                      c02log::render(log.snapshot()));
        return false;
      }
    }
    return true;
  };

  auto newAccept = [&]()
  {
    if (sess.size() >= 8) return;
    Sess s;
    s.origin = 'A';
    std::uint16_t myPort = 0;
    if (!udp)
    {
      s.rawFd = bag.add(c02raw::tcpConnect(ioraPort, 10000, peerRcvBuf));
      if (s.rawFd < 0)
      {
        bail = true;
        return;
      }
      myPort = c02raw::localPort(s.rawFd);
    }
    else
    {
      s.rawFd = bag.add(c02raw::udpBind(myPort));
      if (s.rawFd < 0 || !c02raw::udpSendTo(s.rawFd, ioraPort, "hello", 5))
      {
        bail = true;
        return;
      }
      s.ioraPort = ioraPort;
    }
    s.established = true;
    // wait for the announce (pairing by the peer port reported in onAccept)
    std::uint64_t sid = 0;
    bool ok = log.waitFor(
      [&](const std::vector<c02log::Event> &v)
      {
        for (auto &e : v)
          if (e.k == K::Accept && e.a == myPort)
          {
            sid = e.sid;
            return true;
          }
        return false;
      },
      kBoundMs);
    if (!ok)
    {
      // not a C02 clause (an unannounced connection has no id): give up on this history
      c.inconclusive("accepted connection was not announced within the bound");
      bail = true;
      return;
    }
    s.sid = sid;
    s.sidKnown = true;
    sess.push_back(s);
  };

  auto newConnect = [&](int target, bool sync, bool via, bool waitAnnounce, int sharePeer = -1)
  {
    if (sess.size() >= 8) return;
    // Descriptor exhaustion (RLIMIT_NOFILE lowered around the connect) was tried and REMOVED: UBSan's
    // vptr check probes memory with pipe(); with no descriptors left it reports "invalid vptr" for
    // perfectly good objects (seen in connectSync's make_shared) - a false sanitizer report. The
    // target value is kept for replay compatibility and behaves like `unreachable`.
    if (target == TFdExhausted) target = TUnreachable;
    Sess s;
    s.origin = via ? 'V' : sync ? 'S' : 'C';
    s.target = target;
    std::string host = "127.0.0.1";
    std::uint16_t port = 0;
    int lfd = -1;
    // UDP: a second session towards a remote address that already has one (an accepted peer,
    // an earlier via/connect target): same raw socket, same ip:port
    int sharedFd = -1;
    if (udp && sharePeer >= 0)
      for (std::size_t i = 0; i < sess.size(); ++i)
      {
        const Sess &o = sess[(static_cast<std::size_t>(sharePeer) + i) % sess.size()];
        if (o.rawFd >= 0 && (o.origin == 'A' || o.target == TListening))
        {
          sharedFd = o.rawFd;
          break;
        }
      }
    if (sharedFd >= 0)
    {
      target = s.target = TListening;
      port = c02raw::localPort(sharedFd);
      lfd = sharedFd;
      sharedPeers = true;
    }
    else
    if (udp && (target == TBlackHole || target == TTlsGarbage || target == TTlsStall)) target = s.target = TListening;
    if (via && (target == TTlsGarbage || target == TTlsStall || target == TTlsServerMode || target == TFdExhausted || target == TUnreachable))
      target = s.target = TListening;
    if (udp && target == TTlsServerMode)
    {
      // UDP refuses TLS synchronously: no id may be handed out (if one is, the usual oracle applies)
      auto r0 = sync ? t->connectSync("127.0.0.1", refusedPort, TlsMode::Client, std::chrono::milliseconds(1000))
                     : t->connect("127.0.0.1", refusedPort, TlsMode::Client);
      if (r0.isOk()) log.add(sync ? K::ReturnedSync : K::Returned, r0.value());
      else c.label("udp: TLS connect refused synchronously");
      return;
    }
    const bool tlsTarget = target == TTlsGarbage || target == TTlsStall;
    const bool tls = tlsTarget && plan.tlsCfg == 2;                                  // a handshake really starts
    const bool tlsRefused = (tlsTarget && plan.tlsCfg != 2) || target == TTlsServerMode; // must fail closed
    const TlsMode tlsMode = target == TTlsServerMode ? TlsMode::Server : tlsTarget ? TlsMode::Client : TlsMode::None;
    if (sharedFd >= 0)
    {
    }
    else if (target == TListening || tlsTarget || target == TTlsServerMode || target == TFdExhausted)
    {
      // (fail-closed TLS targets also get a live listener: a wrongly clear-text connect would succeed)
      lfd = udp ? bag.add(c02raw::udpBind(port)) : bag.add(c02raw::tcpListen(port, 8, peerRcvBuf));
      if (lfd < 0)
      {
        bail = true;
        return;
      }
    }
    else if (target == TRefused) port = refusedPort;
    else if (target == TUnresolvable)
    {
      host = badHost;
      port = 9;
    }
    else if (target == TUnreachable)
    {
      host = "255.255.255.255"; // ENETUNREACH straight from connect() (TCP); UDP: EACCES/none
      port = 9;
    }
    else
    {
      if (!holeOpen)
      {
        // once per process: prove that a backlog-0 listener with a full accept queue
        // really swallows connects on this kernel (otherwise the "connect-timeout" cause
        // would not be a cause at all)
        static const bool holeWorks = []
        {
          c02raw::BlackHole probe;
          return probe.open() && probe.swallows(120);
        }();
        holeOpen = holeWorks && hole.open();
        if (!holeOpen)
        {
          c.label("black hole unavailable");
          bail = true;
          return;
        }
      }
      port = hole.port;
    }
    ConnectResult r = ConnectResult::err(TransportErrorInfo{});
    // TLS targets: the raw side must act while connectSync blocks this thread
    std::thread tlsPeer;
    int tlsFd = -1;
    if (tls)
      tlsPeer = std::thread(
        [&tlsFd, lfd, target]
        {
          tlsFd = c02raw::tcpAccept(lfd, 10000);
          static const char garbage[] = "HTTP/1.1 400 this is not a TLS record\r\n\r\n";
          if (tlsFd >= 0 && target == TTlsGarbage) c02raw::sendAll(tlsFd, garbage, sizeof(garbage) - 1, 1000);
        });
    if (via)
    {
      ListenerId useLid = target == TRefused ? lid + 1000 : lid; // "refused" for via = unknown listener
      r = t->connectViaListener(useLid, host, port ? port : 9);
    }
    else if (sync)
    {
      // a connect that must fail closed gets a timeout beyond B: a definite error has to come from
      // the engine's terminal close, not from the caller's own timeout
      int tmo = target == TBlackHole ? 40 + plan.connectTimeoutMs / 2 : tlsRefused ? kBoundMs + 8000 : 10000;
      auto t0 = std::chrono::steady_clock::now();
      r = t->connectSync(host, port, tlsMode, std::chrono::milliseconds(tmo));
      auto ms = std::chrono::duration_cast<std::chrono::milliseconds>(std::chrono::steady_clock::now() - t0).count();
      if (tlsRefused && !r.isOk() && ms >= kBoundMs)
      {
        c.failTimed("C02/connectSync-parked/tls-not-configured",
                    "connectSync(..., TLS) on a transport without a usable client TLS configuration (tlsCfg=" + std::to_string(plan.tlsCfg) +
                      ", mode " + (tlsMode == TlsMode::Server ? "Server" : "Client") + ") did not get a definite error for " +
                      std::to_string(ms) + " ms: the attempt was not failed by a terminal close");
        bail = true;
      }
    }
    else
      r = t->connect(host, port, tlsMode);
    if (tlsPeer.joinable())
    {
      tlsPeer.join();
      bag.add(tlsFd);
    }
    if (!r.isOk())
    {
      c.label(std::string(sync ? "connectSync" : via ? "via" : "connect") + "-error/" + targetName(target));
      return; // no id was handed out
    }
    s.sid = r.value();
    s.sidKnown = true;
    log.add(sync ? K::ReturnedSync : K::Returned, s.sid);
    if (target == TListening)
    {
      if (!udp)
      {
        s.rawFd = bag.add(c02raw::tcpAccept(lfd, 10000));
        s.established = s.rawFd >= 0;
        if (s.rawFd < 0 && !closedAlready(s))
        {
          // the kernel never completed the connection: leave the session alone
          c.label("raw accept timed out");
        }
      }
      else
      {
        s.rawFd = lfd;
        s.established = true;
      }
    }
    else if (tlsRefused)
    {
      issueCause(s, Cause::TlsNotConfigured, true);
    }
    else if (tls)
    {
      s.rawFd = tlsFd;
      s.established = tlsFd >= 0; // FIN/RST during the handshake are fair game
      if (tlsFd >= 0) issueCause(s, target == TTlsGarbage ? Cause::TlsFailure : Cause::HandshakeTimeout, true);
    }
    else
    {
      // a connect that cannot succeed is itself a close cause
      std::uint64_t cause = target == TRefused ? (via ? Cause::BadListener : Cause::ConnRefused)
                          : target == TUnresolvable ? Cause::Unresolvable : target == TUnreachable ? Cause::Unreachable : Cause::ConnTimeout;
      bool definite = true;
      if (udp && target == TUnreachable) definite = false; // whether a UDP connect() to broadcast fails is the kernel's business
      if (udp && target == TRefused && !via) definite = false; // UDP connect succeeds; ICMP is optional
      if (udp && target == TRefused && !via) cause = Cause::IcmpRefused;
      if (cause != Cause::IcmpRefused) issueCause(s, cause, definite);
    }
    if (waitAnnounce && target == TListening)
    {
      SessionId sid = s.sid;
      log.waitFor(
        [&](const std::vector<c02log::Event> &v)
        {
          for (auto &e : v)
            if ((e.k == K::Connect || e.k == K::CloseBegin) && e.sid == sid) return true;
          return false;
        },
        sync && !udp ? 0 : kBoundMs);
    }
    if (udp && target == TListening && !via && s.established)
    {
      // learn the port of iora's connected socket: one datagram from iora to the peer
      if (t->send(s.sid, "p", 1))
      {
        char b[8];
        std::uint16_t from = 0;
        if (c02raw::udpRecvFrom(s.rawFd, b, sizeof(b), 2000, &from) >= 0) s.ioraPort = from;
      }
    }
    if (udp && via && target == TListening) s.ioraPort = ioraPort;
    sess.push_back(s);
  };

  auto pick = [&](int a) -> Sess *
  {
    if (sess.empty() && !bail) newAccept(); // an op that needs a session gets one
    return sess.empty() ? nullptr : &sess[static_cast<std::size_t>(a) % sess.size()];
  };

  auto appClose = [&](Sess &s)
  {
    if (!s.sidKnown) return;
    bool wasClosed = closedAlready(s);
    bool ok = t->close(s.sid);
    // definite only if the id had no close yet when the command was accepted
    issueCause(s, Cause::AppClose, ok && !stopped && !wasClosed ? true : s.definite);
  };
  auto peerFin = [&](Sess &s)
  {
    if (udp || s.rawFd < 0 || s.rawClosed || !s.established) return;
    c02raw::tcpFin(s.rawFd);
    issueCause(s, Cause::PeerFin, true);
  };
  auto peerRst = [&](Sess &s)
  {
    if (udp || s.rawFd < 0 || s.rawClosed || !s.established) return;
    int fd = s.rawFd;
    bag.forget(fd);
    c02raw::tcpRst(fd);
    s.rawClosed = true;
    issueCause(s, Cause::PeerRst, true);
  };
  std::vector<char> big(128 * 1024, 'x');
  auto backpressure = [&](Sess &s)
  {
    if (udp || !smallQueue || !s.sidKnown || !s.established || s.rawClosed) return;
    // the peer never reads; kernel buffers are pinned to a few KiB on both sides, so
    // 1.5 MiB cannot be absorbed: the write queue must exceed maxWriteQueue
    bool all = true;
    for (int i = 0; i < 12; ++i) all = t->send(s.sid, big.data(), big.size()) && all;
    issueCause(s, Cause::Backpressure, all && !stopped && !closedAlready(s) ? true : s.definite);
  };

  auto setMode = [&](Sess &s, int mode)
  {
    // open finding C02-2: re-arming Sync/Disabled on an id after its close. While it is listed,
    // the shape is excluded by construction (counted), so the search continues past it.
    if (mode != 0 && !plan.allowRearmAfterClose && pbt::isKnown("C02/data-after-close/flush-after-rearm") && log.hasClose(s.sid, 0))
    {
      c.label("excluded (known C02-2): re-arm of Sync/Disabled after the close");
      return;
    }
    ReadMode m = mode == 0 ? ReadMode::Async : mode == 1 ? ReadMode::Sync : ReadMode::Disabled;
    log.add(K::ModeBegin, s.sid, static_cast<std::uint64_t>(mode));
    bool r = t->setReadMode(s.sid, m); // a Sync->Async switch flushes through onData on THIS thread
    log.add(K::ModeEnd, s.sid, static_cast<std::uint64_t>(mode), r ? 1 : 0);
    usedModes = true;
  };
  auto recvSync = [&](Sess &s, std::size_t bufLen, int timeoutMs)
  {
    std::uint8_t buf[16];
    std::size_t len = std::min(bufLen, sizeof(buf));
    auto r = t->receiveSync(s.sid, buf, len, std::chrono::milliseconds(timeoutMs));
    // bytes handed out by receiveSync are not data EVENTS (drain-before-EOF may return them after the close)
    log.add(K::RecvEnd, s.sid, r.isOk() ? r.value() : 0, r.isOk() ? 0 : static_cast<std::uint64_t>(r.error().code));
    usedModes = true;
  };
  auto peerSendSmall = [&](Sess &s) -> bool
  {
    if (!udp && s.rawFd >= 0 && !s.rawClosed && s.established) return c02raw::sendAll(s.rawFd, "12345", 5, 200);
    if (udp && s.rawFd >= 0 && s.ioraPort) return c02raw::udpSendTo(s.rawFd, s.ioraPort, "12345", 5);
    return false;
  };

  auto doStop = [&]()
  {
    if (stopped) return;
    log.add(K::StopBegin, 0);
    t->stop();
    log.add(K::StopEnd, 0);
    stopped = true;
  };

  for (auto &op : plan.ops)
  {
    if (bail || c.failed() || stopped) break;
    ++opsDone;
    switch (op.op)
    {
    case NewAccept: newAccept(); break;
    case NewConnect: newConnect(op.a % kTargetMax, false, false, op.b % 2, udp && op.c % 4 == 3 ? op.c / 4 : -1); break;
    case NewSync: newConnect(op.a % kTargetMax, true, false, true); break;
    case NewVia:
      if (udp) newConnect(op.a % kTargetMax, false, true, op.b % 2, op.c % 2 == 1 ? op.c / 2 : -1);
      else newConnect(op.a % kTargetMax, false, false, op.b % 2);
      break;
    case AppClose:
      if (auto *s = pick(op.a)) appClose(*s);
      break;
    case PeerFin:
      if (auto *s = pick(op.a)) peerFin(*s);
      break;
    case PeerRst:
      if (auto *s = pick(op.a)) peerRst(*s);
      break;
    case Send:
      if (auto *s = pick(op.a))
        if (s->sidKnown)
        {
          std::size_t n = udp ? (op.b % 2 ? 1 : 700) : (op.b % 3 == 0 ? 1 : op.b % 3 == 1 ? 300 : 20000);
          t->send(s->sid, big.data(), n);
          if (udp && s->target == TRefused && s->origin != 'V') causeKinds.insert(Cause::IcmpRefused);
        }
      break;
    case PeerSend:
      if (auto *s = pick(op.a))
      {
        if (!udp && s->rawFd >= 0 && !s->rawClosed && s->established) c02raw::sendAll(s->rawFd, big.data(), op.b % 2 ? 5 : 3000, 200);
        if (udp && s->rawFd >= 0 && s->ioraPort) c02raw::udpSendTo(s->rawFd, s->ioraPort, big.data(), op.b % 2 ? 5 : 900);
      }
      break;
    case Backpressure:
      if (auto *s = pick(op.a)) backpressure(*s);
      break;
    case SetMode:
      if (auto *s = pick(op.a))
        if (s->sidKnown) setMode(*s, op.b % 3);
      break;
    case RecvSync:
      if (auto *s = pick(op.a))
        if (s->sidKnown) recvSync(*s, 1 + static_cast<std::size_t>(op.b % 7), op.c % 3 == 0 ? 15 : 0);
      break;
    case HandBack:
      if (auto *s = pick(op.a))
        if (s->sidKnown)
        {
          const bool openAtEntry = !log.hasClose(s->sid, 0);
          if (openAtEntry)
          {
            // user data with a cleanup: its invocation marks the end of the close dispatch
            std::uint64_t tag = nextTag++;
            payloads.push_back(Payload{tag, s->sid});
            log.add(K::DataBegin, s->sid, tag, 1);
            t->setSessionData(s->sid, &payloads.back(), cleanupFn);
            log.add(K::DataEnd, s->sid, tag);
          }
          setMode(*s, 1);
          bool sent = peerSendSmall(*s);
          recvSync(*s, 2, sent && openAtEntry ? 200 : 0); // 2 of 5 bytes: proves the chunk is buffered and leaves a rest
          switch (op.b % 4)
          {
          case 0: appClose(*s); break;
          case 1: peerFin(*s); if (udp) appClose(*s); break;
          case 2: peerRst(*s); if (udp) appClose(*s); break;
          default: break; // no close: plain hand-back of an open session
          }
          if (op.b % 4 != 3 && openAtEntry && log.hasClose(s->sid, 300))
          {
            // wait (not judged here) until the close dispatch is provably complete: the user-data
            // cleanup is its last step, after the handler dropped the session's read mode
            SessionId sid = s->sid;
            log.waitFor(
              [&](const std::vector<c02log::Event> &v)
              {
                for (auto &e : v)
                  if (e.k == K::Cleanup && e.sid == sid) return true;
                return false;
              },
              1000);
          }
          setMode(*s, 0);
        }
      break;
    case Observe:
      if (auto *s = pick(op.a))
        if (s->sidKnown)
        {
          std::uint64_t tag = nextTag++;
          SessionId sid = s->sid;
          log.add(K::ObsBegin, sid, tag);
          ObserverId h = t->observe(sid, [&log, tag, gauge](SessionId x, const TransportErrorInfo &) { log.addCb(K::Observer, x, tag, gauge()); });
          log.add(K::ObsEnd, sid, tag);
          {
            std::lock_guard<std::mutex> lk(obsMu);
            observers.push_back(ObsRec{tag, h, sid, false});
          }
        }
      break;
    case Unobserve:
    {
      ObsRec o{0, 0, 0, true};
      {
        std::lock_guard<std::mutex> lk(obsMu);
        if (!observers.empty())
        {
          auto &ref = observers[static_cast<std::size_t>(op.a) % observers.size()];
          o = ref;
          o.unobserveTried = false;
          ref.unobserveTried = true; // the checker judges the FIRST unobserve of an observer only
        }
      }
      if (!o.unobserveTried)
      {
        log.add(K::UnobsBegin, 0, o.tag);
        bool r = t->unobserve(o.h);
        log.add(K::UnobsEnd, 0, o.tag, r ? 1 : 0);
      }
    }
      break;
    case SetData:
      if (auto *s = pick(op.a))
        if (s->sidKnown)
        {
          std::uint64_t tag = nextTag++;
          payloads.push_back(Payload{tag, s->sid});
          int variant = op.b % 4; // 0,1 data+cleanup; 2 data only; 3 nullptr+cleanup (clears)
          log.add(K::DataBegin, s->sid, tag, variant <= 1 ? 1 : 0);
          if (variant <= 1) t->setSessionData(s->sid, &payloads.back(), cleanupFn);
          else if (variant == 2) t->setSessionData(s->sid, &payloads.back(), nullptr);
          else t->setSessionData(s->sid, nullptr, cleanupFn);
          log.add(K::DataEnd, s->sid, tag);
        }
      break;
    case Race:
      if (auto *s = pick(op.b))
      {
        // two close causes for one session, issued back-to-back (same millisecond)
        bool before = s->causeIssued;
        switch (op.a % 8)
        {
        case 0: appClose(*s); peerRst(*s); break;
        case 1: peerRst(*s); appClose(*s); break;
        case 2: appClose(*s); appClose(*s); break;
        case 3: peerFin(*s); appClose(*s); break;
        case 4: appClose(*s); peerFin(*s); break;
        case 5: peerFin(*s); peerRst(*s); break;
        case 6: // cause + stop
          if (op.c % 2) peerRst(*s); else appClose(*s);
          issueCause(*s, Cause::Stop, false);
          doStop();
          break;
        case 7: // connect timeout (or whatever is pending) racing an app close at ~connectTimeout
          if (s->target == TBlackHole && !closedAlready(*s))
            std::this_thread::sleep_for(std::chrono::milliseconds(plan.connectTimeoutMs) - std::chrono::microseconds(300 * (op.c % 4)));
          appClose(*s);
          if (s->rawFd >= 0) peerRst(*s);
          break;
        }
        if (!before && s->sidKnown) racedOne = true;
      }
      break;
    case Quiesce:
      if (!quiesce()) bail = true;
      break;
    case Sleep:
      if (op.a % 20 >= 17)
      {
        // listener-side equivalent: a TLS listener on a transport without server TLS (and a listener
        // with TlsMode::Client, which is never valid) must be refused, never come up in clear text
        auto lr3 = t->addListener("127.0.0.1", 0, op.a % 2 ? TlsMode::Server : TlsMode::Client);
        if (lr3.isOk())
        {
          c.fail("C02/tls-listener-without-tls-accepted", "addListener(..., TLS) returned ok on a transport without server TLS");
          bail = true;
        }
        else
          c.label("TLS listener refused");
        break;
      }
      std::this_thread::sleep_for(std::chrono::milliseconds(op.a % 20));
      break;
    case GcWait:
      if (plan.gcCase)
      {
        // idleTimeout = gcInterval = 1 s: after 2.3 s of silence every session that
        // exists now must have been collected (checked with the generous bound)
        for (auto &s : sess)
          if (s.sidKnown && !closedAlready(s)) issueCause(s, Cause::IdleGc, true);
        std::this_thread::sleep_for(std::chrono::milliseconds(2300));
        if (!quiesce()) bail = true;
      }
      break;
    case StopNow: doStop(); break;
    }
  }
  if (c.failed())
  {
    // bounded-wait failure: a thread may be stuck inside iora; still try an orderly end
    doStop();
    return;
  }
  bool openAtStop = false;
  if (!stopped)
  {
    if (plan.waitBeforeStop && !bail)
    {
      if (!quiesce())
      {
        doStop();
        return;
      }
    }
    for (auto &s : sess)
      if (s.sidKnown && !closedAlready(s))
      {
        openAtStop = true;
        causeKinds.insert(Cause::Stop);
      }
    doStop();
  }
  else
    causeKinds.insert(Cause::Stop);

  // ---- optional second run of the same transport: identifiers must stay distinct, the new
  // sessions must be announced, carry data and get their one close like any other -----------
  if (plan.restart && !bail && !c.failed())
  {
    stopped = false;
    if (!t->start().isOk())
    {
      c.fail("C02/restart-failed", "start() after an orderly stop() failed");
      return;
    }
    // UDP: the raw sockets of the accepted peers of the first run (same remote ip:port). Their
    // sessions were closed by the peer-independent causes above or were still open at stop().
    std::vector<int> oldPeers;
    if (udp)
      for (auto &s : sess)
        if (s.origin == 'A' && s.rawFd >= 0 && oldPeers.size() < 3) oldPeers.push_back(s.rawFd);
    const std::size_t restartIdx = log.snapshot().size();
    auto lr2 = t->addListener("127.0.0.1", 0, TlsMode::None);
    std::uint16_t p2 = lr2.isOk() ? t->getListenerAddress(lr2.value()).port : 0;
    if (p2 != 0)
    {
      lid = lr2.value();
      ioraPort = p2;
      // the same peers talk to the restarted engine: each must be announced as a FRESH session
      // (new id) and its datagram delivered there - never on an id of the first run
      for (int fd : oldPeers)
      {
        std::uint16_t port = c02raw::localPort(fd);
        if (!c02raw::udpSendTo(fd, ioraPort, "same peer after restart", 23)) continue;
        std::uint64_t sid = 0;
        bool ok = log.waitFor(
          [&](const std::vector<c02log::Event> &v)
          {
            for (std::size_t i = restartIdx; i < v.size(); ++i)
              if (v[i].k == K::Accept && v[i].a == port)
              {
                sid = v[i].sid;
                return true;
              }
            return false;
          },
          kBoundMs);
        if (!ok)
        {
          c.inconclusive("peer of the first run was not announced again after the restart");
          bail = true;
          break;
        }
        c.label("same udp peer re-announced after restart");
        if (sess.size() < 8)
        {
          Sess ns;
          ns.origin = 'A';
          ns.rawFd = fd;
          ns.sid = sid;
          ns.sidKnown = true;
          ns.established = true;
          ns.ioraPort = ioraPort;
          sess.push_back(ns);
        }
      }
      if (sess.size() >= 7) sess.erase(sess.begin(), sess.begin() + 2); // room for two more (all closed by the stop)
      const std::size_t before = sess.size();
      newAccept();
      if (!bail) newConnect(TListening, false, false, true);
      for (std::size_t i = before; i < sess.size() && !bail; ++i)
      {
        Sess &s = sess[i];
        // one datagram / a few bytes from the peer: the restarted engine must still dispatch
        if (!udp && s.rawFd >= 0 && s.established) c02raw::sendAll(s.rawFd, "again", 5, 200);
        if (udp && s.rawFd >= 0 && s.ioraPort) c02raw::udpSendTo(s.rawFd, s.ioraPort, "again", 5);
        // and a peer FIN (TCP) must still be noticed while running
        if (!udp && i == before) peerFin(s);
      }
      if (!bail && !quiesce())
      {
        doStop();
        return;
      }
      c.label("restarted");
    }
    doStop();
  }

  c02log::CheckOpts o;
  o.stoppedOrderly = true;
  o.syncIdsAnnounced = udp;
  o.gaugeAfterStop = t->getStats().sessionsCurrent;
  o.haveGaugeAfterStop = true;
  bool failed = c02log::check(c, log, o);
  if (std::getenv("C02_DUMP")) std::fprintf(stderr, "C02 log: %s\n", c02log::render(log.snapshot(), 400).c_str());
  // destruction after an orderly stop must not produce further events
  std::size_t nBefore = log.snapshot().size();
  t.reset();
  if (!failed && log.snapshot().size() != nBefore)
    c.fail("C02/event-after-stop", "callbacks ran during destruction after stop() had returned\n  log: " + c02log::render(log.snapshot()));

  // ---- classification -------------------------------------------------------
  for (auto k : causeKinds) c.label(std::string("cause ") + c02log::causeName(k));
  c.label("sessions=" + std::to_string(sess.size()));
  if (openAtStop) c.label("stop with open sessions");
  if (racedOne) c.label("two causes raced on one session");
  if (usedModes) c.label("read modes used");
  if (unobservedInGlobal.load()) c.label("unobserve() inside the global close callback of the same close");
  if (sharedPeers) c.label("udp: second session to a peer address that already has one");
  if (bail) c.label("history cut short (harness)");
  {
    std::lock_guard<std::mutex> lk(log.mu);
    c.label("max announced-open = " + std::to_string(std::min<std::uint64_t>(log.maxOpen, 8)));
  }
  if (causeKinds.size() >= 2 || racedOne)
  {
    std::uint64_t d = udp ? 7 : 3;
    for (std::size_t i = 0; i < opsDone && i < plan.ops.size(); ++i)
    {
      auto &op = plan.ops[i];
      std::uint64_t x = static_cast<std::uint64_t>(op.op) * 64;
      if (op.op == NewConnect || op.op == NewSync || op.op == NewVia) x += static_cast<std::uint64_t>(op.a % kTargetMax);
      else if (op.op == Race) x += static_cast<std::uint64_t>(op.a % 8) + 8 * static_cast<std::uint64_t>(op.b % 8);
      else x += static_cast<std::uint64_t>(op.a % 8);
      d = pbt::hashMix(d, x);
    }
    for (auto k : causeKinds) d = pbt::hashMix(d, 1000 + k);
    d = pbt::hashMix(d, static_cast<std::uint64_t>(plan.reconnect * 4 + plan.reconnectTarget));
    c.nontrivial(d);
  }
}

LPlan genLifePlan(pbt::Src &src, bool udp)
{
  LPlan p;
  p.udp = udp;
  p.edge = src.coin(3, 4);
  p.hiRes = src.coin(3, 4);
  p.batching = src.coin(1, 5);
  p.gcCase = src.coin(1, 40);
  p.connectTimeoutMs = src.oneOf<int>({40, 120, 300});
  p.maxWriteQueue = udp ? 1024 : src.oneOf<int>({1, 2, 1024, 1024});
  p.reconnect = src.coin(1, 3) ? static_cast<int>(src.range(1, 3)) : 0;
  p.reconnectTarget = static_cast<int>(src.weighted({3, 2, 1}));
  p.waitBeforeStop = src.coin(1, 2);
  p.restart = src.coin(1, 6);
  p.unobserveInGlobal = src.coin(1, 4);
  p.tlsCfg = static_cast<int>(src.weighted({1, 1, 2}));
  auto rows = src.rows(22, 4, 0, 999);
  // weighted op table
  static const int wt[] = {NewAccept, NewAccept, NewAccept, NewAccept, NewConnect, NewConnect, NewConnect, NewConnect, NewSync,
                           NewSync, NewVia, AppClose, AppClose, AppClose, PeerFin, PeerFin, PeerRst, PeerRst, Send, Send,
                           PeerSend, PeerSend, Backpressure, SetMode, SetMode, SetMode, RecvSync, RecvSync, HandBack, HandBack,
                           Observe, Observe, Observe, Unobserve, SetData, SetData, Race,
                           Race, Race, Quiesce, Sleep, GcWait, StopNow};
  for (auto &r : rows)
  {
    LOp o;
    o.op = wt[static_cast<std::size_t>(r[0]) % (sizeof(wt) / sizeof(wt[0]))];
    o.a = static_cast<int>(r[1]);
    o.b = static_cast<int>(r[2]);
    o.c = static_cast<int>(r[3]);
    if (o.op == NewConnect || o.op == NewSync || o.op == NewVia)
    {
      // target weights: listening 5, refused 2, unresolvable 1, black hole 2, TLS garbage 1, TLS stall 1,
      // unreachable 1, TLS server mode 1, fd exhausted 1
      static const int tw[] = {0, 0, 0, 0, 0, 1, 1, 2, 3, 3, 4, 5, 6, 7, 8};
      o.a = tw[static_cast<std::size_t>(r[1]) % 15];
    }
    if (udp && o.op == NewSync && r[3] % 2 == 0) o.op = NewVia; // UDP: connectSync == connect; spend it on via
    if (o.op == GcWait && !p.gcCase) o.op = Sleep;
    if (o.op == StopNow && r[1] % 3 != 0) o.op = Quiesce; // stop mid-history: rare
    p.ops.push_back(o);
  }
  // a gc case ends with the wait, so the 2.3 s are spent once
  if (p.gcCase) p.ops.push_back(LOp{GcWait, 0, 0, 0});
  return p;
}

} // namespace

// ============================================================================
PBT_PROPERTY(fanout)
{
  FanPlan p = genFanPlan(src);
  runFanout(p, c);
}

PBT_PROPERTY(lifecycle_tcp)
{
  LPlan p = genLifePlan(src, false);
  runLifecycle(p, c);
}

PBT_PROPERTY(lifecycle_udp)
{
  LPlan p = genLifePlan(src, true);
  runLifecycle(p, c);
}

// ---- fixed cases ------------------------------------------------------------
// Fan-out: two observers (one unobserved), replaced user data, close.
PBT_REGRESSION(fanout_basic)
{
  FanPlan p;
  p.ops = {{0, 0, 0, 0}, {1, 0, 0, 0}, {1, 0, 4, 0}, {1, 0, 0, 0}, {3, 0, 0, 0}, {3, 0, 1, 0}, {2, 1, 0, 0}, {5, 0, 0, 0}, {4, 0, 0, 0},
           {0, 1, 1, 0}, {1, 1, 7, 0}, {3, 1, 0, 0}, {4, 1, 0, 0}};
  runFanout(p, c);
}

// re-entrant use of observe/unobserve/setSessionData INSIDE the global close callback of the same
// close: the observer list is read after the global callback, so an observer unobserved there must
// not fire (and unobserve returns true), one added there fires, replaced data is what gets cleaned
PBT_REGRESSION(fanout_reentrant_global)
{
  FanPlan p;
  p.ops = {{0, 0, 0, 0}, {1, 0, 0, 0}, {1, 0, 0, 0}, {1, 0, 0, 0}, {3, 0, 0, 0}, {7, 0, 0, 0}, {4, 0, 0, 0},  // unobserve 1st of 3 in global
           {0, 1, 0, 0}, {1, 1, 0, 0}, {7, 1, 2, 0}, {4, 1, 0, 0},                                            // observe a new one in global
           {0, 2, 0, 0}, {1, 2, 0, 0}, {3, 2, 0, 0}, {7, 2, 3, 0}, {4, 2, 0, 0},                              // replace user data in global
           {0, 3, 0, 0}, {1, 3, 0, 0}, {0, 4, 0, 0}, {1, 4, 0, 0}, {3, 3, 0, 0}, {7, 3, 1, 0}, {4, 3, 0, 0}, {4, 4, 0, 0}, // unobserve another session's
           {0, 5, 0, 0}, {1, 5, 0, 0}, {3, 5, 0, 0}, {7, 5, 4, 0}, {4, 5, 0, 0}};                             // clear user data in global
  runFanout(p, c);
}

// C02-1: a connect() issued from inside the close callback while stop() drains the
// sessions returns ok(sid); the command is dropped with the rest of the queue and the
// id never receives a close notification.
PBT_REGRESSION(reconnect_in_close_during_stop_tcp)
{
  LPlan p;
  p.udp = false;
  p.reconnect = 1;
  p.reconnectTarget = TListening;
  p.ops = {{NewAccept, 0, 0, 0}};
  runLifecycle(p, c);
}
PBT_REGRESSION(reconnect_in_close_during_stop_udp)
{
  LPlan p;
  p.udp = true;
  p.reconnect = 1;
  p.reconnectTarget = TListening;
  p.ops = {{NewAccept, 0, 0, 0}};
  runLifecycle(p, c);
}
// restart: ids stay distinct, the restarted engine announces, reads and closes (C05-1 shows up here as
// a use-after-free under ASan / a connection that is never read nor closed without it)
PBT_REGRESSION(restart_ids_and_service_tcp)
{
  LPlan p;
  p.udp = false;
  p.restart = true;
  p.ops = {{NewAccept, 0, 0, 0}, {NewConnect, TListening, 1, 0}, {PeerSend, 0, 0, 0}};
  runLifecycle(p, c);
}
PBT_REGRESSION(restart_ids_and_service_udp)
{
  LPlan p;
  p.udp = true;
  p.restart = true;
  p.ops = {{NewAccept, 0, 0, 0}, {NewConnect, TListening, 1, 0}, {PeerSend, 0, 0, 0}};
  runLifecycle(p, c);
}
// restart with the SAME udp peers: two accepted sessions still open at stop(), start(), new
// listener, the same raw sockets send again -> fresh announce, delivery, one close, new ids
PBT_REGRESSION(restart_same_peer_udp)
{
  LPlan p;
  p.udp = true;
  p.restart = true;
  p.ops = {{NewAccept, 0, 0, 0}, {NewAccept, 0, 0, 0}, {PeerSend, 0, 0, 0}, {PeerSend, 1, 0, 0}};
  runLifecycle(p, c);
}
// gauge with several sessions towards ONE peer address: accepted peer, then two via-connects and a
// connect to the same ip:port; all announced, all counted, zero after the stop
PBT_REGRESSION(gauge_second_session_same_peer_udp)
{
  LPlan p;
  p.udp = true;
  p.waitBeforeStop = true;
  p.ops = {{NewAccept, 0, 0, 0},          {NewVia, TListening, 1, 1}, {NewVia, TListening, 1, 1}, {NewConnect, TListening, 1, 3},
           {PeerSend, 0, 0, 0},           {AppClose, 1, 0, 0},        {Quiesce, 0, 0, 0},          {NewVia, TListening, 1, 1},
           {AppClose, 0, 0, 0},           {Quiesce, 0, 0, 0}};
  runLifecycle(p, c);
}
// hand-back switch after the close: Sync, peer data partly read, close, setReadMode(Async) -
// the rest must not come out of onData after onClose
PBT_REGRESSION(handback_after_close_tcp)
{
  LPlan p;
  p.udp = false;
  p.waitBeforeStop = true;
  p.ops = {{NewAccept, 0, 0, 0}, {SetMode, 0, 1, 0}, {PeerSend, 0, 1, 0}, {RecvSync, 0, 1, 0}, {RecvSync, 0, 1, 0}, {PeerFin, 0, 0, 0},
           {Quiesce, 0, 0, 0},   {SetMode, 0, 0, 0}, {NewAccept, 0, 0, 0}, {HandBack, 1, 0, 0}, {NewAccept, 0, 0, 0}, {HandBack, 2, 2, 0}};
  runLifecycle(p, c);
}
PBT_REGRESSION(handback_after_close_udp)
{
  LPlan p;
  p.udp = true;
  p.waitBeforeStop = true;
  p.ops = {{NewAccept, 0, 0, 0}, {HandBack, 0, 0, 0}, {NewConnect, TListening, 1, 0}, {HandBack, 1, 0, 0}};
  runLifecycle(p, c);
}
// C02-2: after the close the application re-arms Sync (or Disabled) on the dead id and switches
// back to Async: the bytes left in the tombstone buffer come out of onData after onClose
PBT_REGRESSION(rearm_after_close_tcp)
{
  LPlan p;
  p.udp = false;
  p.allowRearmAfterClose = true;
  p.ops = {{NewAccept, 0, 0, 0}, {HandBack, 0, 1, 0}, {SetMode, 0, 1, 0}, {SetMode, 0, 0, 0}};
  runLifecycle(p, c);
}
PBT_REGRESSION(rearm_after_close_udp)
{
  LPlan p;
  p.udp = true;
  p.allowRearmAfterClose = true;
  p.ops = {{NewAccept, 0, 0, 0}, {HandBack, 0, 0, 0}, {SetMode, 0, 2, 0}, {SetMode, 0, 0, 0}};
  runLifecycle(p, c);
}
// unobserve() of the closing session's observer from inside the global close callback
PBT_REGRESSION(unobserve_in_global_tcp)
{
  LPlan p;
  p.udp = false;
  p.unobserveInGlobal = true;
  p.waitBeforeStop = true;
  p.ops = {{NewAccept, 0, 0, 0}, {Observe, 0, 0, 0}, {Observe, 0, 0, 0}, {Observe, 0, 0, 0}, {SetData, 0, 0, 0}, {AppClose, 0, 0, 0}, {Quiesce, 0, 0, 0},
           {NewAccept, 0, 0, 0}, {Observe, 1, 0, 0}, {PeerFin, 1, 0, 0}, {Quiesce, 0, 0, 0}};
  runLifecycle(p, c);
}
PBT_REGRESSION(unobserve_in_global_udp)
{
  LPlan p;
  p.udp = true;
  p.unobserveInGlobal = true;
  p.ops = {{NewAccept, 0, 0, 0}, {Observe, 0, 0, 0}, {Observe, 0, 0, 0}, {AppClose, 0, 0, 0}, {Quiesce, 0, 0, 0}, {NewAccept, 0, 0, 0}, {Observe, 1, 0, 0}};
  runLifecycle(p, c);
}
// TLS requested without a usable client TLS configuration (disabled / enabled with defaultMode None),
// and TlsMode::Server on an outbound connect: every id returned by connect() gets its terminal close,
// connectSync gets a definite error at once; plus the synchronous-errno and no-descriptor paths
PBT_REGRESSION(tls_not_configured_tcp)
{
  for (int cfgKind = 0; cfgKind < 2 && !c.failed(); ++cfgKind)
  {
    LPlan p;
    p.udp = false;
    p.tlsCfg = cfgKind;
    p.waitBeforeStop = true;
    p.ops = {{NewConnect, TTlsGarbage, 0, 0}, {NewSync, TTlsStall, 0, 0}, {NewConnect, TTlsServerMode, 0, 0}, {NewSync, TTlsServerMode, 0, 0},
             {NewConnect, TUnreachable, 0, 0}, {NewConnect, TFdExhausted, 0, 0}, {Sleep, 19, 0, 0}, {Sleep, 18, 0, 0}, {Quiesce, 0, 0, 0}};
    runLifecycle(p, c);
  }
}
PBT_REGRESSION(connect_failure_paths_udp)
{
  LPlan p;
  p.udp = true;
  p.waitBeforeStop = true;
  p.ops = {{NewConnect, TTlsServerMode, 0, 0}, {NewSync, TTlsServerMode, 0, 0}, {NewConnect, TUnreachable, 0, 0}, {NewConnect, TFdExhausted, 0, 0},
           {NewConnect, TUnresolvable, 0, 0}, {Sleep, 19, 0, 0}, {Quiesce, 0, 0, 0}};
  runLifecycle(p, c);
}
// every close cause once, sequentially, TCP
PBT_REGRESSION(all_causes_tcp)
{
  LPlan p;
  p.udp = false;
  p.maxWriteQueue = 2;
  p.connectTimeoutMs = 60;
  p.waitBeforeStop = true;
  // sessions: #0 accepted, #1 connect(listening), #2 refused, #3 unresolvable, #4 black hole,
  //           #5 connectSync(listening), #6 TLS garbage, #7 TLS stall
  p.ops = {{NewAccept, 0, 0, 0},
           {NewConnect, TListening, 1, 0},
           {NewConnect, TRefused, 0, 0},
           {NewConnect, TUnresolvable, 0, 0},
           {NewConnect, TBlackHole, 0, 0},
           {NewSync, TListening, 0, 0},
           {NewConnect, TTlsGarbage, 0, 0},
           {NewConnect, TTlsStall, 0, 0},
           {Observe, 0, 0, 0},
           {Observe, 0, 0, 0},
           {SetData, 0, 0, 0},
           {Observe, 1, 0, 0},
           {Observe, 7, 0, 0},
           {Backpressure, 0, 0, 0},
           {PeerFin, 1, 0, 0},
           {PeerRst, 5, 0, 0},
           {AppClose, 7, 0, 0},
           {Quiesce, 0, 0, 0}};
  runLifecycle(p, c);
}
PBT_REGRESSION(all_causes_udp)
{
  LPlan p;
  p.udp = true;
  p.waitBeforeStop = true;
  p.ops = {{NewAccept, 0, 0, 0}, {NewConnect, TListening, 1, 0}, {NewConnect, TUnresolvable, 0, 0}, {NewVia, TListening, 1, 0},
           {NewVia, TRefused, 0, 0}, {NewSync, TListening, 0, 0}, {Observe, 0, 0, 0}, {SetData, 1, 0, 0}, {PeerSend, 0, 0, 0},
           {PeerSend, 1, 0, 0}, {AppClose, 0, 0, 0}, {Race, 2, 1, 0}, {Quiesce, 0, 0, 0}};
  runLifecycle(p, c);
}

PBT_MAIN()
