// C11 - persistent stores recover every acknowledged write after a crash.
//
//   kv_crash   : Phase 1  a generated history runs against a real KVStore under the FS
//                         tracer (c11_fstrace.cpp) with a fixed fake wall clock; the tracer
//                         yields the exact sequence of file-system effects with the
//                         operation that was in flight for each of them.
//                Phase 2  EVERY prefix of that sequence and, for every write, EVERY byte
//                         offset (exhaustive while the history has <= 4 KiB of written
//                         bytes; boundary +-8 B and a stride beyond) is materialised as a
//                         directory image.
//                Phase 3  a fresh KVStore opens the image (must not throw); every key is
//                         read and compared with the admissible set: reference state after
//                         the last operation that had returned, keys touched by the
//                         operation in flight free to be old or new.
//                Phase 4  continuation on the recovered store (traced again): a generated
//                         suffix of operations, then a clean close or a second crash (at a
//                         generated effect/byte position), reopen, compare again.
//   json_crash : the same for JsonFileStore with set/remove/flush histories: contents =
//                last completed flush or the flush in progress.
//
// Process-crash model: what reached write()/rename()/open(O_TRUNC) survives, bytes still
// in a stream buffer do not - exactly what tracing at the libc boundary records.
#include "c11_fstrace.hpp"
#include "c12_clock.hpp"
#include "c12_kvref.hpp"
#include "pbt.hpp"

#include <iora/core/logger.hpp>
#include <iora/storage/json_file_store.hpp>
#include <iora/storage/kvstore.hpp>

#include <algorithm>
#include <memory>
#include <thread>

using iora::storage::JsonFileStore;
using iora::storage::KVStore;
using iora::storage::KVStoreConfig;
using kvref::Bytes;

namespace
{

constexpr std::int64_t kT0 = 1700000000000LL; // fake wall clock at the start of a case (epoch ms)

// ------------------------------------------------------------------------------------
// reference state
//
// The reference is a *belief*: per key the set of states the key may legitimately be in
// (usually one). A state is "absent" or (value, optional absolute expiry in epoch ms).
// Alternatives arise from the operation in flight at a crash (old or new state), from
// persist/expireAt issued exactly at expiry == now (either outcome), and from reads whose
// truncated ttl() cannot tell two expiries apart. Visibility is evaluated at the moment of
// the read exactly as in the C12 reference: present iff expiry > now; at expiry == now both
// answers are accepted.
// ------------------------------------------------------------------------------------
struct KState
{
  Bytes value;
  std::optional<std::int64_t> expiry; // absolute epoch ms
  bool operator==(const KState &o) const { return value == o.value && expiry == o.expiry; }
};
using Alt = std::optional<KState>; // nullopt = absent
using Alts = std::vector<Alt>;
using Belief = std::map<std::string, Alts>; // missing key = {absent}

const Alts &altsOf(const Belief &b, const std::string &k)
{
  static const Alts absent{Alt{}};
  auto it = b.find(k);
  return (it == b.end() || it->second.empty()) ? absent : it->second;
}
void addAlt(Alts &v, const Alt &a)
{
  for (auto &x : v)
    if (x == a) return;
  v.push_back(a);
}
/// an alternative whose expiry lies strictly in the past can never be seen again: absent
Alt normalised(const Alt &a, std::int64_t now)
{
  if (a && a->expiry && *a->expiry < now) return Alt{};
  return a;
}
std::string showAlt(const Alt &a, std::int64_t now)
{
  if (!a) return "absent";
  std::string r = kvref::showVal(a->value);
  if (a->expiry)
  {
    std::int64_t d = *a->expiry - now;
    if (d < 0) r += "(expired)";
    else if (d == 0) r += "(expiring now: present or absent)";
    else r += "(ttl " + std::to_string(d / 1000) + "s)";
  }
  return r;
}

struct Universe
{
  std::vector<std::string> keys;
  std::vector<std::string> prefixes;
  Universe()
  {
    keys = {"a", "b", "ab", "k1", "k2", std::string("a\0b", 3), std::string("\xff\x00", 2),
            "key-" + kvref::pattern(36, 7), // 40 bytes
            "ab" + kvref::pattern(253, 1),  // 255 bytes
            std::string("\0", 1),           // 9: 1 byte, NUL
            std::string("\0", 1) + kvref::pattern(254, 2), // 10: 255 bytes binary, starts with NUL
            "k" + kvref::pattern(65534, 3)}; // 11: 65535 bytes = MAX_KEY_LENGTH (boundary of every length check)
    prefixes = {"a", "k", "ab", "", "b", std::string("a\0", 2), "zz", std::string("\0", 1)};
  }
  const std::string &key(std::int64_t r) const
  {
    // short keys are much more likely than the long ones
    // (boundary-length keys: 1/32 each - a 65535-byte key makes every record and image 64 KiB)
    static const int pick[] = {0, 1, 2, 3, 4, 5, 6, 0, 1, 2, 3, 4, 7, 0, 1, 8,
                               0, 1, 2, 3, 4, 5, 6, 0, 1, 2, 3, 4, 7, 9, 10, 11};
    return keys[static_cast<std::size_t>(pick[r % 32])];
  }
  const std::string &prefix(std::int64_t r) const { return prefixes[static_cast<std::size_t>(r) % prefixes.size()]; }
};
const Universe &U()
{
  static Universe u;
  return u;
}

Bytes makeVal(std::int64_t sel, const std::string &tag, bool allowBig = true)
{
  std::string s;
  switch (sel % 16)
  {
  case 0: s = ""; break;
  case 1: s = "x"; break;
  case 2: s = std::string("\0", 1); break;
  case 12: s = tag + kvref::pattern(300 - tag.size(), (unsigned)sel); break;
  case 13: s = tag + std::string("\0\xff\0", 3) + kvref::pattern(17, (unsigned)sel); break;
  case 14: s = tag + kvref::pattern(9000 - tag.size(), (unsigned)sel); break; // > filebuf: writev + write
  case 15: // 64 KiB, one value in 64 (cut in stride mode: beyond the exhaustive budget)
    if (allowBig && (sel / 16) % 4 == 0) s = tag + kvref::pattern(65536 - tag.size(), (unsigned)sel);
    else s = tag + "15";
    break;
  default: s = tag + std::to_string(sel % 16); break;
  }
  return Bytes(s.begin(), s.end());
}

// ------------------------------------------------------------------------------------
// operations
// ------------------------------------------------------------------------------------
enum Op { OpSet, OpSetTtl, OpBatch, OpRemove, OpRemovePrefix, OpClear, OpExpireAt, OpPersist, OpCompact, OpReopen, OpAdvance, OpCount };
const char *kOpName[] = {"set", "setTtl", "batch", "remove", "removePrefix", "clear", "expireAt", "persist", "compact", "reopen", "advance"};
const int kOpWeight[] = {20, 14, 8, 8, 5, 3, 10, 8, 8, 6, 10}; // sum 100
const std::int64_t kTtlSec[] = {5, 100, 3600, 1};
const std::int64_t kExpireOffSec[] = {-1, 5, 3600, 7, 1, 86400};
const std::int64_t kAdvanceMs[] = {1, 999, 1000, 3600000};
const std::int64_t kGapMs[] = {0, 1, 999, 1000, 3600000}; // wall-clock time between a crash and the reopen

Op decodeOp(std::int64_t r)
{
  int x = static_cast<int>(r % 100);
  for (int i = 0; i < OpCount; ++i)
  {
    if (x < kOpWeight[i]) return static_cast<Op>(i);
    x -= kOpWeight[i];
  }
  return OpSet;
}

struct Cfg
{
  std::uint32_t maxLog = 128;
  std::uint32_t cache = 1000;
  KVStoreConfig make() const
  {
    KVStoreConfig c;
    c.enableBackgroundCompaction = false; // inline compaction when the log exceeds maxLog
    c.maxLogSizeBytes = maxLog;
    c.maxCacheSize = cache;
    // Eviction wheel: 100 ms tick. Timers are armed with the remaining (fake) wall-clock time
    // as a REAL delay (>= 1 s for every TTL used here), so within a case only delay-0 timers
    // (expire-at in the past) can fire; their only file effect is a 'D' record for a key that
    // is already invisible, which changes no admissible state. A long tick would make the
    // trace perfectly deterministic but is not affordable: TimingWheel::stopTickThread()
    // notifies without holding the tick mutex, so a store that is closed right after it was
    // opened can miss the tick thread on its way into wait_for() and then blocks for one full
    // tick in its destructor (observed with a 60 s tick: the case sat in join() for a minute).
    c.ttlTickDuration = std::chrono::milliseconds(100);
    return c;
  }
  std::string str() const { return pbt::Fmt() << "maxLog=" << maxLog << " cache=" << cache; }
};

/// One decoded operation, applied to a store and to the reference.
struct Step
{
  Op op;
  pbt::Row r;
  std::string tag; // value tag, unique per step and session
};

struct Applied
{
  std::string desc;
  std::set<std::string> touched;
};

/// Applies `st` at wall-clock time `now` to `kv` (may be null => only the reference is
/// updated) and to the belief `m`. OpAdvance moves the harness clock (and `now`). Every value
/// ever written to a key is remembered in `ever` (to tell torn/foreign values from stale ones).
Applied applyStep(const Step &st, KVStore *kv, Belief &m, std::map<std::string, std::set<Bytes>> &ever, std::int64_t &now)
{
  Applied a;
  const pbt::Row &r = st.r;
  // normalise: alternatives that expired strictly before `now` are absent from here on
  for (auto &kvp : m)
  {
    Alts n;
    for (auto &x : kvp.second) addAlt(n, normalised(x, now));
    kvp.second = std::move(n);
  }
  // key choice: r[1] indexes the universe; with bit 4 of r[3] set it indexes the keys that may
  // currently exist (for persist/expireAt: preferably those carrying an expiry), so that
  // remove/expireAt/persist/overwrite hit something
  auto pickKey = [&]() -> const std::string &
  {
    if ((r[3] >> 4) & 1)
    {
      std::vector<const std::string *> live, withExp;
      for (const auto &k : U().keys)
        for (const auto &x : altsOf(m, k))
          if (x)
          {
            if (live.empty() || live.back() != &k) live.push_back(&k);
            if (x->expiry && (withExp.empty() || withExp.back() != &k)) withExp.push_back(&k);
          }
      const auto &pool = ((st.op == OpPersist || st.op == OpExpireAt) && !withExp.empty()) ? withExp : live;
      if (!pool.empty()) return *pool[static_cast<std::size_t>(r[1]) % pool.size()];
    }
    return U().key(r[1]);
  };
  auto setAll = [&](const std::string &k, const Alt &s) { m[k] = Alts{s}; };
  switch (st.op)
  {
  case OpSet:
  {
    const std::string &k = pickKey();
    Bytes v = makeVal(r[2], st.tag);
    a.desc = "set(" + kvref::showKey(k) + "," + kvref::showVal(v) + ")";
    a.touched = {k};
    ever[k].insert(v);
    setAll(k, KState{v, std::nullopt});
    if (kv) kv->set(k, v);
    break;
  }
  case OpSetTtl:
  {
    const std::string &k = pickKey();
    Bytes v = makeVal(r[2], st.tag);
    std::int64_t ttl = kTtlSec[r[3] % 4];
    a.desc = pbt::Fmt() << "setTtl(" << kvref::showKey(k) << "," << kvref::showVal(v) << "," << ttl << "s)";
    a.touched = {k};
    ever[k].insert(v);
    setAll(k, KState{v, now + ttl * 1000});
    if (kv) kv->set(k, v, std::chrono::seconds(ttl));
    break;
  }
  case OpBatch:
  {
    std::unordered_map<std::string, Bytes> b;
    std::size_t cnt = 2 + static_cast<std::size_t>(r[1] % 3);
    bool withTtl = (r[3] % 2) == 1;
    std::int64_t ttl = kTtlSec[(r[3] / 2) % 4];
    for (std::size_t j = 0; j < cnt; ++j)
    {
      const std::string &k = U().key(r[1] / 3 + static_cast<std::int64_t>(j) * 5);
      std::int64_t sel = r[2] + static_cast<std::int64_t>(j);
      if (sel % 16 == 14) sel = 3; // at most small values in batches
      b[k] = makeVal(sel, st.tag + "." + std::to_string(j) + ":", false);
    }
    a.desc = withTtl ? (pbt::Fmt() << "batchTtl(" << ttl << "s:").str() : std::string("batch(");
    for (auto &kvp : b)
    {
      a.desc += kvref::showKey(kvp.first) + "=" + kvref::showVal(kvp.second) + " ";
      a.touched.insert(kvp.first);
      ever[kvp.first].insert(kvp.second);
      setAll(kvp.first, KState{kvp.second, withTtl ? std::optional<std::int64_t>(now + ttl * 1000) : std::nullopt});
    }
    a.desc += ")";
    if (kv)
    {
      if (withTtl) kv->setBatch(b, std::chrono::seconds(ttl));
      else kv->setBatch(b);
    }
    break;
  }
  case OpRemove:
  {
    const std::string &k = pickKey();
    a.desc = "remove(" + kvref::showKey(k) + ")";
    a.touched = {k};
    setAll(k, Alt{});
    if (kv) kv->remove(k);
    break;
  }
  case OpRemovePrefix:
  {
    const std::string &p = U().prefix(r[1]);
    a.desc = "removePrefix(" + kvref::showKey(p) + ")";
    for (auto &kvp : m)
      if (kvp.first.size() >= p.size() && kvp.first.compare(0, p.size(), p) == 0)
      {
        a.touched.insert(kvp.first);
        kvp.second = Alts{Alt{}};
      }
    if (kv) kv->removeWithPrefix(p);
    break;
  }
  case OpClear:
    a.desc = "clear()";
    for (auto &kvp : m)
    {
      a.touched.insert(kvp.first);
      kvp.second = Alts{Alt{}};
    }
    if (kv) kv->clear();
    break;
  case OpExpireAt:
  case OpPersist:
  {
    const std::string &k = pickKey();
    std::int64_t off = kExpireOffSec[r[2] % 6];
    if (st.op == OpExpireAt) a.desc = pbt::Fmt() << "expireAt(" << kvref::showKey(k) << ",now" << (off >= 0 ? "+" : "") << off << "s)";
    else a.desc = "persist(" + kvref::showKey(k) + ")";
    a.touched = {k};
    Alts out;
    for (const auto &x : altsOf(m, k))
    {
      if (!x) { addAlt(out, x); continue; } // absent: silent no-op
      KState n = *x;
      if (st.op == OpExpireAt) n.expiry = now + off * 1000;
      else n.expiry.reset();
      // a key exactly at expiry == now may be treated as present (operation applies) or as
      // already gone (no-op): both outcomes are admissible
      if (x->expiry && *x->expiry == now) addAlt(out, x);
      addAlt(out, normalised(Alt{n}, now));
    }
    m[k] = out;
    if (kv)
    {
      if (st.op == OpExpireAt) kv->expireAt(k, std::chrono::system_clock::time_point(std::chrono::milliseconds(now + off * 1000)));
      else kv->persist(k);
    }
    break;
  }
  case OpCompact:
    a.desc = "compact()";
    if (kv) kv->compact();
    break;
  case OpAdvance:
  {
    std::int64_t d = kAdvanceMs[r[1] % 4];
    a.desc = pbt::Fmt() << "advance(" << d << "ms)";
    now += d;
    c12_clock_set(now);
    break;
  }
  default: a.desc = "?"; break;
  }
  return a;
}

// ------------------------------------------------------------------------------------
// reading a store and judging it
// ------------------------------------------------------------------------------------
struct Seen
{
  Bytes value;
  std::optional<std::int64_t> ttlSec; // ttl() of the key, truncated seconds
};
struct Observed
{
  std::map<std::string, Seen> state;
  std::vector<std::string> foreignKeys;
  std::string inconsistency; // read APIs disagree with each other
};

Observed readAll(KVStore &kv)
{
  Observed o;
  std::set<std::string> uni(U().keys.begin(), U().keys.end());
  auto ks = kv.keys();
  std::set<std::string> listed(ks.begin(), ks.end());
  for (auto &k : listed)
    if (!uni.count(k)) o.foreignKeys.push_back(k);
  for (const auto &k : U().keys)
  {
    auto v = kv.get(k);
    bool ex = kv.exists(k);
    auto t = kv.ttl(k);
    if (v.has_value() != ex || ex != (listed.count(k) != 0))
      o.inconsistency = "get/exists/keys disagree on " + kvref::showKey(k);
    if (v)
    {
      Seen s;
      s.value = *v;
      if (t) s.ttlSec = t->count();
      o.state[k] = std::move(s);
    }
  }
  return o;
}

std::string showSeen(const Seen *s)
{
  if (!s) return "absent";
  std::string r = kvref::showVal(s->value);
  if (s->ttlSec) r += "(ttl " + std::to_string(*s->ttlSec) + "s)";
  return r;
}

/// does a read at wall-clock time `now` that shows `got` agree with alternative `a`?
bool agrees(const Alt &a, const Seen *got, std::int64_t now)
{
  if (!a) return got == nullptr;
  if (!a->expiry) return got && got->value == a->value && !got->ttlSec;
  std::int64_t d = *a->expiry - now;
  if (d < 0) return got == nullptr;
  bool present = got && got->value == a->value && got->ttlSec && *got->ttlSec == d / 1000;
  if (d == 0) return got == nullptr || present;
  return present;
}

/// The admissible belief at a crash: state after the last operation that had returned; keys
/// touched by the operation in flight may also be in their state after that operation.
Belief admissible(const Belief &acked, const Belief *after, const std::set<std::string> *touched)
{
  Belief b = acked;
  if (after && touched)
    for (const auto &k : *touched)
    {
      Alts v = altsOf(acked, k);
      for (const auto &x : altsOf(*after, k)) addAlt(v, x);
      b[k] = std::move(v);
    }
  return b;
}

/// empty string if `o`, read at time `now`, is admissible; `posterior` (optional) receives the
/// belief narrowed to the alternatives that agree with the observation. Otherwise sets `kind`
/// (structural) and returns the text.
std::string judge(const Observed &o, const Belief &adm, std::int64_t now, const std::map<std::string, std::set<Bytes>> &ever,
                  std::string &kind, Belief *posterior = nullptr)
{
  if (!o.foreignKeys.empty())
  {
    kind = "foreign-key";
    return "keys() lists a key that was never written: " + kvref::showKey(o.foreignKeys[0]);
  }
  if (!o.inconsistency.empty())
  {
    kind = "read-paths-disagree";
    return o.inconsistency;
  }
  if (posterior) posterior->clear();
  for (const auto &k : U().keys)
  {
    auto git = o.state.find(k);
    const Seen *got = git == o.state.end() ? nullptr : &git->second;
    const Alts &alts = altsOf(adm, k);
    Alts keep;
    for (const auto &x : alts)
      if (agrees(x, got, now)) addAlt(keep, x);
    if (!keep.empty())
    {
      if (posterior) (*posterior)[k] = std::move(keep);
      continue;
    }
    std::string exp;
    bool anyPresent = false, sameValue = false;
    for (const auto &x : alts)
    {
      if (!exp.empty()) exp += " or ";
      exp += showAlt(x, now);
      Alt n = normalised(x, now);
      if (n) anyPresent = true;
      if (n && got && n->value == got->value) sameValue = true;
    }
    if (alts.size() > 1) exp += " (operation in flight / ambiguous instant)";
    if (got)
    {
      auto it = ever.find(k);
      bool known = it != ever.end() && it->second.count(got->value);
      if (!known) kind = "torn-or-foreign-value";
      else if (!anyPresent) kind = "resurrected-key";
      else if (sameValue) kind = "wrong-expiry";
      else kind = "stale-value";
    }
    else
      kind = "lost-acknowledged-write";
    return "key " + kvref::showKey(k) + " shows " + showSeen(got) + ", admissible: " + exp;
  }
  return {};
}

// ------------------------------------------------------------------------------------
// crash point enumeration
// ------------------------------------------------------------------------------------
struct OpInfo
{
  std::string desc;
  Belief after;
  std::set<std::string> touched;
  std::int64_t tAfter = kT0; // wall clock when the operation had returned
};

// marker encoding shared with the tracer: 2*i = operation i in flight, 2*i+1 = operation i
// has returned and nothing is in flight
int inFlight(int i) { return 2 * i; }
int returned(int i) { return 2 * i + 1; }

/// belief and wall-clock time of the crash instant described by `marker` in a session whose
/// operations are `ops`
Belief admissibleAt(const std::vector<OpInfo> &ops, int marker, std::int64_t tStart, std::int64_t &tCrash, int &opIdx, bool &inflight)
{
  opIdx = marker / 2;
  if (opIdx < 0) opIdx = 0;
  if (opIdx >= static_cast<int>(ops.size())) opIdx = static_cast<int>(ops.size()) - 1;
  inflight = marker >= 0 && (marker % 2) == 0;
  std::size_t i = static_cast<std::size_t>(opIdx);
  if (!inflight)
  {
    tCrash = ops[i].tAfter;
    return ops[i].after;
  }
  static const Belief empty;
  const Belief &acked = i == 0 ? (ops.empty() ? empty : ops[0].after) : ops[i - 1].after;
  tCrash = i == 0 ? tStart : ops[i - 1].tAfter;
  // operation 0 is the open itself: it touches nothing
  return admissible(acked, &ops[i].after, &ops[i].touched);
}

std::vector<std::size_t> cutsFor(const fstrace::Effect &e, std::size_t &budget)
{
  std::vector<std::size_t> cuts;
  std::size_t L = e.data.size();
  if (L <= 1) return cuts;
  if (L - 1 <= budget)
  {
    budget -= (L - 1);
    for (std::size_t b = 1; b < L; ++b) cuts.push_back(b);
    return cuts;
  }
  std::set<std::size_t> s;
  auto around = [&](std::size_t c)
  {
    for (std::size_t d = 0; d <= 8; ++d)
    {
      if (c + d >= 1 && c + d < L) s.insert(c + d);
      if (c >= d && c - d >= 1 && c - d < L) s.insert(c - d);
    }
  };
  around(0);
  around(L);
  for (auto sg : e.segs) around(sg);
  for (std::size_t j = 1; j < 8; ++j) s.insert(std::max<std::size_t>(1, L * j / 8));
  cuts.assign(s.begin(), s.end());
  return cuts;
}

const std::string &dirA()
{
  static std::string d = kvref::scratchBase("c11a");
  return d;
}
const std::string &dirB()
{
  static std::string d = kvref::scratchBase("c11b");
  return d;
}

bool selfCheckTrace(pbt::Case &c, const fstrace::Result &res, const std::string &dir, const char *phase)
{
  if (!res.unsupported.empty())
  {
    c.fail("harness/fstrace-unsupported-call", std::string(phase) + ": " + res.unsupported[0]);
    return false;
  }
  auto real = fstrace::readDir(dir);
  auto sim = res.finalImage.files();
  if (real != sim)
  {
    std::string what = std::string(phase) + ": simulated directory image differs from the real directory (a file modification bypassed the tracer):";
    for (auto &f : real)
      if (!sim.count(f.first)) what += " real-only " + f.first;
      else if (sim[f.first] != f.second) what += " content " + f.first + " real " + std::to_string(f.second.size()) + "B sim " + std::to_string(sim[f.first].size()) + "B";
    for (auto &f : sim)
      if (!real.count(f.first)) what += " sim-only " + f.first;
    c.fail("harness/fstrace-incomplete", what);
    return false;
  }
  return true;
}

struct Plan
{
  Cfg cfg;
  std::vector<Step> steps;     // first session
  std::vector<Step> suffix;    // continuation
  int contMode = 0;            // 0 clean close, 1 crash after the suffix, 2 crash inside the continuation
  std::int64_t cutSel = 0;     // selects the second crash position (mode 2)
  std::int64_t gap1 = 0;       // wall-clock ms between the first crash and the reopen
  std::int64_t gap2 = 0;       // wall-clock ms between the end of the continuation and the last reopen
};

std::string renderPlan(const Plan &p, const std::vector<OpInfo> &ops, const std::vector<std::string> &suffixDescs)
{
  std::string s = p.cfg.str() + " | ";
  for (std::size_t i = 1; i < ops.size(); ++i) s += std::to_string(i) + ":" + ops[i].desc + "; ";
  s += pbt::Fmt() << "| reopen " << p.gap1 << "ms after the crash | continuation("
                  << (p.contMode == 0 ? "clean close" : p.contMode == 1 ? "crash after suffix" : "crash inside") << ", last reopen " << p.gap2
                  << "ms later): ";
  if (suffixDescs.empty())
    for (auto &st : p.suffix) s += std::string(kOpName[st.op]) + "(..); ";
  for (auto &d : suffixDescs) s += d + "; ";
  return s;
}

void runKvPlan(pbt::Case &c, const Plan &plan)
{
  static bool clockOk = c12clock::verifyInterposed();
  if (!clockOk)
  {
    c.fail("harness/clock-not-interposed", "system_clock::now() does not resolve to the harness clock");
    return;
  }
  iora::core::Logger::setLevel(iora::core::Logger::Level::Fatal);
  pbt::watchdog(300, "C11/store-call-did-not-return");
  std::int64_t now = kT0;
  c12_clock_set(now);

  // ---------------- Phase 1: traced history -------------------------------------------
  std::vector<OpInfo> ops; // ops[0] = initial open, then the steps, then the final clean close
  std::map<std::string, std::set<Bytes>> ever;
  Belief model;
  bool advanced = false;
  fstrace::materialise(dirA(), fstrace::Image{});
  fstrace::begin(dirA(), fstrace::Image{});
  std::unique_ptr<KVStore> kv;
  std::string err;
  try
  {
    fstrace::setOp(inFlight(0));
    kv = std::make_unique<KVStore>(dirA() + "/kv", plan.cfg.make());
    fstrace::setOp(returned(0));
    ops.push_back(OpInfo{"open", model, {}, now});
    for (const Step &st : plan.steps)
    {
      int i = static_cast<int>(ops.size());
      fstrace::setOp(inFlight(i));
      OpInfo info;
      if (st.op == OpReopen)
      {
        info.desc = "close+reopen";
        kv.reset();
        kv = std::make_unique<KVStore>(dirA() + "/kv", plan.cfg.make());
      }
      else
      {
        Applied a = applyStep(st, kv.get(), model, ever, now);
        info.desc = a.desc;
        info.touched = a.touched;
        if (st.op == OpAdvance) advanced = true;
      }
      fstrace::setOp(returned(i));
      info.after = model;
      info.tAfter = now;
      ops.push_back(std::move(info));
      c.label(std::string("op ") + kOpName[st.op]);
    }
    {
      int i = static_cast<int>(ops.size());
      fstrace::setOp(inFlight(i));
      kv.reset();
      fstrace::setOp(returned(i));
      ops.push_back(OpInfo{"clean close", model, {}, now});
    }
  }
  catch (const std::exception &e)
  {
    err = e.what();
  }
  kv.reset();
  fstrace::Result tr = fstrace::end();
  std::vector<std::string> suffixDescs;
  c.describe(renderPlan(plan, ops, suffixDescs));
  if (!err.empty())
  {
    c.fail("C11/operation-threw", "first session: operation " + std::to_string(ops.size()) + " threw: " + err);
    return;
  }
  if (!selfCheckTrace(c, tr, dirA(), "first session")) return;

  // ---------------- Phase 2-4: every crash point --------------------------------------
  const std::vector<fstrace::Effect> &E = tr.effects;
  std::size_t budget = 4096;
  bool sampled = false;
  std::uint64_t insideWrite = 0, renameGap = 0, tornAppend = 0, deadlinePassed = 0;
  bool failed = false;

  fstrace::Image img; // image before effect i
  for (std::size_t i = 0; i <= E.size() && !failed; ++i)
  {
    std::vector<std::size_t> cuts{0};
    if (i < E.size() && E[i].kind == fstrace::Effect::Write)
    {
      auto more = cutsFor(E[i], budget);
      if (E[i].data.size() > 1 && more.size() != E[i].data.size() - 1) sampled = true;
      cuts.insert(cuts.end(), more.begin(), more.end());
    }
    for (std::size_t b : cuts)
    {
      // --- which operations had returned at this instant, and what time it was
      int marker = i < E.size() ? E[i].op : returned(static_cast<int>(ops.size()) - 1);
      int opIdx = 0;
      bool inflight = false;
      std::int64_t tCrash = kT0;
      Belief adm = admissibleAt(ops, marker, kT0, tCrash, opIdx, inflight);
      const std::int64_t tReopen = tCrash + plan.gap1;
      fstrace::Image at = img;
      if (b > 0) fstrace::apply(at, E[i], b);
      const bool midWrite = b > 0;
      const bool tornLog = midWrite && E[i].name == "kv.log";
      const bool gap = b == 0 && i > 0 && i < E.size() && E[i - 1].kind == fstrace::Effect::Rename &&
                       E[i - 1].name2 == "kv";
      if (midWrite) { ++insideWrite; c.label("crash point: strictly inside a write"); }
      else c.label("crash point: at an effect boundary");
      if (gap) { ++renameGap; c.label("crash point: between snapshot rename and log reset"); }
      {
        // some key's deadline passed between the operation that set it and this reopen
        bool passed = false;
        for (auto &kvp : adm)
          for (auto &x : kvp.second)
            if (x && x->expiry && *x->expiry <= tReopen) passed = true;
        if (passed) { ++deadlinePassed; c.label("crash point: a key's expiry has passed at reopen time"); }
      }

      std::string where = pbt::Fmt() << "crash " << (midWrite ? "inside" : "before") << " effect " << i << "/" << E.size()
                                     << (i < E.size() ? std::string(" (") + E[i].api + " " + E[i].name + ")" : std::string(" (end)"))
                                     << (midWrite ? (pbt::Fmt() << " after " << b << " of " << E[i].data.size() << " bytes").str() : std::string())
                                     << ", operation " << opIdx << " [" << ops[static_cast<std::size_t>(opIdx)].desc << "] "
                                     << (inflight ? "in flight" : "returned") << " at t=+" << (tCrash - kT0) << "ms, reopen at t=+" << (tReopen - kT0) << "ms";

      // --- Phase 3: recovery
      now = tReopen;
      c12_clock_set(now);
      fstrace::materialise(dirB(), at);
      fstrace::begin(dirB(), at);
      std::unique_ptr<KVStore> rec;
      Observed obs;
      std::vector<OpInfo> cops; // continuation: cops[0] = recovery open
      Belief model2;
      std::string phase = "recovery";
      try
      {
        fstrace::setOp(inFlight(0));
        rec = std::make_unique<KVStore>(dirB() + "/kv", plan.cfg.make());
        fstrace::setOp(returned(0));
        c.label("reopen run");
        obs = readAll(*rec);
        std::string kind;
        std::string why = judge(obs, adm, now, ever, kind, &model2);
        if (!why.empty())
        {
          std::string sig = "C11/recovery/" + kind;
          if (gap) sig += "-between-rename-and-log-reset";
          c.fail(sig, where + ": after reopen " + why);
          failed = true;
        }
        // --- Phase 4: continuation
        if (!failed)
        {
          phase = "continuation";
          cops.push_back(OpInfo{"recovery open", model2, {}, now});
          auto ever2 = ever;
          std::vector<std::string> descs;
          for (const Step &st : plan.suffix)
          {
            int j = static_cast<int>(cops.size());
            fstrace::setOp(inFlight(j));
            Applied a = applyStep(st, rec.get(), model2, ever2, now);
            fstrace::setOp(returned(j));
            cops.push_back(OpInfo{a.desc, model2, a.touched, now});
            descs.push_back(a.desc);
          }
          suffixDescs = descs;
          // every operation acknowledged in this session is visible before the close
          {
            Observed o2 = readAll(*rec);
            std::string kind2, why2 = judge(o2, model2, now, ever2, kind2);
            if (!why2.empty())
            {
              c.fail("C11/continuation/live-" + kind2, where + "; continuation, before close: " + why2);
              failed = true;
            }
          }
          {
            int j = static_cast<int>(cops.size());
            fstrace::setOp(inFlight(j));
            rec.reset(); // clean close
            fstrace::setOp(returned(j));
            cops.push_back(OpInfo{"clean close", model2, {}, now});
          }
          fstrace::Result tr2 = fstrace::end();
          if (!failed && !selfCheckTrace(c, tr2, dirB(), "continuation")) failed = true;
          if (!failed)
          {
            // the directory, the belief and the time the last reopen sees
            fstrace::Image second = at;
            Belief adm3 = model2;
            std::int64_t tEnd = now;
            std::string how = "clean close";
            if (plan.contMode != 0)
            {
              // second crash: position among the continuation's effects
              const auto &E2 = tr2.effects;
              // effects issued by the clean close are not part of a crashed run
              std::size_t nRun = 0;
              int closeMarker = inFlight(static_cast<int>(cops.size()) - 1);
              while (nRun < E2.size() && E2[nRun].op < closeMarker) ++nRun;
              std::size_t stop = nRun, bytes = 0;
              if (plan.contMode == 2 && nRun > 0)
              {
                stop = static_cast<std::size_t>(plan.cutSel % static_cast<std::int64_t>(nRun + 1));
                if (stop < nRun && E2[stop].kind == fstrace::Effect::Write && E2[stop].data.size() > 1)
                  bytes = static_cast<std::size_t>((plan.cutSel / 7) % static_cast<std::int64_t>(E2[stop].data.size()));
              }
              for (std::size_t q = 0; q < stop; ++q) fstrace::apply(second, E2[q]);
              if (bytes > 0) fstrace::apply(second, E2[stop], bytes);
              int m2 = stop < nRun ? E2[stop].op : returned(static_cast<int>(cops.size()) - 2);
              int oi = 0;
              bool infl = false;
              adm3 = admissibleAt(cops, m2, tReopen, tEnd, oi, infl);
              how = pbt::Fmt() << "second crash " << (bytes ? "inside" : "before") << " continuation effect " << stop << "/" << nRun
                               << (bytes ? (pbt::Fmt() << " after " << bytes << " bytes").str() : std::string())
                               << ", continuation operation " << oi << " [" << cops[static_cast<std::size_t>(oi)].desc << "] " << (infl ? "in flight" : "returned");
              fstrace::materialise(dirB(), second);
              c.label(bytes ? "second crash: strictly inside a write" : "second crash: at an effect boundary");
            }
            bool appended = false;
            for (auto &e2 : tr2.effects)
              if (e2.kind == fstrace::Effect::Write && e2.name == "kv.log") appended = true;
            if (tornLog && appended)
            {
              ++tornAppend;
              c.label("continuation appended to the log after a torn tail");
            }
            phase = "second reopen";
            now = tEnd + plan.gap2;
            c12_clock_set(now);
            how += pbt::Fmt() << ", last reopen at t=+" << (now - kT0) << "ms";
            KVStore again(dirB() + "/kv", plan.cfg.make());
            c.label("reopen run");
            Observed o3 = readAll(again);
            std::string kind3, why3 = judge(o3, adm3, now, ever2, kind3);
            if (!why3.empty())
            {
              std::string sig = (tornLog && appended) ? "C11/continuation/after-torn-tail/" + kind3 : "C11/continuation/" + kind3;
              c.fail(sig, where + "; continuation then " + how + "; after the second reopen " + why3);
              failed = true;
            }
          }
        }
        else
        {
          rec.reset();
          fstrace::end();
        }
      }
      catch (const std::exception &e)
      {
        rec.reset();
        fstrace::end();
        std::string sig = phase == "recovery" ? "C11/recovery/reopen-threw" : "C11/" + phase + "/threw";
        if (tornLog) sig += "-after-torn-tail";
        c.fail(sig, where + ": " + phase + " threw: " + e.what());
        failed = true;
      }
      if (failed) break;
    }
    if (i < E.size()) fstrace::apply(img, E[i]);
  }

  c12_clock_disable();
  fstrace::materialise(dirA(), fstrace::Image{});
  fstrace::materialise(dirB(), fstrace::Image{});
  c.describe(renderPlan(plan, ops, suffixDescs));
  c.label("history");
  c.label(sampled ? "history: large writes cut at boundaries +-8 B and a stride" : "history: every byte offset of every write enumerated");
  if (advanced || plan.gap1 || plan.gap2) c.label("history: the wall clock moves (advance op or crash-to-reopen gap)");
  if (deadlinePassed) c.label("history: some reopen happened after a key's expiry had passed");
  std::uint64_t digest = pbt::hash64(plan.cfg.str());
  for (auto &st : plan.steps)
    for (auto x : st.r) digest = pbt::hashMix(digest, static_cast<std::uint64_t>(x));
  for (auto &st : plan.suffix)
    for (auto x : st.r) digest = pbt::hashMix(digest, static_cast<std::uint64_t>(x) + 77);
  digest = pbt::hashMix(digest, static_cast<std::uint64_t>(plan.contMode * 1000003 + plan.cutSel));
  digest = pbt::hashMix(digest, static_cast<std::uint64_t>(plan.gap1 * 31 + plan.gap2));
  if (insideWrite || renameGap || tornAppend) c.nontrivial(digest);
}

std::vector<Step> decodeSteps(const std::vector<pbt::Row> &rows, const char *session, bool allowReopen)
{
  std::vector<Step> v;
  for (std::size_t i = 0; i < rows.size(); ++i)
  {
    Step s;
    s.op = decodeOp(rows[i][0]);
    if (s.op == OpReopen && !allowReopen) s.op = OpSet;
    s.r = rows[i];
    s.tag = std::string(session) + std::to_string(i + 1) + ":";
    v.push_back(std::move(s));
  }
  return v;
}

} // namespace

PBT_PROPERTY(kv_crash)
{
  Plan p;
  p.cfg.maxLog = src.oneOf<std::uint32_t>({48, 128, 512, 1u << 20});
  p.cfg.cache = src.oneOf<std::uint32_t>({1000, 2});
  p.steps = decodeSteps(src.rows(12, 4, 0, (1 << 16) - 1), "v", true);
  p.suffix = decodeSteps(src.rows(3, 4, 0, (1 << 16) - 1), "c", false);
  bool writes = false;
  for (auto &s : p.suffix)
    if (s.op != OpAdvance && s.op != OpCompact) writes = true;
  if (!writes)
  {
    // a continuation always writes something: default = one plain set
    Step s;
    s.op = OpSet;
    s.r = pbt::Row{0, 3, 5, 0};
    s.tag = "c0:";
    p.suffix.push_back(s);
  }
  p.contMode = static_cast<int>(src.weighted({5, 2, 3}));
  p.cutSel = src.range(0, 1 << 20);
  p.gap1 = kGapMs[src.weighted({3, 1, 1, 2, 3})];
  p.gap2 = kGapMs[src.weighted({4, 1, 1, 2, 2})];
  runKvPlan(c, p);
}

// ======================================================================================
// JsonFileStore
// ======================================================================================
namespace
{
using JMap = std::map<std::string, std::string>;
const std::vector<std::string> &jkeys()
{
  static std::vector<std::string> k = {"a", "b", "ab", "key with space", "q\"uote", "k1", "k2", "u\xc3\xa9"};
  return k;
}
std::string jval(std::int64_t sel, const std::string &tag)
{
  switch (sel % 8)
  {
  case 0: return "";
  case 1: return "x";
  case 5: return tag + " \"quoted\" \\ back";
  case 6: return tag + std::string(300, 'y');
  case 7: return tag + std::string(9000, 'z'); // larger than the stream buffer
  default: return tag + std::to_string(sel % 8);
  }
}
std::string showJ(const JMap &m)
{
  std::string s = "{";
  for (auto &kv : m) s += kv.first + "=" + (kv.second.size() > 16 ? kv.second.substr(0, 10) + "..[" + std::to_string(kv.second.size()) + "B]" : kv.second) + ",";
  return s + "}";
}
JMap readJ(JsonFileStore &js)
{
  JMap m;
  for (auto &k : jkeys())
  {
    auto v = js.get(k);
    if (v) m[k] = *v;
  }
  return m;
}

struct JOp
{
  int kind; // 0 set 1 remove 2 flush
  std::string key, val;
};

void runJsonPlan(pbt::Case &c, const std::vector<JOp> &opsIn, const std::vector<JOp> &suffix)
{
  iora::core::Logger::setLevel(iora::core::Logger::Level::Fatal);
  // The background flusher must not run inside a case. JsonFileStore starts its (static)
  // flusher thread when the first store registers and joins it when the last one goes; the
  // stop path sets the exit flag and notifies WITHOUT the condition variable's mutex, so a
  // store destroyed a few microseconds after it was created can miss the thread on its way
  // into wait_for() and then stalls for a full flush interval. That liveness wart is not
  // part of C11: a keeper store (own directory, never dirty) keeps the flusher alive for the
  // whole case, so the thread is started and stopped once per case, long apart.
  JsonFileStore::setFlushInterval(std::chrono::minutes(30));
  pbt::watchdog(300, "C11/json-store-call-did-not-return");
  static const std::string keeperDir = kvref::scratchBase("c11k");
  auto keeper = std::make_unique<JsonFileStore>(keeperDir + "/keeper.json");
  struct KeeperGuard
  {
    std::unique_ptr<JsonFileStore> &k;
    ~KeeperGuard()
    {
      std::this_thread::sleep_for(std::chrono::milliseconds(2)); // flusher is parked in wait_for by now
      k.reset();
    }
  } keeperGuard{keeper};
  const std::string fileA = dirA() + "/store.json";
  const std::string fileB = dirB() + "/store.json";

  // marker i: 2*i in flight / 2*i+1 returned; flushes[i] = contents written by op i (if it flushes)
  struct JInfo { std::string desc; bool flushes; JMap content; };
  std::vector<JInfo> ops;
  JMap mem;
  bool dirty = false;
  fstrace::materialise(dirA(), fstrace::Image{});
  fstrace::begin(dirA(), fstrace::Image{});
  std::string desc;
  {
    fstrace::setOp(inFlight(0));
    auto js = std::make_unique<JsonFileStore>(fileA);
    fstrace::setOp(returned(0));
    ops.push_back(JInfo{"open", false, {}});
    for (auto &o : opsIn)
    {
      int i = static_cast<int>(ops.size());
      fstrace::setOp(inFlight(i));
      JInfo info{"", false, {}};
      if (o.kind == 0) { js->set(o.key, o.val); mem[o.key] = o.val; dirty = true; info.desc = "set(" + o.key + "," + (o.val.size() > 12 ? o.val.substr(0, 8) + "..[" + std::to_string(o.val.size()) + "B]" : o.val) + ")"; }
      else if (o.kind == 1) { js->remove(o.key); if (mem.erase(o.key)) dirty = true; info.desc = "remove(" + o.key + ")"; }
      else { js->flush(); info.desc = "flush"; info.flushes = dirty; info.content = mem; dirty = false; }
      fstrace::setOp(returned(i));
      c.label(o.kind == 0 ? "json op set" : o.kind == 1 ? "json op remove" : "json op flush");
      desc += std::to_string(i) + ":" + info.desc + "; ";
      ops.push_back(std::move(info));
    }
    int i = static_cast<int>(ops.size());
    fstrace::setOp(inFlight(i));
    js.reset(); // destructor flushes
    fstrace::setOp(returned(i));
    ops.push_back(JInfo{"close (flushes)", dirty, mem});
  }
  fstrace::Result tr = fstrace::end();
  c.describe("json: " + desc);
  if (!selfCheckTrace(c, tr, dirA(), "json first session")) return;

  const auto &E = tr.effects;
  std::size_t budget = 4096;
  bool sampled = false, failed = false;
  std::uint64_t insideWrite = 0;
  fstrace::Image img;
  for (std::size_t i = 0; i <= E.size() && !failed; ++i)
  {
    std::vector<std::size_t> cuts{0};
    if (i < E.size() && E[i].kind == fstrace::Effect::Write)
    {
      auto more = cutsFor(E[i], budget);
      if (E[i].data.size() > 1 && more.size() != E[i].data.size() - 1) sampled = true;
      cuts.insert(cuts.end(), more.begin(), more.end());
    }
    for (std::size_t b : cuts)
    {
      int marker = i < E.size() ? E[i].op : returned(static_cast<int>(ops.size()) - 1);
      int opIdx = marker / 2;
      bool inflight = (marker % 2) == 0;
      // last completed flush among the operations that had returned
      int lastAck = inflight ? opIdx - 1 : opIdx;
      const JMap *done = nullptr;
      for (int q = lastAck; q >= 0; --q)
        if (ops[static_cast<std::size_t>(q)].flushes) { done = &ops[static_cast<std::size_t>(q)].content; break; }
      const JMap *prog = (inflight && ops[static_cast<std::size_t>(opIdx)].flushes) ? &ops[static_cast<std::size_t>(opIdx)].content : nullptr;
      static const JMap emptyMap;
      fstrace::Image at = img;
      if (b > 0) fstrace::apply(at, E[i], b);
      if (b > 0) { ++insideWrite; c.label("crash point: strictly inside a write"); }
      else c.label("crash point: at an effect boundary");
      std::string where = pbt::Fmt() << "crash " << (b ? "inside" : "before") << " effect " << i << "/" << E.size()
                                     << (i < E.size() ? std::string(" (") + E[i].api + " " + E[i].name + ")" : std::string(" (end)"))
                                     << (b ? (pbt::Fmt() << " after " << b << " of " << E[i].data.size() << " bytes").str() : std::string())
                                     << ", operation " << opIdx << " [" << ops[static_cast<std::size_t>(opIdx)].desc << "] " << (inflight ? "in flight" : "returned");
      fstrace::materialise(dirB(), at);
      JMap got, expect2;
      {
        JsonFileStore js(fileB);
        c.label("reopen run");
        got = readJ(js);
        const JMap &d = done ? *done : emptyMap;
        if (!(got == d) && !(prog && got == *prog))
        {
          std::string sig = done ? (got.empty() ? "C11/json/empty-or-unreadable-after-completed-flush" : "C11/json/contents-not-a-flushed-state")
                                 : "C11/json/contents-not-a-flushed-state";
          c.fail(sig, where + ": reopened store shows " + showJ(got) + ", admissible: " + showJ(d) + (prog ? " or " + showJ(*prog) + " (flush in progress)" : ""));
          failed = true;
          break;
        }
        // continuation: more operations, flush (explicit or by the destructor), reopen
        expect2 = got;
        for (auto &o : suffix)
        {
          if (o.kind == 0) { js.set(o.key, o.val); expect2[o.key] = o.val; }
          else if (o.kind == 1) { js.remove(o.key); expect2.erase(o.key); }
          else js.flush();
        }
      }
      {
        JsonFileStore js(fileB);
        c.label("reopen run");
        JMap got2 = readJ(js);
        if (got2 != expect2)
        {
          c.fail("C11/json/continuation-lost", where + "; continuation then clean close: reopened store shows " + showJ(got2) + ", expected " + showJ(expect2));
          failed = true;
          break;
        }
      }
    }
    if (i < E.size()) fstrace::apply(img, E[i]);
  }
  fstrace::materialise(dirA(), fstrace::Image{});
  fstrace::materialise(dirB(), fstrace::Image{});
  c.label("json history");
  c.label(sampled ? "json history: large writes cut at boundaries +-8 B and a stride" : "json history: every byte offset of every write enumerated");
  if (insideWrite) c.nontrivial(pbt::hash64(desc));
}

std::vector<JOp> decodeJ(const std::vector<pbt::Row> &rows, const char *session)
{
  std::vector<JOp> v;
  for (std::size_t i = 0; i < rows.size(); ++i)
  {
    JOp o;
    int x = static_cast<int>(rows[i][0] % 10);
    o.kind = x < 5 ? 0 : x < 7 ? 1 : 2;
    o.key = jkeys()[static_cast<std::size_t>(rows[i][1]) % jkeys().size()];
    o.val = jval(rows[i][2], std::string(session) + std::to_string(i + 1) + ":");
    v.push_back(std::move(o));
  }
  return v;
}
} // namespace

PBT_PROPERTY(json_crash)
{
  auto ops = decodeJ(src.rows(10, 3, 0, 1023), "j");
  auto suffix = decodeJ(src.rows(3, 3, 0, 1023), "c");
  runJsonPlan(c, ops, suffix);
}

// ======================================================================================
// fixed cases
// ======================================================================================
namespace
{
pbt::Row krow(Op op, std::int64_t a = 0, std::int64_t b = 0, std::int64_t d = 0)
{
  int x = 0;
  for (int i = 0; i < op; ++i) x += kOpWeight[i];
  return pbt::Row{x, a, b, d};
}
} // namespace

// S13: crash inside a log record, reopen, append, clean close, reopen: the appended
// (acknowledged) records must be there
PBT_REGRESSION(kv_append_after_torn_tail)
{
  Plan p;
  p.cfg.maxLog = 1u << 20;
  p.steps = decodeSteps({krow(OpSet, 0, 3), krow(OpSet, 1, 4)}, "v", true);
  p.suffix = decodeSteps({krow(OpSet, 3, 5), krow(OpSet, 4, 6)}, "c", false);
  p.contMode = 0;
  runKvPlan(c, p);
}
// compaction in the history: crash between snapshot rename and log reset, TTL keys
PBT_REGRESSION(kv_compaction_window)
{
  Plan p;
  p.cfg.maxLog = 48;
  p.steps = decodeSteps({krow(OpSet, 0, 3), krow(OpSetTtl, 1, 4, 1), krow(OpRemove, 0), krow(OpSet, 2, 12),
                         krow(OpExpireAt, 2, 1), krow(OpPersist, 1), krow(OpCompact), krow(OpClear)}, "v", true);
  p.suffix = decodeSteps({krow(OpSet, 3, 5)}, "c", false);
  p.contMode = 1;
  runKvPlan(c, p);
}
// A TTL key lands in the snapshot (compact), then persist()/expireAt(later) RETURN, then the
// ORIGINAL deadline passes (advance 1 h) before the crash/close and reopen: the key must be
// there with its value (the 'X' record in the log overrides the snapshot entry's expiry)
PBT_REGRESSION(kv_persist_after_snapshot_then_deadline_passes)
{
  Plan p;
  p.cfg.maxLog = 1u << 20;
  p.steps = decodeSteps({krow(OpSetTtl, 0, 3, 0), krow(OpSetTtl, 1, 4, 0), krow(OpCompact), krow(OpPersist, 0),
                         krow(OpExpireAt, 1, 5), krow(OpAdvance, 3)}, "v", true);
  p.suffix = decodeSteps({krow(OpSet, 3, 5)}, "c", false);
  p.contMode = 0;
  runKvPlan(c, p);
}
// same, but the deadline passes between the crash and the reopen (no advance op)
PBT_REGRESSION(kv_deadline_passes_between_crash_and_reopen)
{
  Plan p;
  p.cfg.maxLog = 1u << 20;
  p.steps = decodeSteps({krow(OpSetTtl, 0, 3, 0), krow(OpSetTtl, 1, 4, 0), krow(OpSetTtl, 2, 6, 0), krow(OpCompact),
                         krow(OpPersist, 0), krow(OpExpireAt, 1, 5)}, "v", true);
  p.suffix = decodeSteps({krow(OpSet, 3, 5), krow(OpAdvance, 2)}, "c", false);
  p.contMode = 1;
  p.gap1 = 3600000;
  p.gap2 = 1000;
  runKvPlan(c, p);
}
// Boundary key length: a 65535-byte key (MAX_KEY_LENGTH, accepted by set()) must survive log
// replay - alone, as an overwrite of an older snapshot value, and its removal must stick
PBT_REGRESSION(kv_max_length_key_replay)
{
  Plan p;
  p.cfg.maxLog = 1u << 20;
  p.steps = decodeSteps({krow(OpSet, 31, 3), krow(OpReopen), krow(OpCompact), krow(OpSet, 31, 4), krow(OpSetTtl, 30, 5, 1),
                         krow(OpReopen), krow(OpRemove, 31), krow(OpReopen), krow(OpSet, 29, 0)}, "v", true);
  p.suffix = decodeSteps({krow(OpSet, 31, 6), krow(OpSet, 3, 5)}, "c", false);
  p.contMode = 0;
  runKvPlan(c, p);
}
// S14: a flush completed, the next flush is cut: the store must not come back empty
PBT_REGRESSION(json_crash_during_second_flush)
{
  runJsonPlan(c, {JOp{0, "a", "1"}, JOp{2, "", ""}, JOp{0, "b", "2"}, JOp{2, "", ""}}, {JOp{0, "k1", "c"}});
}

PBT_MAIN()
