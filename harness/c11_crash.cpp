// C11 - persistent stores recover every acknowledged write after a crash.
//
//   kv_crash   : Phase 1  a generated history runs against a real KVStore under the FS
//                         tracer (c11_fstrace.cpp) with a fixed fake wall clock; the tracer
//                         yields the exact sequence of file-system effects with the
//                         operation that was in flight for each of them.
//                Phase 2  EVERY prefix of that sequence and, for every write, EVERY byte
//                         offset (exhaustive while the history has <= 4 KiB of written
//                         bytes; boundary +-8 B and a stride beyond) is materialised as a
//                         directory image.
//                Phase 3  a fresh KVStore opens the image (must not throw); every key is
//                         read and compared with the admissible set: reference state after
//                         the last operation that had returned, keys touched by the
//                         operation in flight free to be old or new.
//                Phase 4  continuation on the recovered store (traced again): a generated
//                         suffix of operations, then a clean close or a second crash (at a
//                         generated effect/byte position), reopen, compare again.
//   json_crash : the same for JsonFileStore with set/remove/flush histories: contents =
//                last completed flush or the flush in progress.
//
// Process-crash model: what reached write()/rename()/open(O_TRUNC) survives, bytes still
// in a stream buffer do not - exactly what tracing at the libc boundary records.
#include "c11_fstrace.hpp"
#include "c12_clock.hpp"
#include "c12_kvref.hpp"
#include "pbt.hpp"

#include <iora/core/logger.hpp>
#include <iora/storage/json_file_store.hpp>
#include <iora/storage/kvstore.hpp>

#include <algorithm>
#include <memory>
#include <thread>

using iora::storage::JsonFileStore;
using iora::storage::KVStore;
using iora::storage::KVStoreConfig;
using kvref::Bytes;

namespace
{

constexpr std::int64_t kT0 = 1700000000000LL; // fixed fake wall clock (epoch ms)

// ------------------------------------------------------------------------------------
// reference state
// ------------------------------------------------------------------------------------
struct KState
{
  Bytes value;
  std::optional<std::int64_t> expiry; // absolute epoch ms, whole seconds after kT0
  bool operator==(const KState &o) const { return value == o.value && expiry == o.expiry; }
};
using KMap = std::map<std::string, KState>;

std::string showState(const KState *s)
{
  if (!s) return "absent";
  std::string r = kvref::showVal(s->value);
  if (s->expiry) r += "(ttl " + std::to_string((*s->expiry - kT0) / 1000) + "s)";
  return r;
}
const KState *lookup(const KMap &m, const std::string &k)
{
  auto it = m.find(k);
  return it == m.end() ? nullptr : &it->second;
}

struct Universe
{
  std::vector<std::string> keys;
  std::vector<std::string> prefixes;
  Universe()
  {
    keys = {"a", "b", "ab", "k1", "k2", std::string("a\0b", 3), std::string("\xff\x00", 2),
            "key-" + kvref::pattern(36, 7), // 40 bytes
            "ab" + kvref::pattern(253, 1)}; // 255 bytes
    prefixes = {"a", "k", "ab", "", "b", std::string("a\0", 2), "zz"};
  }
  const std::string &key(std::int64_t r) const
  {
    // short keys are much more likely than the long ones
    static const int pick[] = {0, 1, 2, 3, 4, 5, 6, 0, 1, 2, 3, 4, 7, 0, 1, 8};
    return keys[static_cast<std::size_t>(pick[r % 16])];
  }
  const std::string &prefix(std::int64_t r) const { return prefixes[static_cast<std::size_t>(r) % prefixes.size()]; }
};
const Universe &U()
{
  static Universe u;
  return u;
}

Bytes makeVal(std::int64_t sel, const std::string &tag)
{
  std::string s;
  switch (sel % 16)
  {
  case 0: s = ""; break;
  case 1: s = "x"; break;
  case 2: s = std::string("\0", 1); break;
  case 12: s = tag + kvref::pattern(300 - tag.size(), (unsigned)sel); break;
  case 13: s = tag + std::string("\0\xff\0", 3) + kvref::pattern(17, (unsigned)sel); break;
  case 14: s = tag + kvref::pattern(9000 - tag.size(), (unsigned)sel); break; // > filebuf: writev + write
  default: s = tag + std::to_string(sel % 16); break;
  }
  return Bytes(s.begin(), s.end());
}

// ------------------------------------------------------------------------------------
// operations
// ------------------------------------------------------------------------------------
enum Op { OpSet, OpSetTtl, OpBatch, OpRemove, OpRemovePrefix, OpClear, OpExpireAt, OpPersist, OpCompact, OpReopen, OpCount };
const char *kOpName[] = {"set", "setTtl", "batch", "remove", "removePrefix", "clear", "expireAt", "persist", "compact", "reopen"};
const int kOpWeight[] = {26, 14, 10, 10, 5, 3, 10, 6, 8, 8}; // sum 100
const std::int64_t kTtlSec[] = {5, 100, 3600};
const std::int64_t kExpireOffSec[] = {-1, 5, 3600, 7};

Op decodeOp(std::int64_t r)
{
  int x = static_cast<int>(r % 100);
  for (int i = 0; i < OpCount; ++i)
  {
    if (x < kOpWeight[i]) return static_cast<Op>(i);
    x -= kOpWeight[i];
  }
  return OpSet;
}

struct Cfg
{
  std::uint32_t maxLog = 128;
  std::uint32_t cache = 1000;
  KVStoreConfig make() const
  {
    KVStoreConfig c;
    c.enableBackgroundCompaction = false; // inline compaction when the log exceeds maxLog
    c.maxLogSizeBytes = maxLog;
    c.maxCacheSize = cache;
    // Eviction wheel: 100 ms tick. Its only possible effect in a case is a 'D' record for a
    // key that is already invisible (expire-at in the past; the wall clock is fixed), which
    // changes no admissible state. A long tick would make the trace perfectly deterministic
    // but is not affordable: TimingWheel::stopTickThread() notifies without holding the tick
    // mutex, so a store that is closed right after it was opened can miss the tick thread on
    // its way into wait_for() and then blocks for one full tick in its destructor (observed
    // with a 60 s tick: the case sat in join() for a minute). 100 ms bounds that stall.
    c.ttlTickDuration = std::chrono::milliseconds(100);
    return c;
  }
  std::string str() const { return pbt::Fmt() << "maxLog=" << maxLog << " cache=" << cache; }
};

/// One decoded operation, applied to a store and to the reference.
struct Step
{
  Op op;
  pbt::Row r;
  std::string tag; // value tag, unique per step and session
};

struct Applied
{
  std::string desc;
  std::set<std::string> touched;
};

/// Applies `st` to `kv` (may be null => only the reference is updated) and to `m`.
/// Every value ever written to a key is remembered in `ever` (to tell torn/foreign values
/// from stale ones).
Applied applyStep(const Step &st, KVStore *kv, KMap &m, std::map<std::string, std::set<Bytes>> &ever)
{
  Applied a;
  const pbt::Row &r = st.r;
  // key choice: r[1] indexes the universe; with bit 4 of r[3] set (and a non-empty reference)
  // it indexes the keys that currently exist, so remove/expireAt/persist/overwrite hit something
  auto pickKey = [&]() -> const std::string &
  {
    if (((r[3] >> 4) & 1) && !m.empty())
    {
      auto it = m.begin();
      std::advance(it, static_cast<long>(static_cast<std::size_t>(r[1]) % m.size()));
      for (const auto &k : U().keys)
        if (k == it->first) return k;
    }
    return U().key(r[1]);
  };
  switch (st.op)
  {
  case OpSet:
  {
    const std::string &k = pickKey();
    Bytes v = makeVal(r[2], st.tag);
    a.desc = "set(" + kvref::showKey(k) + "," + kvref::showVal(v) + ")";
    a.touched = {k};
    ever[k].insert(v);
    m[k] = KState{v, std::nullopt};
    if (kv) kv->set(k, v);
    break;
  }
  case OpSetTtl:
  {
    const std::string &k = pickKey();
    Bytes v = makeVal(r[2], st.tag);
    std::int64_t ttl = kTtlSec[r[3] % 3];
    a.desc = pbt::Fmt() << "setTtl(" << kvref::showKey(k) << "," << kvref::showVal(v) << "," << ttl << "s)";
    a.touched = {k};
    ever[k].insert(v);
    m[k] = KState{v, kT0 + ttl * 1000};
    if (kv) kv->set(k, v, std::chrono::seconds(ttl));
    break;
  }
  case OpBatch:
  {
    std::unordered_map<std::string, Bytes> b;
    std::size_t cnt = 2 + static_cast<std::size_t>(r[1] % 3);
    bool withTtl = (r[3] % 2) == 1;
    std::int64_t ttl = kTtlSec[(r[3] / 2) % 3];
    for (std::size_t j = 0; j < cnt; ++j)
    {
      const std::string &k = U().key(r[1] / 3 + static_cast<std::int64_t>(j) * 5);
      std::int64_t sel = r[2] + static_cast<std::int64_t>(j);
      if (sel % 16 == 14) sel = 3; // at most small values in batches
      b[k] = makeVal(sel, st.tag + "." + std::to_string(j) + ":");
    }
    a.desc = withTtl ? (pbt::Fmt() << "batchTtl(" << ttl << "s:").str() : std::string("batch(");
    for (auto &kvp : b)
    {
      a.desc += kvref::showKey(kvp.first) + "=" + kvref::showVal(kvp.second) + " ";
      a.touched.insert(kvp.first);
      ever[kvp.first].insert(kvp.second);
      m[kvp.first] = KState{kvp.second, withTtl ? std::optional<std::int64_t>(kT0 + ttl * 1000) : std::nullopt};
    }
    a.desc += ")";
    if (kv)
    {
      if (withTtl) kv->setBatch(b, std::chrono::seconds(ttl));
      else kv->setBatch(b);
    }
    break;
  }
  case OpRemove:
  {
    const std::string &k = pickKey();
    a.desc = "remove(" + kvref::showKey(k) + ")";
    a.touched = {k};
    m.erase(k);
    if (kv) kv->remove(k);
    break;
  }
  case OpRemovePrefix:
  {
    const std::string &p = U().prefix(r[1]);
    a.desc = "removePrefix(" + kvref::showKey(p) + ")";
    for (auto it = m.begin(); it != m.end();)
      if (it->first.size() >= p.size() && it->first.compare(0, p.size(), p) == 0)
      {
        a.touched.insert(it->first);
        it = m.erase(it);
      }
      else ++it;
    if (kv) kv->removeWithPrefix(p);
    break;
  }
  case OpClear:
    a.desc = "clear()";
    for (auto &kvp : m) a.touched.insert(kvp.first);
    m.clear();
    if (kv) kv->clear();
    break;
  case OpExpireAt:
  {
    const std::string &k = pickKey();
    std::int64_t off = kExpireOffSec[r[2] % 4];
    a.desc = pbt::Fmt() << "expireAt(" << kvref::showKey(k) << ",now" << (off >= 0 ? "+" : "") << off << "s)";
    a.touched = {k};
    auto it = m.find(k);
    if (it != m.end())
    {
      if (off <= 0) m.erase(it); // expiry in the past: gone from now on (the clock is fixed)
      else it->second.expiry = kT0 + off * 1000;
    }
    if (kv) kv->expireAt(k, std::chrono::system_clock::time_point(std::chrono::milliseconds(kT0 + off * 1000)));
    break;
  }
  case OpPersist:
  {
    const std::string &k = pickKey();
    a.desc = "persist(" + kvref::showKey(k) + ")";
    a.touched = {k};
    auto it = m.find(k);
    if (it != m.end()) it->second.expiry.reset();
    if (kv) kv->persist(k);
    break;
  }
  case OpCompact:
    a.desc = "compact()";
    if (kv) kv->compact();
    break;
  default: a.desc = "?"; break;
  }
  return a;
}

// ------------------------------------------------------------------------------------
// reading a store and judging it
// ------------------------------------------------------------------------------------
struct Observed
{
  KMap state;
  std::vector<std::string> foreignKeys;
  std::string inconsistency; // read APIs disagree with each other
};

Observed readAll(KVStore &kv)
{
  Observed o;
  std::set<std::string> uni(U().keys.begin(), U().keys.end());
  auto ks = kv.keys();
  std::set<std::string> listed(ks.begin(), ks.end());
  for (auto &k : listed)
    if (!uni.count(k)) o.foreignKeys.push_back(k);
  for (const auto &k : U().keys)
  {
    auto v = kv.get(k);
    bool ex = kv.exists(k);
    auto t = kv.ttl(k);
    if (v.has_value() != ex || ex != (listed.count(k) != 0))
      o.inconsistency = "get/exists/keys disagree on " + kvref::showKey(k);
    if (v)
    {
      KState s;
      s.value = *v;
      if (t) s.expiry = kT0 + t->count() * 1000;
      o.state[k] = std::move(s);
    }
  }
  return o;
}

struct Admissible
{
  const KMap *acked = nullptr;             // state after the last operation that had returned
  const KMap *after = nullptr;             // state after the operation in flight (may be null)
  const std::set<std::string> *touched = nullptr;
};

/// empty string if `o` is admissible; otherwise sets `kind` (structural) and returns the text
std::string judge(const Observed &o, const Admissible &ad, const std::map<std::string, std::set<Bytes>> &ever,
                  std::string &kind)
{
  if (!o.foreignKeys.empty())
  {
    kind = "foreign-key";
    return "keys() lists a key that was never written: " + kvref::showKey(o.foreignKeys[0]);
  }
  if (!o.inconsistency.empty())
  {
    kind = "read-paths-disagree";
    return o.inconsistency;
  }
  for (const auto &k : U().keys)
  {
    const KState *got = lookup(o.state, k);
    const KState *oldS = lookup(*ad.acked, k);
    const KState *newS = (ad.after && ad.touched && ad.touched->count(k)) ? lookup(*ad.after, k) : oldS;
    auto same = [](const KState *a, const KState *b) { return (!a && !b) || (a && b && *a == *b); };
    if (same(got, oldS) || same(got, newS)) continue;
    std::string exp = showState(oldS);
    if (!same(oldS, newS)) exp += " or " + showState(newS) + " (operation in flight)";
    if (got)
    {
      auto it = ever.find(k);
      bool known = it != ever.end() && it->second.count(got->value);
      if (!known) kind = "torn-or-foreign-value";
      else if (!oldS && !newS) kind = "resurrected-key";
      else if ((oldS && got->value == oldS->value) || (newS && got->value == newS->value)) kind = "wrong-expiry";
      else kind = "stale-value";
    }
    else
      kind = "lost-acknowledged-write";
    return "key " + kvref::showKey(k) + " shows " + showState(got) + ", admissible: " + exp;
  }
  return {};
}

// ------------------------------------------------------------------------------------
// crash point enumeration
// ------------------------------------------------------------------------------------
struct OpInfo
{
  std::string desc;
  KMap after;
  std::set<std::string> touched;
};

// marker encoding shared with the tracer: 2*i = operation i in flight, 2*i+1 = operation i
// has returned and nothing is in flight
int inFlight(int i) { return 2 * i; }
int returned(int i) { return 2 * i + 1; }

std::vector<std::size_t> cutsFor(const fstrace::Effect &e, std::size_t &budget)
{
  std::vector<std::size_t> cuts;
  std::size_t L = e.data.size();
  if (L <= 1) return cuts;
  if (L - 1 <= budget)
  {
    budget -= (L - 1);
    for (std::size_t b = 1; b < L; ++b) cuts.push_back(b);
    return cuts;
  }
  std::set<std::size_t> s;
  auto around = [&](std::size_t c)
  {
    for (std::size_t d = 0; d <= 8; ++d)
    {
      if (c + d >= 1 && c + d < L) s.insert(c + d);
      if (c >= d && c - d >= 1 && c - d < L) s.insert(c - d);
    }
  };
  around(0);
  around(L);
  for (auto sg : e.segs) around(sg);
  for (std::size_t j = 1; j < 8; ++j) s.insert(std::max<std::size_t>(1, L * j / 8));
  cuts.assign(s.begin(), s.end());
  return cuts;
}

const std::string &dirA()
{
  static std::string d = kvref::scratchBase("c11a");
  return d;
}
const std::string &dirB()
{
  static std::string d = kvref::scratchBase("c11b");
  return d;
}

bool selfCheckTrace(pbt::Case &c, const fstrace::Result &res, const std::string &dir, const char *phase)
{
  if (!res.unsupported.empty())
  {
    c.fail("harness/fstrace-unsupported-call", std::string(phase) + ": " + res.unsupported[0]);
    return false;
  }
  auto real = fstrace::readDir(dir);
  auto sim = res.finalImage.files();
  if (real != sim)
  {
    std::string what = std::string(phase) + ": simulated directory image differs from the real directory (a file modification bypassed the tracer):";
    for (auto &f : real)
      if (!sim.count(f.first)) what += " real-only " + f.first;
      else if (sim[f.first] != f.second) what += " content " + f.first + " real " + std::to_string(f.second.size()) + "B sim " + std::to_string(sim[f.first].size()) + "B";
    for (auto &f : sim)
      if (!real.count(f.first)) what += " sim-only " + f.first;
    c.fail("harness/fstrace-incomplete", what);
    return false;
  }
  return true;
}

struct Plan
{
  Cfg cfg;
  std::vector<Step> steps;     // first session
  std::vector<Step> suffix;    // continuation
  int contMode = 0;            // 0 clean close, 1 crash after the suffix, 2 crash inside the continuation
  std::int64_t cutSel = 0;     // selects the second crash position (mode 2)
};

std::string renderPlan(const Plan &p, const std::vector<OpInfo> &ops)
{
  std::string s = p.cfg.str() + " | ";
  for (std::size_t i = 1; i < ops.size(); ++i) s += std::to_string(i) + ":" + ops[i].desc + "; ";
  s += "| continuation(" + std::string(p.contMode == 0 ? "clean close" : p.contMode == 1 ? "crash after suffix" : "crash inside") + "): ";
  KMap tmp;
  std::map<std::string, std::set<Bytes>> ev;
  for (auto &st : p.suffix) s += applyStep(st, nullptr, tmp, ev).desc + "; ";
  return s;
}

void runKvPlan(pbt::Case &c, const Plan &plan)
{
  static bool clockOk = c12clock::verifyInterposed();
  if (!clockOk)
  {
    c.fail("harness/clock-not-interposed", "system_clock::now() does not resolve to the harness clock");
    return;
  }
  iora::core::Logger::setLevel(iora::core::Logger::Level::Fatal);
  pbt::watchdog(300, "C11/store-call-did-not-return");
  c12_clock_set(kT0);

  // ---------------- Phase 1: traced history -------------------------------------------
  std::vector<OpInfo> ops; // ops[0] = initial open, then the steps, then the final clean close
  std::map<std::string, std::set<Bytes>> ever;
  KMap model;
  fstrace::materialise(dirA(), fstrace::Image{});
  fstrace::begin(dirA(), fstrace::Image{});
  std::unique_ptr<KVStore> kv;
  std::string err;
  try
  {
    fstrace::setOp(inFlight(0));
    kv = std::make_unique<KVStore>(dirA() + "/kv", plan.cfg.make());
    fstrace::setOp(returned(0));
    ops.push_back(OpInfo{"open", model, {}});
    for (const Step &st : plan.steps)
    {
      int i = static_cast<int>(ops.size());
      fstrace::setOp(inFlight(i));
      OpInfo info;
      if (st.op == OpReopen)
      {
        info.desc = "close+reopen";
        kv.reset();
        kv = std::make_unique<KVStore>(dirA() + "/kv", plan.cfg.make());
      }
      else
      {
        Applied a = applyStep(st, kv.get(), model, ever);
        info.desc = a.desc;
        info.touched = a.touched;
      }
      fstrace::setOp(returned(i));
      info.after = model;
      ops.push_back(std::move(info));
      c.label(std::string("op ") + kOpName[st.op]);
    }
    {
      int i = static_cast<int>(ops.size());
      fstrace::setOp(inFlight(i));
      kv.reset();
      fstrace::setOp(returned(i));
      ops.push_back(OpInfo{"clean close", model, {}});
    }
  }
  catch (const std::exception &e)
  {
    err = e.what();
  }
  kv.reset();
  fstrace::Result tr = fstrace::end();
  c.describe(renderPlan(plan, ops));
  if (!err.empty())
  {
    c.fail("C11/operation-threw", "first session: operation " + std::to_string(ops.size()) + " threw: " + err);
    return;
  }
  if (!selfCheckTrace(c, tr, dirA(), "first session")) return;

  // ---------------- Phase 2-4: every crash point --------------------------------------
  const std::vector<fstrace::Effect> &E = tr.effects;
  std::size_t budget = 4096, totalBytes = 0;
  bool sampled = false;
  for (auto &e : E) totalBytes += e.data.size();
  std::uint64_t points = 0, insideWrite = 0, renameGap = 0, tornAppend = 0;
  bool failed = false;

  fstrace::Image img; // image before effect i
  for (std::size_t i = 0; i <= E.size() && !failed; ++i)
  {
    std::vector<std::size_t> cuts{0};
    if (i < E.size() && E[i].kind == fstrace::Effect::Write)
    {
      std::size_t before = budget;
      auto more = cutsFor(E[i], budget);
      if (E[i].data.size() > 1 && more.size() != E[i].data.size() - 1) sampled = true;
      (void)before;
      cuts.insert(cuts.end(), more.begin(), more.end());
    }
    for (std::size_t b : cuts)
    {
      // --- which operations had returned at this instant
      int marker = i < E.size() ? E[i].op : returned(static_cast<int>(ops.size()) - 1);
      int opIdx = marker / 2;
      bool inflight = (marker % 2) == 0;
      const KMap &acked = inflight ? (opIdx == 0 ? ops[0].after /*empty*/ : ops[static_cast<std::size_t>(opIdx) - 1].after)
                                   : ops[static_cast<std::size_t>(opIdx)].after;
      Admissible ad;
      ad.acked = &acked;
      if (inflight)
      {
        ad.after = &ops[static_cast<std::size_t>(opIdx)].after;
        ad.touched = &ops[static_cast<std::size_t>(opIdx)].touched;
      }
      fstrace::Image at = img;
      if (b > 0) fstrace::apply(at, E[i], b);
      const bool midWrite = b > 0;
      const bool tornLog = midWrite && E[i].name == "kv.log";
      const bool gap = b == 0 && i > 0 && i < E.size() && E[i - 1].kind == fstrace::Effect::Rename &&
                       E[i - 1].name2 == "kv";
      ++points;
      if (midWrite) { ++insideWrite; c.label("crash point: strictly inside a write"); }
      else c.label("crash point: at an effect boundary");
      if (gap) { ++renameGap; c.label("crash point: between snapshot rename and log reset"); }

      std::string where = pbt::Fmt() << "crash " << (midWrite ? "inside" : "before") << " effect " << i << "/" << E.size()
                                     << (i < E.size() ? std::string(" (") + E[i].api + " " + E[i].name + ")" : std::string(" (end)"))
                                     << (midWrite ? (pbt::Fmt() << " after " << b << " of " << E[i].data.size() << " bytes").str() : std::string())
                                     << ", operation " << opIdx << " [" << ops[static_cast<std::size_t>(opIdx)].desc << "] "
                                     << (inflight ? "in flight" : "returned");

      // --- Phase 3: recovery
      fstrace::materialise(dirB(), at);
      fstrace::begin(dirB(), at);
      std::unique_ptr<KVStore> rec;
      Observed obs;
      std::vector<OpInfo> cops; // continuation: cops[0] = recovery open
      KMap model2;
      std::string phase = "recovery";
      try
      {
        fstrace::setOp(inFlight(0));
        rec = std::make_unique<KVStore>(dirB() + "/kv", plan.cfg.make());
        fstrace::setOp(returned(0));
        c.label("reopen run");
        obs = readAll(*rec);
        std::string kind;
        std::string why = judge(obs, ad, ever, kind);
        if (!why.empty())
        {
          std::string sig = "C11/recovery/" + kind;
          if (gap) sig += "-between-rename-and-log-reset";
          c.fail(sig, where + ": after reopen " + why);
          failed = true;
        }
        // --- Phase 4: continuation
        if (!failed)
        {
          phase = "continuation";
          model2 = obs.state;
          cops.push_back(OpInfo{"recovery open", model2, {}});
          auto ever2 = ever;
          for (const Step &st : plan.suffix)
          {
            int j = static_cast<int>(cops.size());
            fstrace::setOp(inFlight(j));
            Applied a = applyStep(st, rec.get(), model2, ever2);
            fstrace::setOp(returned(j));
            cops.push_back(OpInfo{a.desc, model2, a.touched});
          }
          // every operation acknowledged in this session is visible before the close
          {
            Observed o2 = readAll(*rec);
            Admissible ad2;
            ad2.acked = &model2;
            std::string kind2, why2 = judge(o2, ad2, ever2, kind2);
            if (!why2.empty())
            {
              c.fail("C11/continuation/live-" + kind2, where + "; continuation, before close: " + why2);
              failed = true;
            }
          }
          {
            int j = static_cast<int>(cops.size());
            fstrace::setOp(inFlight(j));
            rec.reset(); // clean close
            fstrace::setOp(returned(j));
            cops.push_back(OpInfo{"clean close", model2, {}});
          }
          fstrace::Result tr2 = fstrace::end();
          if (!failed && !selfCheckTrace(c, tr2, dirB(), "continuation")) failed = true;
          if (!failed)
          {
            // the directory the second reopen sees
            fstrace::Image second = at;
            Admissible ad3;
            std::string how = "clean close";
            if (plan.contMode == 0)
            {
              ad3.acked = &model2; // nothing to do: the real directory already is the final image
            }
            else
            {
              // second crash: position among the continuation's effects
              const auto &E2 = tr2.effects;
              // effects issued by the clean close are not part of a crashed run
              std::size_t nRun = 0;
              int closeMarker = inFlight(static_cast<int>(cops.size()) - 1);
              while (nRun < E2.size() && E2[nRun].op < closeMarker) ++nRun;
              std::size_t stop = nRun, bytes = 0;
              if (plan.contMode == 2 && nRun > 0)
              {
                stop = static_cast<std::size_t>(plan.cutSel % static_cast<std::int64_t>(nRun + 1));
                if (stop < nRun && E2[stop].kind == fstrace::Effect::Write && E2[stop].data.size() > 1)
                  bytes = static_cast<std::size_t>((plan.cutSel / 7) % static_cast<std::int64_t>(E2[stop].data.size()));
              }
              for (std::size_t q = 0; q < stop; ++q) fstrace::apply(second, E2[q]);
              if (bytes > 0) fstrace::apply(second, E2[stop], bytes);
              int m2 = stop < nRun ? E2[stop].op : returned(static_cast<int>(cops.size()) - 2);
              int oi = m2 / 2;
              bool infl = (m2 % 2) == 0;
              ad3.acked = infl ? (oi == 0 ? &cops[0].after : &cops[static_cast<std::size_t>(oi) - 1].after) : &cops[static_cast<std::size_t>(oi)].after;
              if (infl)
              {
                ad3.after = &cops[static_cast<std::size_t>(oi)].after;
                ad3.touched = &cops[static_cast<std::size_t>(oi)].touched;
              }
              how = pbt::Fmt() << "second crash " << (bytes ? "inside" : "before") << " continuation effect " << stop << "/" << nRun
                               << (bytes ? (pbt::Fmt() << " after " << bytes << " bytes").str() : std::string())
                               << ", continuation operation " << oi << " [" << cops[static_cast<std::size_t>(oi)].desc << "] " << (infl ? "in flight" : "returned");
              fstrace::materialise(dirB(), second);
              c.label(bytes ? "second crash: strictly inside a write" : "second crash: at an effect boundary");
            }
            bool appended = false;
            for (auto &e2 : tr2.effects)
              if (e2.kind == fstrace::Effect::Write && e2.name == "kv.log") appended = true;
            if (tornLog && appended)
            {
              ++tornAppend;
              c.label("continuation appended to the log after a torn tail");
            }
            phase = "second reopen";
            KVStore again(dirB() + "/kv", plan.cfg.make());
            c.label("reopen run");
            Observed o3 = readAll(again);
            std::string kind3, why3 = judge(o3, ad3, ever2, kind3);
            if (!why3.empty())
            {
              std::string sig = (tornLog && appended) ? "C11/continuation/after-torn-tail/" + kind3 : "C11/continuation/" + kind3;
              c.fail(sig, where + "; continuation then " + how + "; after the second reopen " + why3);
              failed = true;
            }
          }
        }
        else
        {
          rec.reset();
          fstrace::end();
        }
      }
      catch (const std::exception &e)
      {
        rec.reset();
        fstrace::end();
        std::string sig = phase == "recovery" ? "C11/recovery/reopen-threw" : "C11/" + phase + "/threw";
        if (tornLog) sig += "-after-torn-tail";
        c.fail(sig, where + ": " + phase + " threw: " + e.what());
        failed = true;
      }
      if (failed) break;
    }
    if (i < E.size()) fstrace::apply(img, E[i]);
  }

  c12_clock_disable();
  fstrace::materialise(dirA(), fstrace::Image{});
  fstrace::materialise(dirB(), fstrace::Image{});
  c.label("history");
  c.label(sampled ? "history: large writes cut at boundaries +-8 B and a stride" : "history: every byte offset of every write enumerated");
  std::uint64_t digest = pbt::hash64(plan.cfg.str());
  for (auto &st : plan.steps)
    for (auto x : st.r) digest = pbt::hashMix(digest, static_cast<std::uint64_t>(x));
  for (auto &st : plan.suffix)
    for (auto x : st.r) digest = pbt::hashMix(digest, static_cast<std::uint64_t>(x) + 77);
  digest = pbt::hashMix(digest, static_cast<std::uint64_t>(plan.contMode * 1000003 + plan.cutSel));
  if (insideWrite || renameGap || tornAppend) c.nontrivial(digest);
  (void)totalBytes;
  (void)points;
}

std::vector<Step> decodeSteps(const std::vector<pbt::Row> &rows, const char *session, bool allowReopen)
{
  std::vector<Step> v;
  for (std::size_t i = 0; i < rows.size(); ++i)
  {
    Step s;
    s.op = decodeOp(rows[i][0]);
    if (s.op == OpReopen && !allowReopen) s.op = OpSet;
    s.r = rows[i];
    s.tag = std::string(session) + std::to_string(i + 1) + ":";
    v.push_back(std::move(s));
  }
  return v;
}

} // namespace

PBT_PROPERTY(kv_crash)
{
  Plan p;
  p.cfg.maxLog = src.oneOf<std::uint32_t>({48, 128, 512, 1u << 20});
  p.cfg.cache = src.oneOf<std::uint32_t>({1000, 2});
  p.steps = decodeSteps(src.rows(12, 4, 0, (1 << 16) - 1), "v", true);
  p.suffix = decodeSteps(src.rows(3, 4, 0, (1 << 16) - 1), "c", false);
  if (p.suffix.empty())
  {
    // a continuation always writes something: default suffix = one plain set
    Step s;
    s.op = OpSet;
    s.r = pbt::Row{0, 3, 5, 0};
    s.tag = "c1:";
    p.suffix.push_back(s);
  }
  p.contMode = static_cast<int>(src.weighted({5, 2, 3}));
  p.cutSel = src.range(0, 1 << 20);
  runKvPlan(c, p);
}

// ======================================================================================
// JsonFileStore
// ======================================================================================
namespace
{
using JMap = std::map<std::string, std::string>;
const std::vector<std::string> &jkeys()
{
  static std::vector<std::string> k = {"a", "b", "ab", "key with space", "q\"uote", "k1", "k2", "u\xc3\xa9"};
  return k;
}
std::string jval(std::int64_t sel, const std::string &tag)
{
  switch (sel % 8)
  {
  case 0: return "";
  case 1: return "x";
  case 5: return tag + " \"quoted\" \\ back";
  case 6: return tag + std::string(300, 'y');
  case 7: return tag + std::string(9000, 'z'); // larger than the stream buffer
  default: return tag + std::to_string(sel % 8);
  }
}
std::string showJ(const JMap &m)
{
  std::string s = "{";
  for (auto &kv : m) s += kv.first + "=" + (kv.second.size() > 16 ? kv.second.substr(0, 10) + "..[" + std::to_string(kv.second.size()) + "B]" : kv.second) + ",";
  return s + "}";
}
JMap readJ(JsonFileStore &js)
{
  JMap m;
  for (auto &k : jkeys())
  {
    auto v = js.get(k);
    if (v) m[k] = *v;
  }
  return m;
}

struct JOp
{
  int kind; // 0 set 1 remove 2 flush
  std::string key, val;
};

void runJsonPlan(pbt::Case &c, const std::vector<JOp> &opsIn, const std::vector<JOp> &suffix)
{
  iora::core::Logger::setLevel(iora::core::Logger::Level::Fatal);
  // The background flusher must not run inside a case. JsonFileStore starts its (static)
  // flusher thread when the first store registers and joins it when the last one goes; the
  // stop path sets the exit flag and notifies WITHOUT the condition variable's mutex, so a
  // store destroyed a few microseconds after it was created can miss the thread on its way
  // into wait_for() and then stalls for a full flush interval. That liveness wart is not
  // part of C11: a keeper store (own directory, never dirty) keeps the flusher alive for the
  // whole case, so the thread is started and stopped once per case, long apart.
  JsonFileStore::setFlushInterval(std::chrono::minutes(30));
  pbt::watchdog(300, "C11/json-store-call-did-not-return");
  static const std::string keeperDir = kvref::scratchBase("c11k");
  auto keeper = std::make_unique<JsonFileStore>(keeperDir + "/keeper.json");
  struct KeeperGuard
  {
    std::unique_ptr<JsonFileStore> &k;
    ~KeeperGuard()
    {
      std::this_thread::sleep_for(std::chrono::milliseconds(2)); // flusher is parked in wait_for by now
      k.reset();
    }
  } keeperGuard{keeper};
  const std::string fileA = dirA() + "/store.json";
  const std::string fileB = dirB() + "/store.json";

  // marker i: 2*i in flight / 2*i+1 returned; flushes[i] = contents written by op i (if it flushes)
  struct JInfo { std::string desc; bool flushes; JMap content; };
  std::vector<JInfo> ops;
  JMap mem;
  bool dirty = false;
  fstrace::materialise(dirA(), fstrace::Image{});
  fstrace::begin(dirA(), fstrace::Image{});
  std::string desc;
  {
    fstrace::setOp(inFlight(0));
    auto js = std::make_unique<JsonFileStore>(fileA);
    fstrace::setOp(returned(0));
    ops.push_back(JInfo{"open", false, {}});
    for (auto &o : opsIn)
    {
      int i = static_cast<int>(ops.size());
      fstrace::setOp(inFlight(i));
      JInfo info{"", false, {}};
      if (o.kind == 0) { js->set(o.key, o.val); mem[o.key] = o.val; dirty = true; info.desc = "set(" + o.key + "," + (o.val.size() > 12 ? o.val.substr(0, 8) + "..[" + std::to_string(o.val.size()) + "B]" : o.val) + ")"; }
      else if (o.kind == 1) { js->remove(o.key); if (mem.erase(o.key)) dirty = true; info.desc = "remove(" + o.key + ")"; }
      else { js->flush(); info.desc = "flush"; info.flushes = dirty; info.content = mem; dirty = false; }
      fstrace::setOp(returned(i));
      c.label(o.kind == 0 ? "json op set" : o.kind == 1 ? "json op remove" : "json op flush");
      desc += std::to_string(i) + ":" + info.desc + "; ";
      ops.push_back(std::move(info));
    }
    int i = static_cast<int>(ops.size());
    fstrace::setOp(inFlight(i));
    js.reset(); // destructor flushes
    fstrace::setOp(returned(i));
    ops.push_back(JInfo{"close (flushes)", dirty, mem});
  }
  fstrace::Result tr = fstrace::end();
  c.describe("json: " + desc);
  if (!selfCheckTrace(c, tr, dirA(), "json first session")) return;

  const auto &E = tr.effects;
  std::size_t budget = 4096;
  bool sampled = false, failed = false;
  std::uint64_t insideWrite = 0;
  fstrace::Image img;
  for (std::size_t i = 0; i <= E.size() && !failed; ++i)
  {
    std::vector<std::size_t> cuts{0};
    if (i < E.size() && E[i].kind == fstrace::Effect::Write)
    {
      auto more = cutsFor(E[i], budget);
      if (E[i].data.size() > 1 && more.size() != E[i].data.size() - 1) sampled = true;
      cuts.insert(cuts.end(), more.begin(), more.end());
    }
    for (std::size_t b : cuts)
    {
      int marker = i < E.size() ? E[i].op : returned(static_cast<int>(ops.size()) - 1);
      int opIdx = marker / 2;
      bool inflight = (marker % 2) == 0;
      // last completed flush among the operations that had returned
      int lastAck = inflight ? opIdx - 1 : opIdx;
      const JMap *done = nullptr;
      for (int q = lastAck; q >= 0; --q)
        if (ops[static_cast<std::size_t>(q)].flushes) { done = &ops[static_cast<std::size_t>(q)].content; break; }
      const JMap *prog = (inflight && ops[static_cast<std::size_t>(opIdx)].flushes) ? &ops[static_cast<std::size_t>(opIdx)].content : nullptr;
      static const JMap emptyMap;
      fstrace::Image at = img;
      if (b > 0) fstrace::apply(at, E[i], b);
      if (b > 0) { ++insideWrite; c.label("crash point: strictly inside a write"); }
      else c.label("crash point: at an effect boundary");
      std::string where = pbt::Fmt() << "crash " << (b ? "inside" : "before") << " effect " << i << "/" << E.size()
                                     << (i < E.size() ? std::string(" (") + E[i].api + " " + E[i].name + ")" : std::string(" (end)"))
                                     << (b ? (pbt::Fmt() << " after " << b << " of " << E[i].data.size() << " bytes").str() : std::string())
                                     << ", operation " << opIdx << " [" << ops[static_cast<std::size_t>(opIdx)].desc << "] " << (inflight ? "in flight" : "returned");
      fstrace::materialise(dirB(), at);
      JMap got, expect2;
      {
        JsonFileStore js(fileB);
        c.label("reopen run");
        got = readJ(js);
        const JMap &d = done ? *done : emptyMap;
        if (!(got == d) && !(prog && got == *prog))
        {
          std::string sig = done ? (got.empty() ? "C11/json/empty-or-unreadable-after-completed-flush" : "C11/json/contents-not-a-flushed-state")
                                 : "C11/json/contents-not-a-flushed-state";
          c.fail(sig, where + ": reopened store shows " + showJ(got) + ", admissible: " + showJ(d) + (prog ? " or " + showJ(*prog) + " (flush in progress)" : ""));
          failed = true;
          break;
        }
        // continuation: more operations, flush (explicit or by the destructor), reopen
        expect2 = got;
        for (auto &o : suffix)
        {
          if (o.kind == 0) { js.set(o.key, o.val); expect2[o.key] = o.val; }
          else if (o.kind == 1) { js.remove(o.key); expect2.erase(o.key); }
          else js.flush();
        }
      }
      {
        JsonFileStore js(fileB);
        c.label("reopen run");
        JMap got2 = readJ(js);
        if (got2 != expect2)
        {
          c.fail("C11/json/continuation-lost", where + "; continuation then clean close: reopened store shows " + showJ(got2) + ", expected " + showJ(expect2));
          failed = true;
          break;
        }
      }
    }
    if (i < E.size()) fstrace::apply(img, E[i]);
  }
  fstrace::materialise(dirA(), fstrace::Image{});
  fstrace::materialise(dirB(), fstrace::Image{});
  c.label("json history");
  c.label(sampled ? "json history: large writes cut at boundaries +-8 B and a stride" : "json history: every byte offset of every write enumerated");
  if (insideWrite) c.nontrivial(pbt::hash64(desc));
}

std::vector<JOp> decodeJ(const std::vector<pbt::Row> &rows, const char *session)
{
  std::vector<JOp> v;
  for (std::size_t i = 0; i < rows.size(); ++i)
  {
    JOp o;
    int x = static_cast<int>(rows[i][0] % 10);
    o.kind = x < 5 ? 0 : x < 7 ? 1 : 2;
    o.key = jkeys()[static_cast<std::size_t>(rows[i][1]) % jkeys().size()];
    o.val = jval(rows[i][2], std::string(session) + std::to_string(i + 1) + ":");
    v.push_back(std::move(o));
  }
  return v;
}
} // namespace

PBT_PROPERTY(json_crash)
{
  auto ops = decodeJ(src.rows(10, 3, 0, 1023), "j");
  auto suffix = decodeJ(src.rows(3, 3, 0, 1023), "c");
  runJsonPlan(c, ops, suffix);
}

// ======================================================================================
// fixed cases
// ======================================================================================
namespace
{
pbt::Row krow(Op op, std::int64_t a = 0, std::int64_t b = 0, std::int64_t d = 0)
{
  int x = 0;
  for (int i = 0; i < op; ++i) x += kOpWeight[i];
  return pbt::Row{x, a, b, d};
}
} // namespace

// S13: crash inside a log record, reopen, append, clean close, reopen: the appended
// (acknowledged) records must be there
PBT_REGRESSION(kv_append_after_torn_tail)
{
  Plan p;
  p.cfg.maxLog = 1u << 20;
  p.steps = decodeSteps({krow(OpSet, 0, 3), krow(OpSet, 1, 4)}, "v", true);
  p.suffix = decodeSteps({krow(OpSet, 3, 5), krow(OpSet, 4, 6)}, "c", false);
  p.contMode = 0;
  runKvPlan(c, p);
}
// compaction in the history: crash between snapshot rename and log reset, TTL keys
PBT_REGRESSION(kv_compaction_window)
{
  Plan p;
  p.cfg.maxLog = 48;
  p.steps = decodeSteps({krow(OpSet, 0, 3), krow(OpSetTtl, 1, 4, 1), krow(OpRemove, 0), krow(OpSet, 2, 12),
                         krow(OpExpireAt, 2, 1), krow(OpPersist, 1), krow(OpCompact), krow(OpClear)}, "v", true);
  p.suffix = decodeSteps({krow(OpSet, 3, 5)}, "c", false);
  p.contMode = 1;
  runKvPlan(c, p);
}
// S14: a flush completed, the next flush is cut: the store must not come back empty
PBT_REGRESSION(json_crash_during_second_flush)
{
  runJsonPlan(c, {JOp{0, "a", "1"}, JOp{2, "", ""}, JOp{0, "b", "2"}, JOp{2, "", ""}}, {JOp{0, "k1", "c"}});
}

PBT_MAIN()
