// c01_interpose_net.cpp - link-time interposition of the socket I/O calls made by iora's
// TCP/TLS and UDP engines (see harness/common/c01_interpose_net.hpp for the contract).
//
// What the engines really call on their sockets (checked against the sources):
//   TcpEngine plain : ::send(fd,..,MSG_NOSIGNAL)  ::recv(fd,..,0)
//   TcpEngine TLS   : libssl socket BIO -> write(fd,..) / read(fd,..)   (no KTLS, no sendmsg)
//   UdpEngine       : ::sendto / ::recvfrom on listener sockets, ::send / ::recv on connected ones
//   (::read/::write are also used on eventfd/timerfd - those are not sockets and pass untouched)
// writev/sendmsg/recvmsg/sendmmsg/recvmmsg are not used; they are interposed as counted
// pass-throughs so that a future engine that starts using them shows up in the labels.
#include "c01_interpose_net.hpp"

#include <atomic>
#include <cerrno>
#include <cstdarg>
#include <cstring>
#include <mutex>

#include <dlfcn.h>
#include <netinet/in.h>
#include <sys/socket.h>
#include <sys/syscall.h>
#include <sys/types.h>
#include <sys/uio.h>
#include <unistd.h>

namespace
{

constexpr int kMaxFd = 1 << 16;
enum Kind : unsigned char
{
  K_NONE = 0,
  K_STREAM = 1,
  K_DGRAM = 2
};
std::atomic<unsigned char> g_kind[kMaxFd];
std::atomic<bool> g_armed{false};
std::atomic<int> g_lastStreamFd{-1};
thread_local bool tl_harness = false;

struct Script
{
  std::vector<c01net::Step> steps;
  std::size_t pos = 0;
};
std::mutex g_mu; // protects scripts + counters (calls on engine sockets are rare and cheap)
Script g_swr, g_srd, g_dwr;
c01net::Counters g_cnt;
std::atomic<std::uint64_t> g_activity{0};

template <class F> F resolve(const char *name)
{
  return reinterpret_cast<F>(::dlsym(RTLD_NEXT, name));
}

using socket_fn = int (*)(int, int, int);
using accept_fn = int (*)(int, sockaddr *, socklen_t *);
using accept4_fn = int (*)(int, sockaddr *, socklen_t *, int);
using close_fn = int (*)(int);
using send_fn = ssize_t (*)(int, const void *, size_t, int);
using recv_fn = ssize_t (*)(int, void *, size_t, int);
using sendto_fn = ssize_t (*)(int, const void *, size_t, int, const sockaddr *, socklen_t);
using recvfrom_fn = ssize_t (*)(int, void *, size_t, int, sockaddr *, socklen_t *);
using read_fn = ssize_t (*)(int, void *, size_t);
using write_fn = ssize_t (*)(int, const void *, size_t);
using writev_fn = ssize_t (*)(int, const iovec *, int);
using sendmsg_fn = ssize_t (*)(int, const msghdr *, int);
using recvmsg_fn = ssize_t (*)(int, msghdr *, int);

#define REAL(type, name)                                                                    \
  static type real_##name()                                                                 \
  {                                                                                         \
    static std::atomic<type> p{nullptr};                                                    \
    type f = p.load(std::memory_order_acquire);                                             \
    if (!f)                                                                                 \
    {                                                                                       \
      f = resolve<type>(#name);                                                             \
      p.store(f, std::memory_order_release);                                                \
    }                                                                                       \
    return f;                                                                               \
  }
REAL(socket_fn, socket)
REAL(accept_fn, accept)
REAL(accept4_fn, accept4)
REAL(close_fn, close)
REAL(send_fn, send)
REAL(recv_fn, recv)
REAL(sendto_fn, sendto)
REAL(recvfrom_fn, recvfrom)
REAL(read_fn, read)
REAL(write_fn, write)
REAL(writev_fn, writev)
REAL(sendmsg_fn, sendmsg)
REAL(recvmsg_fn, recvmsg)

inline unsigned char kindOf(int fd)
{
  if (fd < 0 || fd >= kMaxFd) return K_NONE;
  return g_kind[fd].load(std::memory_order_acquire);
}
inline void setKind(int fd, unsigned char k)
{
  if (fd >= 0 && fd < kMaxFd) g_kind[fd].store(k, std::memory_order_release);
}

// next step of a script (PASS when exhausted); caller holds g_mu
c01net::Step nextStep(Script &s)
{
  if (s.pos < s.steps.size()) return s.steps[s.pos++];
  return c01net::Step{};
}

// number of bytes a cut step lets through for a request of `len` bytes; == len means "no cut"
std::size_t cutLen(const c01net::Step &st, std::size_t len)
{
  if (len <= 1) return len;
  if (st.act == c01net::CUT_ABS)
  {
    std::size_t n = st.n < 1 ? 1 : st.n;
    return n >= len ? len : n;
  }
  if (st.act == c01net::CUT_END)
  {
    std::size_t n = st.n < 1 ? 1 : st.n;
    if (n > len - 1) n = len - 1;
    return len - n;
  }
  return len;
}

enum class Via
{
  Send,
  Write,
  Sendto
};

// ---- engine stream write: send()/write() --------------------------------------------------
ssize_t streamWrite(int fd, const void *buf, size_t len, int flags, Via via)
{
  c01net::Step st;
  {
    std::lock_guard<std::mutex> lk(g_mu);
    ++g_cnt.wrCalls;
    if (via == Via::Write) ++g_cnt.viaReadWrite;
    st = nextStep(g_swr);
  }
  g_activity.fetch_add(1, std::memory_order_relaxed);
  if (st.act == c01net::AGAIN && len > 0)
  {
    {
      std::lock_guard<std::mutex> lk(g_mu);
      ++g_cnt.wrAgainInj;
    }
    errno = EAGAIN;
    return -1;
  }
  std::size_t n = len;
  bool cut = false;
  if (st.act == c01net::CUT_ABS || st.act == c01net::CUT_END)
  {
    n = cutLen(st, len);
    cut = n < len;
  }
  ssize_t r = via == Via::Write ? real_write()(fd, buf, n) : real_send()(fd, buf, n, flags);
  int e = errno;
  {
    std::lock_guard<std::mutex> lk(g_mu);
    if (r >= 0)
    {
      g_cnt.wrBytes += static_cast<std::uint64_t>(r);
      if (cut) ++g_cnt.wrCutInj;
      else if (static_cast<std::size_t>(r) < len) ++g_cnt.wrShortReal;
    }
    else if (e == EAGAIN || e == EWOULDBLOCK)
      ++g_cnt.wrAgainReal;
  }
  errno = e;
  return r;
}

// ---- engine stream read: recv()/read() ----------------------------------------------------
ssize_t streamRead(int fd, void *buf, size_t len, int flags, bool viaRead)
{
  c01net::Step st;
  {
    std::lock_guard<std::mutex> lk(g_mu);
    ++g_cnt.rdCalls;
    if (viaRead) ++g_cnt.viaReadWrite;
    st = nextStep(g_srd);
  }
  g_activity.fetch_add(1, std::memory_order_relaxed);
  std::size_t n = len;
  bool cut = false;
  if ((st.act == c01net::CUT_ABS || st.act == c01net::CUT_END) && !(flags & MSG_PEEK))
  {
    n = cutLen(st, len);
    cut = n < len;
  }
  ssize_t r = viaRead ? real_read()(fd, buf, n) : real_recv()(fd, buf, n, flags);
  int e = errno;
  {
    std::lock_guard<std::mutex> lk(g_mu);
    if (r > 0)
    {
      g_cnt.rdBytes += static_cast<std::uint64_t>(r);
      if (cut && static_cast<std::size_t>(r) == n) ++g_cnt.rdCutInj;
    }
    else if (r < 0 && (e == EAGAIN || e == EWOULDBLOCK))
      ++g_cnt.rdAgainReal;
  }
  errno = e;
  return r;
}

// ---- engine datagram write: sendto()/send() ------------------------------------------------
template <class Real> ssize_t dgramWrite(Real doReal)
{
  c01net::Step st;
  {
    std::lock_guard<std::mutex> lk(g_mu);
    ++g_cnt.dgWrCalls;
    st = nextStep(g_dwr);
  }
  g_activity.fetch_add(1, std::memory_order_relaxed);
  if (st.act == c01net::AGAIN)
  {
    {
      std::lock_guard<std::mutex> lk(g_mu);
      ++g_cnt.dgWrAgainInj;
    }
    errno = EAGAIN;
    return -1;
  }
  ssize_t r = doReal();
  int e = errno;
  if (r < 0 && (e == EAGAIN || e == EWOULDBLOCK))
  {
    std::lock_guard<std::mutex> lk(g_mu);
    ++g_cnt.dgWrAgainReal;
  }
  errno = e;
  return r;
}

void noteDgramRead()
{
  {
    std::lock_guard<std::mutex> lk(g_mu);
    ++g_cnt.dgRdCalls;
  }
  g_activity.fetch_add(1, std::memory_order_relaxed);
}

void noteUnexpected()
{
  std::lock_guard<std::mutex> lk(g_mu);
  ++g_cnt.unexpected;
}

} // namespace

// ================================================================= interposed symbols
extern "C"
{

int socket(int domain, int type, int protocol)
{
  int fd = real_socket()(domain, type, protocol);
  if (fd >= 0)
  {
    unsigned char k = K_NONE;
    if (g_armed.load(std::memory_order_acquire) && !tl_harness && (domain == AF_INET || domain == AF_INET6) &&
        (type & SOCK_NONBLOCK))
    {
      int base = type & ~(SOCK_NONBLOCK | SOCK_CLOEXEC);
      if (base == SOCK_STREAM) k = K_STREAM;
      else if (base == SOCK_DGRAM) k = K_DGRAM;
    }
    setKind(fd, k);
    if (k == K_STREAM) g_lastStreamFd.store(fd, std::memory_order_release);
    if (k != K_NONE)
    {
      std::lock_guard<std::mutex> lk(g_mu);
      ++g_cnt.engineSockets;
    }
  }
  return fd;
}

int accept(int fd, sockaddr *addr, socklen_t *len)
{
  int r = real_accept()(fd, addr, len);
  if (r >= 0) setKind(r, K_NONE); // the engines use accept4; raw peers use accept
  return r;
}

int accept4(int fd, sockaddr *addr, socklen_t *len, int flags)
{
  int r = real_accept4()(fd, addr, len, flags);
  if (r >= 0)
  {
    bool eng = kindOf(fd) == K_STREAM && g_armed.load(std::memory_order_acquire);
    setKind(r, eng ? K_STREAM : K_NONE);
    if (eng) g_lastStreamFd.store(r, std::memory_order_release);
    if (eng)
    {
      std::lock_guard<std::mutex> lk(g_mu);
      ++g_cnt.engineSockets;
    }
  }
  return r;
}

int close(int fd)
{
  if (kindOf(fd) == K_STREAM)
  {
    int exp = fd;
    g_lastStreamFd.compare_exchange_strong(exp, -1);
  }
  setKind(fd, K_NONE);
  close_fn f = real_close();
  if (!f) return static_cast<int>(::syscall(SYS_close, fd));
  return f(fd);
}

ssize_t send(int fd, const void *buf, size_t len, int flags)
{
  unsigned char k = kindOf(fd);
  if (k == K_STREAM) return streamWrite(fd, buf, len, flags, Via::Send);
  if (k == K_DGRAM) return dgramWrite([&] { return real_send()(fd, buf, len, flags); });
  return real_send()(fd, buf, len, flags);
}

ssize_t recv(int fd, void *buf, size_t len, int flags)
{
  unsigned char k = kindOf(fd);
  if (k == K_STREAM) return streamRead(fd, buf, len, flags, false);
  if (k == K_DGRAM) noteDgramRead();
  return real_recv()(fd, buf, len, flags);
}

ssize_t sendto(int fd, const void *buf, size_t len, int flags, const sockaddr *to, socklen_t tolen)
{
  unsigned char k = kindOf(fd);
  if (k == K_DGRAM)
    return dgramWrite([&] { return real_sendto()(fd, buf, len, flags, to, tolen); });
  if (k == K_STREAM && to == nullptr) return streamWrite(fd, buf, len, flags, Via::Send);
  return real_sendto()(fd, buf, len, flags, to, tolen);
}

ssize_t recvfrom(int fd, void *buf, size_t len, int flags, sockaddr *from, socklen_t *fromlen)
{
  unsigned char k = kindOf(fd);
  if (k == K_DGRAM) noteDgramRead();
  else if (k == K_STREAM && from == nullptr) return streamRead(fd, buf, len, flags, false);
  return real_recvfrom()(fd, buf, len, flags, from, fromlen);
}

ssize_t read(int fd, void *buf, size_t len)
{
  unsigned char k = kindOf(fd);
  if (k == K_STREAM) return streamRead(fd, buf, len, 0, true);
  if (k == K_DGRAM) noteDgramRead();
  read_fn f = real_read();
  if (!f) return ::syscall(SYS_read, fd, buf, len);
  return f(fd, buf, len);
}

ssize_t write(int fd, const void *buf, size_t len)
{
  unsigned char k = kindOf(fd);
  if (k == K_STREAM) return streamWrite(fd, buf, len, 0, Via::Write);
  if (k == K_DGRAM) return dgramWrite([&] { return real_write()(fd, buf, len); });
  write_fn f = real_write();
  if (!f) return ::syscall(SYS_write, fd, buf, len);
  return f(fd, buf, len);
}

ssize_t writev(int fd, const iovec *iov, int cnt)
{
  if (kindOf(fd) != K_NONE) noteUnexpected();
  return real_writev()(fd, iov, cnt);
}

ssize_t sendmsg(int fd, const msghdr *msg, int flags)
{
  if (kindOf(fd) != K_NONE) noteUnexpected();
  return real_sendmsg()(fd, msg, flags);
}

ssize_t recvmsg(int fd, msghdr *msg, int flags)
{
  if (kindOf(fd) != K_NONE) noteUnexpected();
  return real_recvmsg()(fd, msg, flags);
}

// _FORTIFY_SOURCE variants (in case a tool chain default turns fortification on)
ssize_t __recv_chk(int fd, void *buf, size_t len, size_t, int flags) { return recv(fd, buf, len, flags); }
ssize_t __read_chk(int fd, void *buf, size_t len, size_t) { return read(fd, buf, len); }
ssize_t __recvfrom_chk(int fd, void *buf, size_t len, size_t, int flags, sockaddr *from, socklen_t *fl)
{
  return recvfrom(fd, buf, len, flags, from, fl);
}

} // extern "C"

// ======================================================================= control API
namespace c01net
{

void reset()
{
  g_armed.store(false, std::memory_order_release);
  g_lastStreamFd.store(-1, std::memory_order_release);
  for (int i = 0; i < kMaxFd; ++i) g_kind[i].store(K_NONE, std::memory_order_relaxed);
  std::lock_guard<std::mutex> lk(g_mu);
  g_swr = Script{};
  g_srd = Script{};
  g_dwr = Script{};
  g_cnt = Counters{};
}

void arm(bool on) { g_armed.store(on, std::memory_order_release); }
void harnessThread(bool on) { tl_harness = on; }

void setStreamWriteScript(const std::vector<Step> &s)
{
  std::lock_guard<std::mutex> lk(g_mu);
  g_swr.steps = s;
  g_swr.pos = 0;
}
void setStreamReadScript(const std::vector<Step> &s)
{
  std::lock_guard<std::mutex> lk(g_mu);
  g_srd.steps = s;
  g_srd.pos = 0;
}
void setDgramWriteScript(const std::vector<Step> &s)
{
  std::lock_guard<std::mutex> lk(g_mu);
  g_dwr.steps = s;
  g_dwr.pos = 0;
}
std::size_t streamWriteScriptLeft()
{
  std::lock_guard<std::mutex> lk(g_mu);
  return g_swr.steps.size() - g_swr.pos;
}
std::size_t streamReadScriptLeft()
{
  std::lock_guard<std::mutex> lk(g_mu);
  return g_srd.steps.size() - g_srd.pos;
}
std::size_t dgramWriteScriptLeft()
{
  std::lock_guard<std::mutex> lk(g_mu);
  return g_dwr.steps.size() - g_dwr.pos;
}
Counters counters()
{
  std::lock_guard<std::mutex> lk(g_mu);
  return g_cnt;
}
std::uint64_t activity() { return g_activity.load(std::memory_order_relaxed); }
int lastEngineStreamFd() { return g_lastStreamFd.load(std::memory_order_acquire); }

bool selfTest(std::string &why)
{
  // 1. symbol resolution: the executable's definitions must differ from the next ones
  if (reinterpret_cast<void *>(real_send()) == reinterpret_cast<void *>(&::send) || !real_send())
  {
    why = "send() is not interposed (dlsym(RTLD_NEXT) returned our own definition or null)";
    return false;
  }
  // 2. functional: an engine-like datagram socket sees the injected EAGAIN, then the datagram
  reset();
  arm(true);
  bool saved = tl_harness;
  tl_harness = false;
  int a = ::socket(AF_INET, SOCK_DGRAM | SOCK_NONBLOCK | SOCK_CLOEXEC, 0);
  tl_harness = saved;
  bool ok = false;
  if (a >= 0)
  {
    sockaddr_in sa{};
    sa.sin_family = AF_INET;
    sa.sin_addr.s_addr = htonl(INADDR_LOOPBACK);
    socklen_t sl = sizeof sa;
    if (::bind(a, reinterpret_cast<sockaddr *>(&sa), sizeof sa) == 0 &&
        ::getsockname(a, reinterpret_cast<sockaddr *>(&sa), &sl) == 0)
    {
      setDgramWriteScript({Step{AGAIN, 0}});
      char x = 'x', y = 0;
      errno = 0;
      ssize_t r1 = ::sendto(a, &x, 1, 0, reinterpret_cast<sockaddr *>(&sa), sizeof sa);
      int e1 = errno;
      ssize_t r2 = ::sendto(a, &x, 1, 0, reinterpret_cast<sockaddr *>(&sa), sizeof sa);
      ssize_t r3 = ::recv(a, &y, 1, 0);
      Counters c = counters();
      ok = r1 == -1 && e1 == EAGAIN && r2 == 1 && r3 == 1 && y == 'x' && c.dgWrAgainInj == 1 &&
           c.dgWrCalls == 2;
      if (!ok) why = "functional self test failed (sendto/recv on an engine-like socket)";
    }
    else
      why = "bind/getsockname failed in self test";
    ::close(a);
  }
  else
    why = "socket() failed in self test";
  reset();
  return ok;
}

} // namespace c01net
