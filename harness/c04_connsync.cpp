// C04 - Synchronous connect yields a live session or a definite error in time.
//
//   sched : schedule enumeration over a scripted fake engine. The plan fixes, per connect
//           attempt, the engine's outcome (onConnect / onClose(error) / nothing / synchronous
//           refusal), the PHASE of the connectSync call in which it lands - inside connect(),
//           while parked, INSIDE the close(sid) call made after the timeout, after that close
//           call but before the engine processes it, after connectSync returned - and when the
//           engine processes the transport's close; 1-8 concurrent callers, optional
//           connectSyncCancellable with a cancel at a generated time, optional stop().
//   real  : the real TcpEngine on loopback against raw POSIX peers that share no code with
//           iora: accepting / refusing / black-hole (backlog-0 listener with a queued
//           connection, 10.255.255.1) / RST-after-accept targets, timeouts 0..100 ms,
//           connectSyncCancellable with cancellation at generated times.
//
// Oracle (both): ok(sid) => the handshake completed for sid and the transport issued no close
// for it on behalf of this call; otherwise a definite error within timeout + generous slack
// (bounded-wait rule); the GLOBAL onConnect/onClose callbacks are never observed for an id no
// call handed to its caller; after a timed-out / cancelled attempt the connection is closed
// (fake: close(sid) recorded; real: the raw peer sees EOF/RST within B).
#include "pbt.hpp"
#include "c03_fake_engine.hpp"

#include <iora/core/logger.hpp>

#include <arpa/inet.h>
#include <fcntl.h>
#include <netinet/in.h>
#include <netinet/tcp.h>
#include <poll.h>
#include <sys/socket.h>
#include <unistd.h>

#include <algorithm>
#include <atomic>
#include <cstring>
#include <map>
#include <memory>
#include <mutex>
#include <set>
#include <thread>

// schedule perturbation (harness/c03_sched.cpp); absent in TSan builds
extern "C" void c03_sched_enable(std::uint64_t seed) __attribute__((weak));
extern "C" void c03_sched_disable() __attribute__((weak));
extern "C" void c03_sched_hold_nth(int n, unsigned beforeUs, unsigned afterUs) __attribute__((weak));
extern "C" void c03_sched_hold_lock_nth(int n, unsigned beforeUs) __attribute__((weak));

namespace net = iora::network;
using fakeeng::FakeEngine;
using fakeeng::IoThread;
using net::SessionId;
using net::TransportError;
using Clock = std::chrono::steady_clock;

namespace
{

const char *errName(TransportError e)
{
  switch (e)
  {
  case TransportError::None: return "None";
  case TransportError::Socket: return "Socket";
  case TransportError::Resolve: return "Resolve";
  case TransportError::Connect: return "Connect";
  case TransportError::TLSHandshake: return "TLSHandshake";
  case TransportError::PeerClosed: return "PeerClosed";
  case TransportError::Cancelled: return "Cancelled";
  case TransportError::Timeout: return "Timeout";
  case TransportError::ShuttingDown: return "ShuttingDown";
  case TransportError::Unknown: return "Unknown";
  default: return "other";
  }
}

void quietLogs()
{
  static bool once = [] {
    if (std::getenv("C04_LOGS"))
    {
      iora::core::Logger::setLevel(iora::core::Logger::Level::Debug);
      return true;
    }
    iora::core::Logger::setLevel(iora::core::Logger::Level::Fatal);
    return true;
  }();
  (void)once;
}

// generous bound for "returns no later than its timeout plus a bounded slack"
constexpr auto kSlack = std::chrono::seconds(10);

struct GlobalLog
{
  std::mutex mu;
  std::vector<SessionId> connects, closes;
  std::map<SessionId, std::string> closeReason;
  void install(net::Transport &tr)
  {
    tr.onConnect([this](SessionId sid, const net::TransportAddress &) {
      std::lock_guard<std::mutex> lk(mu);
      connects.push_back(sid);
    });
    tr.onClose([this](SessionId sid, const net::TransportErrorInfo &why) {
      std::lock_guard<std::mutex> lk(mu);
      closes.push_back(sid);
      closeReason[sid] = std::string(errName(why.code)) + ": " + why.message;
    });
  }
};

// ------------------------------------------------------------------- sched plan
enum Outcome
{
  OutConnect = 0,
  OutFail = 1,
  OutHole = 2,
  OutSyncRefuse = 3
};
enum Phase
{
  PhInConnect = 0,     // fired by the I/O thread while the caller is still inside engine->connect()
  PhParked = 1,        // fired delayUs after connect() returned (caller parked, or racing the expiry)
  PhInClose = 2,       // fired and completed INSIDE the close(sid) call made after the timeout
  PhAfterCloseCall = 3, // queued during that close(sid), runs before the engine processes the close
  PhAfterReturn = 4    // fired after connectSync returned, before the engine processes the close
};
enum CloseProc
{
  CpInsideCall = 0, // engine processes the close before close() returns
  CpDelayed = 1,    // ... closeDelayUs after close() was called
  CpAfterReturn = 2 // ... only after connectSync returned
};

struct Attempt
{
  unsigned timeoutMs = 0;
  int outcome = OutHole;
  int phase = PhParked;
  unsigned delayUs = 0;
  int closeProc = CpInsideCall;
  unsigned closeDelayUs = 0;
};
struct CallerPlan
{
  std::vector<Attempt> attempts;
  bool cancellable = false;
  unsigned totalTimeoutMs = 0; // cancellable only
  bool doCancel = false;
  unsigned cancelAtUs = 0;
  unsigned startDelayUs = 0;
};
struct SchedPlan
{
  std::vector<CallerPlan> callers;
  bool stop = false;
  unsigned stopAtUs = 0;
  std::uint64_t perturbSeed = 0; // != 0: seeded yields/sleeps at mutex operations of callers and I/O thread
  // ---- teardown placed relative to a victim's onConnect (prop `teardown`)
  bool dropOwner = false;    // teardown = the owner drops the LAST shared_ptr (~Transport, sets the shutting-down
                             // fence) while the callers - who use a plain pointer, like a layer holding ITransport& -
                             // are parked; false: stop()
  int trigger = 0;           // 0: at stopAtUs after all callers are inside connectSync
                             // 1: the owner is released right BEFORE the I/O thread fires the victim's onConnect; the
                             //    handler's unlock of the sync mutex is held back / followed by a pause, so the owner
                             //    queues on the mutex and sets the fence before the woken caller can run
                             // 2: the owner is released right AFTER the victim's onConnect returned
                             // 3: the owner is released while the victim is INSIDE the engine->close(sid) call of its
                             //    timeout path; the fake's close() keeps the caller there (bounded) until the teardown
                             //    has returned or cannot proceed
                             // 4: the owner is released when that close(sid) returns; the caller is held back right
                             //    before it re-locks the sync mutex (interposed pthread_mutex_lock)
  std::size_t victim = 0;
  unsigned ownerDelayUs = 0; // owner's reaction delay after its release
  unsigned holdBeforeUs = 0, holdAfterUs = 0;
  bool preStart = false;     // (sched) every call is issued BEFORE the first start(): the engine accepts the commands
                             // and executes them once it runs; the harness start()s after all calls returned
  int holdNth = 2;           // which unlock of the I/O thread inside fireConnect is held: 2 = the transport's sync
                             // mutex at the end of its onConnect handler; 1 = the fake engine's own mutex BEFORE the
                             // handler runs (engine->stop() needs it): the fence is set, the callers return
                             // ShuttingDown, and only then does the still-running engine report onConnect
};

const char *phaseName(int p)
{
  static const char *n[] = {"in-connect", "parked", "in-close", "after-close-call", "after-return"};
  return n[p];
}
const char *outName(int o)
{
  static const char *n[] = {"onConnect", "onClose(err)", "nothing", "sync-refuse"};
  return n[o];
}
const char *cpName(int c)
{
  static const char *n[] = {"inside", "delayed", "after-return"};
  return n[c];
}

std::string describe(const SchedPlan &p)
{
  pbt::Fmt d;
  d << "callers=" << p.callers.size();
  if (p.stop) d << " stop@" << p.stopAtUs << "us";
  if (p.preStart) d << " calls-before-first-start";
  if (p.perturbSeed) d << " perturb=" << p.perturbSeed;
  if (p.dropOwner || p.trigger)
  {
    d << (p.dropOwner ? " teardown=drop-last-owner" : " teardown=stop()");
    if (p.trigger == 0) d << "@" << p.stopAtUs << "us";
    else if (p.trigger <= 2) d << (p.trigger == 1 ? " released-before" : " released-after") << "-onConnect(#" << p.victim << ")+" << p.ownerDelayUs << "us";
    else d << (p.trigger == 3 ? " while-inside" : " right-after") << "-timeout-close(#" << p.victim << ")+" << p.ownerDelayUs << "us";
    if (p.trigger == 1) d << " hold#" << p.holdNth << "=" << p.holdBeforeUs << "/" << p.holdAfterUs << "us";
  }
  for (std::size_t i = 0; i < p.callers.size(); ++i)
  {
    auto &c = p.callers[i];
    d << " | #" << i << " +" << c.startDelayUs << "us";
    if (c.cancellable)
    {
      d << " cancellable(total " << c.totalTimeoutMs << "ms";
      if (c.doCancel) d << ", cancel@" << c.cancelAtUs << "us";
      d << ")";
    }
    for (auto &a : c.attempts)
    {
      d << " [t=" << a.timeoutMs << "ms " << outName(a.outcome);
      if (a.outcome == OutConnect || a.outcome == OutFail)
      {
        d << "@" << phaseName(a.phase);
        if (a.phase == PhParked || a.phase == PhInConnect) d << "+" << a.delayUs << "us";
      }
      d << " close:" << cpName(a.closeProc);
      if (a.closeProc == CpDelayed) d << "+" << a.closeDelayUs << "us";
      d << "]";
    }
  }
  return d.str();
}

// what the harness knows about one sid created through the fake's connect()
struct SidInfo
{
  std::size_t caller = 0;
  Attempt script;
  bool outcomePosted = false;
};

struct CallerState
{
  // written by the caller thread only (hooks run on the caller's thread)
  std::size_t nextAttempt = 0;
  std::vector<SessionId> sidsThisCall;
  bool syncRefusedThisCall = false;
  std::chrono::nanoseconds hookTime{0}; // time this call spent inside the fake's connect()/close() hooks (waiting
                                        // for the scripted I/O thread): engine time, not the transport's waiting
  std::vector<std::function<void()>> afterReturn; // deferred posts
};

struct SchedWorld
{
  const SchedPlan &plan;
  std::shared_ptr<net::Transport> tr;
  FakeEngine *eng = nullptr;
  IoThread io;
  GlobalLog glog;
  std::mutex mu; // guards sidInfo, handed, failure
  std::map<SessionId, SidInfo> sidInfo;
  std::set<SessionId> handed;
  std::string failSig, failWhat;
  bool failTimed = false;
  std::vector<CallerState> cs;
  std::atomic<bool> stopIssued{false};
  std::atomic<bool> ownerGo{false};   // teardown prop: releases the owner thread
  std::atomic<bool> ownerDone{false}; // teardown prop: the owner's reset()/stop() has returned
  std::atomic<unsigned> entered{0};   // callers that are inside engine->connect() (or were refused there)
  std::atomic<unsigned> nPlacedInWindow{0}, nOk{0}, nTimeout{0}, nEngineErr{0}, nCancelled{0}, nShutdown{0},
    nSyncRefused{0}, nLateConnectAfterTimeout{0};

  explicit SchedWorld(const SchedPlan &p) : plan(p), cs(p.callers.size()) {}

  void fail(const std::string &sig, const std::string &what, bool timed = false)
  {
    std::lock_guard<std::mutex> lk(mu);
    if (failSig.empty())
    {
      failSig = sig;
      failWhat = what;
      failTimed = timed;
    }
  }

  void fireOutcome(SessionId sid, int outcome)
  {
    if (outcome == OutConnect)
    {
      auto before = eng->session(sid);
      bool isVictim = false;
      if (plan.trigger == 1 || plan.trigger == 2)
      {
        std::lock_guard<std::mutex> lk(mu);
        auto it = sidInfo.find(sid);
        isVictim = it != sidInfo.end() && it->second.caller == plan.victim;
      }
      if (isVictim && plan.trigger == 1)
      {
        // unlock #1 of this thread inside fireConnect is the fake's own mutex, #2 the transport's
        // sync mutex at the end of its onConnect handler: keep it locked a little longer (the owner
        // queues on it) and pause after releasing it (the owner runs before the handler notifies)
        ownerGo.store(true);
        if (c03_sched_hold_nth) c03_sched_hold_nth(plan.holdNth, plan.holdBeforeUs, plan.holdAfterUs);
      }
      if (eng->fireConnect(sid) && before.closeCalls > 0) ++nLateConnectAfterTimeout;
      if (c03_sched_hold_nth) c03_sched_hold_nth(0, 0, 0);
      if (isVictim && plan.trigger == 2) ownerGo.store(true);
    }
    else if (outcome == OutFail)
      eng->fireClose(sid, TransportError::Connect, "fake: connection refused");
  }
};

thread_local std::size_t tlCaller = ~std::size_t(0);

void installHooks(SchedWorld &w)
{
  FakeEngine::Hooks h;
  h.preConnect = [&w]() -> TransportError
  {
    if (tlCaller == ~std::size_t(0)) return TransportError::None;
    auto &st = w.cs[tlCaller];
    auto &pl = w.plan.callers[tlCaller];
    if (st.nextAttempt < pl.attempts.size() && pl.attempts[st.nextAttempt].outcome == OutSyncRefuse)
    {
      ++st.nextAttempt;
      ++w.nSyncRefused;
      st.syncRefusedThisCall = true;
      return TransportError::Connect;
    }
    return TransportError::None;
  };
  h.inConnect = [&w](SessionId sid)
  {
    if (tlCaller == ~std::size_t(0)) return;
    ++w.entered; // this caller holds the sync lock and will be registered + counted before it releases it
    auto &st = w.cs[tlCaller];
    struct HookTimer
    {
      CallerState &st;
      Clock::time_point b = Clock::now();
      ~HookTimer() { st.hookTime += Clock::now() - b; }
    } hookTimer{st};
    auto &pl = w.plan.callers[tlCaller];
    Attempt a; // default when the script is exhausted: nothing happens (black hole)
    a.timeoutMs = 0;
    if (st.nextAttempt < pl.attempts.size()) a = pl.attempts[st.nextAttempt];
    ++st.nextAttempt;
    st.sidsThisCall.push_back(sid);
    {
      std::lock_guard<std::mutex> lk(w.mu);
      w.sidInfo[sid] = SidInfo{tlCaller, a, false};
    }
    if (a.outcome != OutConnect && a.outcome != OutFail) return;
    if (a.phase == PhInConnect)
    {
      // the caller still holds the transport's sync lock here: the engine callback will block on
      // it until the caller parks. Wait (bounded - we hold a lock the I/O thread may need for
      // another session) until the I/O thread has picked the event up, then give it a moment
      // to reach the lock.
      auto t = w.io.post([&w, sid, o = a.outcome] { w.fireOutcome(sid, o); });
      t->waitStartedFor(std::chrono::microseconds(2000));
      if (a.delayUs) std::this_thread::sleep_for(std::chrono::microseconds(a.delayUs % 200));
      std::lock_guard<std::mutex> lk(w.mu);
      w.sidInfo[sid].outcomePosted = true;
    }
    else if (a.phase == PhParked)
    {
      w.io.post([&w, sid, o = a.outcome] { w.fireOutcome(sid, o); }, std::chrono::microseconds(a.delayUs));
      std::lock_guard<std::mutex> lk(w.mu);
      w.sidInfo[sid].outcomePosted = true;
    }
  };
  h.inClose = [&w](SessionId sid, bool accepted)
  {
    if (!accepted) return; // engine not running: TcpEngine drops the command
    SidInfo info;
    bool knownSid = false;
    {
      std::lock_guard<std::mutex> lk(w.mu);
      auto it = w.sidInfo.find(sid);
      if (it != w.sidInfo.end())
      {
        info = it->second;
        knownSid = true;
      }
    }
    bool byCaller = knownSid && tlCaller == info.caller;
    if (!byCaller)
    {
      // a close issued by the harness itself (cleanup of a handed session)
      w.io.post([&w, sid] { w.eng->processAppClose(sid); });
      return;
    }
    auto &st = w.cs[tlCaller];
    struct HookTimer
    {
      CallerState &st;
      Clock::time_point b = Clock::now();
      ~HookTimer() { st.hookTime += Clock::now() - b; }
    } hookTimer{st};
    const Attempt &a = info.script;
    bool hasEvent = (a.outcome == OutConnect || a.outcome == OutFail) && !info.outcomePosted;
    if (hasEvent && a.phase == PhInClose)
    {
      ++w.nPlacedInWindow;
      auto t = w.io.post([&w, sid, o = a.outcome] { w.fireOutcome(sid, o); });
      t->waitDone(); // this thread holds no transport lock inside close(): unbounded wait is safe
    }
    else if (hasEvent && a.phase == PhAfterCloseCall)
    {
      ++w.nPlacedInWindow;
      w.io.post([&w, sid, o = a.outcome] { w.fireOutcome(sid, o); });
    }
    else if (hasEvent && a.phase == PhAfterReturn)
    {
      ++w.nPlacedInWindow;
      st.afterReturn.push_back([&w, sid, o = a.outcome] { w.io.post([&w, sid, o] { w.fireOutcome(sid, o); }); });
    }
    // the engine's processing of the Close command (FIFO after whatever was queued above)
    if (a.closeProc == CpInsideCall && !(hasEvent && a.phase == PhAfterReturn))
    {
      auto t = w.io.post([&w, sid] { w.eng->processAppClose(sid); });
      t->waitDone();
    }
    else if (a.closeProc == CpDelayed && !(hasEvent && a.phase == PhAfterReturn))
      w.io.post([&w, sid] { w.eng->processAppClose(sid); }, std::chrono::microseconds(a.closeDelayUs));
    else
      st.afterReturn.push_back([&w, sid] { w.io.post([&w, sid] { w.eng->processAppClose(sid); }); });
    // ---- teardown placed at the timeout path's close(sid) (prop `teardown`)
    if ((w.plan.trigger == 3 || w.plan.trigger == 4) && tlCaller == w.plan.victim && !w.ownerGo.load())
    {
      w.ownerGo.store(true);
      if (w.plan.trigger == 3)
      {
        // stay inside engine->close(sid): a correct teardown has to wait for this call (it is still
        // counted), so the wait is bounded; a teardown that does not wait returns within it
        for (int i = 0; i < 60 && !w.ownerDone.load(); ++i) std::this_thread::sleep_for(std::chrono::microseconds(50));
      }
      else if (c03_sched_hold_lock_nth)
        c03_sched_hold_lock_nth(1, 2000); // the next lock of this thread is connectSync's re-lock
    }
  };
  h.inStop = [&w]
  {
    // TcpEngine::stop() joins the I/O thread after shutdownDrain closed every session
    auto t = w.io.post([&w] { w.eng->fireShutdownCloses(); });
    t->waitDone();
  };
  w.eng->setHooks(std::move(h));
}

// judge one returned call (connectSync or connectSyncCancellable) on the caller's thread
void judgeCall(SchedWorld &w, std::size_t ci, const net::ConnectResult &r, std::chrono::nanoseconds elapsed,
               std::chrono::milliseconds timeout, bool cancellable, bool cancelIssuedBeforeReturn)
{
  auto &st = w.cs[ci];
  std::string who = pbt::Fmt() << "caller #" << ci << (cancellable ? " connectSyncCancellable" : " connectSync")
                               << "(timeout " << timeout.count() << " ms)";
  // every sid this call created, except the one it hands out, must be closed or have a close issued
  SessionId okSid = r.isOk() ? r.value() : 0;
  if (r.isOk())
  {
    ++w.nOk;
    bool mine = std::find(st.sidsThisCall.begin(), st.sidsThisCall.end(), okSid) != st.sidsThisCall.end();
    if (!mine)
    {
      w.fail("C04/ok-with-foreign-session", who + " returned ok(" + std::to_string(okSid) + "), an id its own engine connect() never produced");
      return;
    }
    auto s = w.eng->session(okSid);
    if (s.connectFiredSeq == 0)
    {
      w.fail("C04/ok-without-handshake", who + " returned ok(" + std::to_string(okSid) + ") although the engine never reported onConnect for it");
      return;
    }
    if (s.closeCalls != 0)
    {
      w.fail("C04/ok-after-transport-close", who + " returned ok(" + std::to_string(okSid) + ") after the transport itself had issued close() for it");
      return;
    }
    std::lock_guard<std::mutex> lk(w.mu);
    w.handed.insert(okSid);
  }
  else
  {
    TransportError code = r.error().code;
    bool definite = code == TransportError::Timeout || code == TransportError::ShuttingDown ||
                    (cancellable && code == TransportError::Cancelled);
    if (code == TransportError::Timeout) ++w.nTimeout;
    else if (code == TransportError::Cancelled) ++w.nCancelled;
    else if (code == TransportError::ShuttingDown) ++w.nShutdown;
    if (!definite)
    {
      // must be an error the engine really reported for one of this call's sessions, or the
      // synchronous refusal of connect()
      // (a synchronous refusal may also follow earlier, timed-out attempts of a cancellable call)
      bool reported = code == TransportError::Connect && st.syncRefusedThisCall;
      for (auto sid : st.sidsThisCall)
      {
        auto s = w.eng->session(sid);
        if (s.closeFiredSeq != 0 && s.closeCode == code) reported = true;
      }
      if (!reported)
      {
        w.fail("C04/indefinite-error", who + " returned error " + errName(code) + " (" + r.error().message +
                                         ") that the engine never reported for this call");
        return;
      }
      ++w.nEngineErr;
    }
    if (code == TransportError::Cancelled && !cancelIssuedBeforeReturn)
    {
      w.fail("C04/cancelled-without-cancel", who + " returned Cancelled although cancel() was never called");
      return;
    }
  }
  // no connection left behind: at return, every other session of this call is closed by the
  // engine or has a close issued by the transport (unless the engine is being stopped)
  for (auto sid : st.sidsThisCall)
  {
    if (sid == okSid) continue;
    auto s = w.eng->session(sid);
    if (s.closeFiredSeq == 0 && s.closeCalls == 0 && !w.stopIssued.load())
    {
      w.fail("C04/attempt-left-open", who + " returned " + (r.isOk() ? std::string("ok") : std::string(errName(r.error().code))) +
                                        " but session " + std::to_string(sid) + " of this call was neither closed by the engine nor closed by the transport");
      return;
    }
  }
  // the transport's own waiting: time inside the fake engine's connect()/close() (where the caller waits
  // for the scripted I/O thread) is the engine's, not the transport's
  auto own = elapsed - st.hookTime;
  if (own > timeout + kSlack)
    w.fail("C04/returned-late", who + " returned after " +
                                  std::to_string(std::chrono::duration_cast<std::chrono::milliseconds>(elapsed).count()) + " ms (" +
                                  std::to_string(std::chrono::duration_cast<std::chrono::milliseconds>(st.hookTime).count()) +
                                  " ms of it inside the scripted engine)",
           true);
}

void runSched(pbt::Case &c, const SchedPlan &plan)
{
  pbt::watchdog(60, "C04/connectSync-did-not-return");
  quietLogs();
  c.describe(describe(plan));
  SchedWorld w(plan);
  {
    auto e = std::make_unique<FakeEngine>();
    w.eng = e.get();
    net::TransportConfig cfg;
    w.tr = net::test::TransportEngineInjector::withEngine(std::move(e), cfg);
  }
  w.eng->setIoThreadId(w.io.id());
  w.glog.install(*w.tr);
  installHooks(w);
  if (!plan.preStart) w.tr->start();
  if (plan.perturbSeed && c03_sched_enable)
    w.io.post([s = plan.perturbSeed] { c03_sched_enable(s * 31 + 7); })->waitDone();

  auto t0 = Clock::now();
  std::vector<std::unique_ptr<net::CancellationToken>> tokens(plan.callers.size());
  std::vector<std::atomic<bool>> cancelIssued(plan.callers.size());
  for (auto &x : cancelIssued) x.store(false);
  std::vector<std::thread> threads;
  for (std::size_t ci = 0; ci < plan.callers.size(); ++ci)
  {
    if (plan.callers[ci].cancellable) tokens[ci] = std::make_unique<net::CancellationToken>();
    threads.emplace_back([&, ci] {
      tlCaller = ci;
      if (plan.perturbSeed && c03_sched_enable) c03_sched_enable(plan.perturbSeed * 31 + 11 + ci);
      const CallerPlan &cp = plan.callers[ci];
      std::this_thread::sleep_until(t0 + std::chrono::microseconds(cp.startDelayUs));
      auto &st = w.cs[ci];
      if (cp.cancellable)
      {
        st.sidsThisCall.clear();
        st.syncRefusedThisCall = false;
        st.hookTime = std::chrono::nanoseconds{0};
        auto timeout = std::chrono::milliseconds(cp.totalTimeoutMs);
        auto b = Clock::now();
        auto r = w.tr->connectSyncCancellable("192.0.2.1", 5060, *tokens[ci], net::TlsMode::None, timeout);
        auto el = Clock::now() - b;
        bool ci_ = cancelIssued[ci].load();
        judgeCall(w, ci, r, el, timeout, true, ci_);
        if (!plan.preStart)
        {
          for (auto &f : st.afterReturn) f();
          st.afterReturn.clear();
        }
      }
      else
      {
        std::size_t nCalls = cp.attempts.size();
        for (std::size_t k = 0; k < nCalls; ++k)
        {
          st.sidsThisCall.clear();
          st.syncRefusedThisCall = false;
          st.hookTime = std::chrono::nanoseconds{0};
          if (st.nextAttempt >= cp.attempts.size()) break;
          auto timeout = std::chrono::milliseconds(cp.attempts[st.nextAttempt].timeoutMs);
          auto b = Clock::now();
          auto r = w.tr->connectSync("192.0.2.1", 5060, net::TlsMode::None, timeout);
          auto el = Clock::now() - b;
          judgeCall(w, ci, r, el, timeout, false, false);
          if (!plan.preStart)
          {
            for (auto &f : st.afterReturn) f();
            st.afterReturn.clear();
          }
        }
      }
      tlCaller = ~std::size_t(0);
      if (c03_sched_disable) c03_sched_disable();
    });
  }
  // cancellations and stop() are issued from this thread at their planned times
  struct Timed
  {
    unsigned atUs;
    int kind; // 0 cancel, 1 stop
    std::size_t ci;
  };
  std::vector<Timed> timed;
  for (std::size_t ci = 0; ci < plan.callers.size(); ++ci)
    if (plan.callers[ci].cancellable && plan.callers[ci].doCancel) timed.push_back(Timed{plan.callers[ci].cancelAtUs, 0, ci});
  if (plan.stop) timed.push_back(Timed{plan.stopAtUs, 1, 0});
  std::sort(timed.begin(), timed.end(), [](const Timed &a, const Timed &b) { return a.atUs < b.atUs; });
  for (auto &t : timed)
  {
    std::this_thread::sleep_until(t0 + std::chrono::microseconds(t.atUs));
    if (t.kind == 0)
    {
      cancelIssued[t.ci].store(true);
      tokens[t.ci]->cancel();
    }
    else
    {
      w.stopIssued.store(true);
      w.tr->stop();
    }
  }
  for (auto &th : threads) th.join();
  if (plan.preStart)
  {
    // the engine runs from here on and executes what was queued: every Connect, and - FIFO behind it - the
    // Close the transport issued for it (kept in the callers' deferred lists)
    w.tr->start();
    for (auto &st : w.cs)
    {
      for (auto &f : st.afterReturn) f();
      st.afterReturn.clear();
    }
  }
  w.io.drain();

  // sessions handed to a caller are closed by the application now (their global onClose is legitimate)
  std::set<SessionId> handed;
  {
    std::lock_guard<std::mutex> lk(w.mu);
    handed = w.handed;
  }
  for (auto sid : handed) w.tr->close(sid);
  w.io.drain();

  // ---- global callbacks: never for an id no call handed to its caller
  if (w.failSig.empty())
  {
    std::lock_guard<std::mutex> lk(w.glog.mu);
    for (auto sid : w.glog.connects)
      if (!handed.count(sid))
      {
        w.failSig = "C04/global-onConnect-for-unreturned-session";
        w.failWhat = pbt::Fmt() << "global onConnect fired for session " << sid << " which no connectSync call returned to its caller";
        break;
      }
    if (w.failSig.empty())
      for (auto sid : w.glog.closes)
        if (!handed.count(sid))
        {
          auto s = w.eng->session(sid);
          w.failSig = "C04/global-onClose-for-unreturned-session";
          w.failWhat = pbt::Fmt() << "global onClose fired for session " << sid
                                  << " which no connectSync call returned to its caller (engine order for it: connect()#"
                                  << 0 << ", onConnect@" << s.connectFiredSeq << ", transport close()@" << s.closeCallSeq
                                  << ", onClose@" << s.closeFiredSeq << ")";
          break;
        }
  }
  // ---- nothing left open at the end (every close the transport issued has been processed)
  if (w.failSig.empty() && !plan.stop)
    for (auto &kv : w.eng->sessions())
      if (kv.second.st != fakeeng::SessState::Closed)
      {
        w.failSig = "C04/attempt-left-open";
        w.failWhat = pbt::Fmt() << "session " << kv.first << " is still open at the end of the case (handed: " << handed.count(kv.first) << ")";
        break;
      }
  w.eng->setIoThreadId(std::thread::id{});
  w.tr.reset();
  w.io.join();

  if (!w.failSig.empty())
  {
    if (w.failTimed) c.failTimed(w.failSig, w.failWhat);
    else c.fail(w.failSig, w.failWhat);
    return;
  }
  c.label(pbt::Fmt() << "callers " << (plan.callers.size() == 1 ? "1" : plan.callers.size() <= 4 ? "2-4" : "5-8"));
  if (w.nOk) c.label("ok returned");
  if (w.nTimeout) c.label("Timeout returned");
  if (w.nEngineErr) c.label("engine error returned");
  if (w.nCancelled) c.label("Cancelled returned");
  if (w.nShutdown) c.label("ShuttingDown returned");
  if (w.nSyncRefused) c.label("synchronous refusal");
  if (w.nPlacedInWindow) c.label("event placed in/after the timeout-path close");
  if (w.nLateConnectAfterTimeout) c.label("onConnect landed after the transport's close(sid)");
  if (plan.stop) c.label("stop() raced");
  if (plan.preStart) c.label("calls before the first start()");
  bool nearExpiry = false;
  for (auto &cp : plan.callers)
    for (auto &a : cp.attempts)
      if ((a.outcome == OutConnect || a.outcome == OutFail) &&
          ((a.phase == PhParked && a.timeoutMs <= 20 &&
            (a.delayUs > a.timeoutMs * 1000 ? a.delayUs - a.timeoutMs * 1000 : a.timeoutMs * 1000 - a.delayUs) <= 2000) ||
           (a.phase == PhInConnect && a.timeoutMs == 0)))
        nearExpiry = true;
  if (nearExpiry) c.label("completion within 2 ms of the expiry");
  if (w.nPlacedInWindow || nearExpiry) c.nontrivial(pbt::hash64(describe(plan)));
}

// --------------------------------------------------------------------------- teardown
// Forwards to a FakeEngine the harness keeps: the Transport may be destroyed in the middle of a
// case (prop `teardown`) while the records of the fake are still needed for the verdict.
class ProxyEngine final : public net::detail::EngineBase
{
public:
  explicit ProxyEngine(FakeEngine *e) : _e(e) {}
  net::StartResult start() override { return _e->start(); }
  void stop() override { _e->stop(); }
  bool isRunning() const override { return _e->isRunning(); }
  net::TransportErrorInfo lastError() const override { return _e->lastError(); }
  net::ListenResult addListener(const std::string &b, std::uint16_t p, net::TlsMode t) override { return _e->addListener(b, p, t); }
  net::ConnectResult connect(const std::string &h, std::uint16_t p, net::TlsMode t) override { return _e->connect(h, p, t); }
  net::ConnectResult connectViaListener(net::ListenerId l, const std::string &h, std::uint16_t p) override
  {
    return _e->connectViaListener(l, h, p);
  }
  bool close(SessionId sid) override { return _e->close(sid); }
  bool send(SessionId sid, const void *d, std::size_t n) override { return _e->send(sid, d, n); }
  void sendAsync(SessionId sid, const void *d, std::size_t n, net::SendCompleteCallback cb) override
  {
    _e->sendAsync(sid, d, n, std::move(cb));
  }
  void setCallbacks(Callbacks cbs) override { _e->setCallbacks(std::move(cbs)); }
  net::TransportStats getStats() const override { return _e->getStats(); }
  net::TransportAddress getListenerAddress(net::ListenerId l) const override { return _e->getListenerAddress(l); }
  net::TransportAddress getLocalAddress(SessionId s) const override { return _e->getLocalAddress(s); }
  net::TransportAddress getRemoteAddress(SessionId s) const override { return _e->getRemoteAddress(s); }
  bool setDscp(SessionId s, std::uint8_t d) override { return _e->setDscp(s, d); }
  std::thread::id getIoThreadId() const override { return _e->getIoThreadId(); }
  void detachForTermination() override { _e->detachForTermination(); }
  void scheduleSelfDestruct(std::function<void()> d) override { _e->scheduleSelfDestruct(std::move(d)); }

private:
  FakeEngine *_e;
};

// Teardown placed relative to a victim's handshake completion. Every caller makes ONE connectSync call
// through a plain pointer (the teardown handshake of ~Transport waits parked callers out; a second call
// after the teardown would be a use-after-free by the caller, so there is none). The owner thread
// starts the teardown only after every caller is inside engine->connect() - from there on the caller
// is registered and counted before the teardown can take the sync lock.
void runTeardown(pbt::Case &c, const SchedPlan &plan)
{
  pbt::watchdog(60, "C04/connectSync-did-not-return");
  quietLogs();
  c.describe(describe(plan));
  SchedWorld w(plan);
  auto fake = std::make_unique<FakeEngine>();
  w.eng = fake.get();
  std::shared_ptr<net::Transport> owner =
    net::test::TransportEngineInjector::withEngine(std::make_unique<ProxyEngine>(w.eng), net::TransportConfig{});
  net::Transport *raw = owner.get();
  w.eng->setIoThreadId(w.io.id());
  w.glog.install(*raw);
  installHooks(w);
  raw->start();
  if (plan.perturbSeed && c03_sched_enable)
    w.io.post([s = plan.perturbSeed] { c03_sched_enable(s * 31 + 7); })->waitDone();

  const unsigned n = static_cast<unsigned>(plan.callers.size());
  auto t0 = Clock::now();
  std::vector<int> verdict(n, 0); // 1 ok, 2 ShuttingDown, 3 other error
  std::vector<std::thread> threads;
  for (std::size_t ci = 0; ci < n; ++ci)
  {
    threads.emplace_back([&, ci] {
      tlCaller = ci;
      if (plan.perturbSeed && c03_sched_enable) c03_sched_enable(plan.perturbSeed * 31 + 11 + ci);
      const CallerPlan &cp = plan.callers[ci];
      std::this_thread::sleep_until(t0 + std::chrono::microseconds(cp.startDelayUs));
      auto &st = w.cs[ci];
      auto timeout = std::chrono::milliseconds(cp.attempts[0].timeoutMs);
      auto b = Clock::now();
      auto r = raw->connectSync("192.0.2.1", 5060, net::TlsMode::None, timeout);
      auto el = Clock::now() - b;
      // `raw` must not be touched any more: the Transport may be gone
      verdict[ci] = r.isOk() ? 1 : r.error().code == TransportError::ShuttingDown ? 2 : 3;
      judgeCall(w, ci, r, el, timeout, false, false);
      for (auto &f : st.afterReturn) f();
      st.afterReturn.clear();
      tlCaller = ~std::size_t(0);
      if (c03_sched_disable) c03_sched_disable();
    });
  }
  // ---- owner thread = this thread
  bool barrierOk = false;
  for (int i = 0; i < 200000; ++i)
  {
    if (w.entered.load() >= n)
    {
      barrierOk = true;
      break;
    }
    std::this_thread::sleep_for(std::chrono::microseconds(50));
  }
  bool released = false;
  if (barrierOk)
  {
    auto tb = Clock::now();
    if (plan.trigger == 0)
    {
      auto until = tb + std::chrono::microseconds(plan.stopAtUs);
      while (Clock::now() < until) {}
    }
    else
    {
      // spin: the owner must react within the woken caller's wake-up latency
      auto giveUp = tb + std::chrono::milliseconds(100);
      while (!w.ownerGo.load() && Clock::now() < giveUp) {}
      released = w.ownerGo.load();
      auto until = Clock::now() + std::chrono::microseconds(plan.ownerDelayUs);
      while (Clock::now() < until) {}
    }
    w.stopIssued.store(true);
    auto td0 = Clock::now();
    if (plan.dropOwner) owner.reset(); // ~Transport: fence, engine stop, waits the parked callers out
    else raw->stop();
    w.ownerDone.store(true);
    auto tdEl = Clock::now() - td0;
    unsigned maxT = 0;
    for (auto &cp : plan.callers) maxT = std::max(maxT, cp.attempts[0].timeoutMs);
    if (tdEl > std::chrono::milliseconds(maxT) + kSlack)
      w.fail("C04/teardown-returned-late", pbt::Fmt() << (plan.dropOwner ? "~Transport" : "stop()") << " returned after "
                                                      << std::chrono::duration_cast<std::chrono::milliseconds>(tdEl).count() << " ms",
             true);
  }
  for (auto &th : threads) th.join();
  w.io.drain();
  if (!barrierOk)
  {
    owner.reset();
    w.io.join();
    c.inconclusive("callers did not all reach connect() in time");
    return;
  }
  std::set<SessionId> handed;
  {
    std::lock_guard<std::mutex> lk(w.mu);
    handed = w.handed;
  }
  // ---- the property's verdict: an error => no global callback ever for that id, and the session is closed
  if (w.failSig.empty())
  {
    std::lock_guard<std::mutex> lk(w.glog.mu);
    for (auto sid : w.glog.connects)
      if (!handed.count(sid))
      {
        w.failSig = "C04/global-onConnect-for-unreturned-session";
        w.failWhat = pbt::Fmt() << "global onConnect fired for session " << sid << " which no connectSync call returned to its caller";
        break;
      }
    if (w.failSig.empty())
      for (auto sid : w.glog.closes)
        if (!handed.count(sid))
        {
          auto s = w.eng->session(sid);
          std::size_t who = 0;
          {
            std::lock_guard<std::mutex> lk2(w.mu);
            auto it = w.sidInfo.find(sid);
            if (it != w.sidInfo.end()) who = it->second.caller;
          }
          w.failSig = "C04/global-onClose-for-unreturned-session";
          w.failWhat = pbt::Fmt() << "teardown: global onClose fired for session " << sid << " of caller #" << who << ", whose connectSync returned "
                                  << (verdict[who] == 2 ? "ShuttingDown" : verdict[who] == 3 ? "an error" : "ok for another id")
                                  << " (engine order for it: onConnect@" << s.connectFiredSeq << ", onClose@" << s.closeFiredSeq
                                  << "): the session was connected, handed to nobody, and its close reached the application";
          break;
        }
  }
  if (w.failSig.empty())
    for (auto &kv : w.eng->sessions())
      if (kv.second.st != fakeeng::SessState::Closed)
      {
        w.failSig = "C04/attempt-left-open";
        w.failWhat = pbt::Fmt() << "session " << kv.first << " is still open after the teardown";
        break;
      }
  w.eng->setIoThreadId(std::thread::id{});
  owner.reset();
  w.io.join();
  if (!w.failSig.empty())
  {
    if (w.failTimed) c.failTimed(w.failSig, w.failWhat);
    else c.fail(w.failSig, w.failWhat);
    return;
  }
  c.label(plan.dropOwner ? "teardown: last owner dropped" : "teardown: stop()");
  c.label(plan.trigger == 0   ? "teardown at a generated time"
          : plan.trigger == 1 ? "owner released before the victim's onConnect (held unlock)"
          : plan.trigger == 2 ? "owner released after the victim's onConnect"
          : plan.trigger == 3 ? "owner released while the victim is inside its timeout path's close(sid)"
                              : "owner released right after the victim's close(sid), caller held before the re-lock");
  if (plan.trigger != 0)
  {
    if (plan.trigger <= 2) c.label(released ? "victim's onConnect fired before the teardown" : "victim's onConnect did not fire in time");
    else c.label(released ? "victim reached its timeout path's close(sid) before the teardown" : "victim did not reach close(sid) in time");
    int v = verdict[plan.victim];
    c.label(v == 1 ? "victim returned ok" : v == 2 ? "victim returned ShuttingDown" : "victim returned another error");
  }
  if (w.nOk) c.label("ok returned");
  if (w.nShutdown) c.label("ShuttingDown returned");
  if (w.nTimeout) c.label("Timeout returned");
  if (w.nEngineErr) c.label("engine error returned");
  if (plan.trigger != 0 && released) c.nontrivial(pbt::hash64(describe(plan)));
}

SchedPlan genTeardown(pbt::Src &src)
{
  SchedPlan p;
  std::size_t n = src.weighted({3, 2, 2, 1, 1, 1, 1, 1}) + 1;
  std::vector<std::size_t> connecting;
  for (std::size_t i = 0; i < n; ++i)
  {
    CallerPlan cp;
    cp.startDelayUs = static_cast<unsigned>(src.range(0, 200));
    Attempt a;
    a.timeoutMs = src.oneOf<unsigned>({3000, 3000, 3000, 20, 5});
    a.outcome = static_cast<int>(src.weighted({6, 2, 2})); // onConnect, onClose(err), nothing
    if (a.outcome == OutHole && a.timeoutMs == 3000) a.timeoutMs = 20; // nothing happens: only the teardown or a short timeout ends it
    a.phase = src.coin(1, 4) ? PhInConnect : PhParked;
    a.delayUs = static_cast<unsigned>(a.phase == PhParked ? src.range(0, 1500) : src.range(0, 199));
    a.closeProc = static_cast<int>(src.range(0, 2));
    a.closeDelayUs = static_cast<unsigned>(src.range(0, 300));
    cp.attempts.push_back(a);
    if (a.outcome == OutConnect) connecting.push_back(i);
    p.callers.push_back(cp);
  }
  p.dropOwner = src.coin(5, 6);
  p.stopAtUs = static_cast<unsigned>(src.range(0, 2000));
  p.trigger = connecting.empty() ? 0 : static_cast<int>(src.weighted({1, 4, 3}));
  if (p.trigger) p.victim = connecting[static_cast<std::size_t>(src.range(0, static_cast<std::int64_t>(connecting.size()) - 1))];
  if (src.coin(1, 3))
  {
    // teardown placed at a victim's timeout path: the victim's attempt times out (nothing happens before,
    // or the outcome is itself placed inside / after that close call)
    p.trigger = src.coin() ? 3 : 4;
    p.victim = static_cast<std::size_t>(src.range(0, static_cast<std::int64_t>(n) - 1));
    Attempt &a = p.callers[p.victim].attempts[0];
    a.timeoutMs = src.oneOf<unsigned>({0, 1, 5});
    if (a.outcome != OutHole) a.phase = src.coin() ? PhInClose : PhAfterCloseCall;
  }
  p.ownerDelayUs = static_cast<unsigned>(src.range(0, 200));
  p.holdBeforeUs = src.oneOf<unsigned>({0, 100, 400});
  p.holdAfterUs = src.oneOf<unsigned>({0, 100, 400});
  p.holdNth = src.coin(1, 4) ? 1 : 2;
  p.perturbSeed = src.coin(1, 2) ? static_cast<std::uint64_t>(src.range(1, 1 << 20)) : 0;
  return p;
}

SchedPlan genSched(pbt::Src &src)
{
  SchedPlan p;
  std::size_t n = src.weighted({4, 2, 2, 1, 1, 1, 1, 1}) + 1;
  bool excludeS3 = pbt::isKnown("C04/global-onClose-for-unreturned-session");
  for (std::size_t i = 0; i < n; ++i)
  {
    CallerPlan cp;
    cp.startDelayUs = static_cast<unsigned>(src.range(0, 300));
    cp.cancellable = src.coin(1, 6);
    auto rows = src.rows(3, 6, 0, 65535);
    if (rows.empty()) rows.push_back(pbt::Row{src.range(0, 65535), src.range(0, 65535), src.range(0, 65535), src.range(0, 65535), src.range(0, 65535), src.range(0, 65535)});
    for (auto &r : rows)
    {
      Attempt a;
      static const unsigned tmos[] = {0, 0, 1, 1, 2, 5, 20, 3000};
      a.timeoutMs = tmos[r[0] % 8];
      a.outcome = static_cast<int>(std::vector<int>{OutConnect, OutConnect, OutConnect, OutFail, OutFail, OutHole, OutHole, OutSyncRefuse}[r[1] % 8]);
      a.phase = static_cast<int>(r[2] % 5);
      a.closeProc = static_cast<int>(r[4] % 3);
      a.closeDelayUs = static_cast<unsigned>(r[5] % 400);
      if (a.timeoutMs == 3000)
      {
        // a long timeout is only used where the outcome certainly arrives
        if (a.outcome == OutHole) a.outcome = OutConnect;
        if (a.phase > PhParked) a.phase = static_cast<int>(r[2] % 2);
        a.delayUs = static_cast<unsigned>(r[3] % 1500);
      }
      else if (a.phase == PhParked)
      {
        // around the expiry: 0 .. 2*timeout + 0.5 ms
        a.delayUs = static_cast<unsigned>(r[3] % (2 * a.timeoutMs * 1000 + 500));
      }
      else
        a.delayUs = static_cast<unsigned>(r[3] % 200);
      if (excludeS3 && a.outcome == OutConnect && a.timeoutMs != 3000)
      {
        // known finding: a handshake completing after the timeout decision. Excluded by
        // construction: short-timeout attempts never complete successfully.
        a.outcome = OutFail;
      }
      cp.attempts.push_back(a);
    }
    if (cp.cancellable)
    {
      cp.totalTimeoutMs = src.oneOf<unsigned>({0, 3, 30, 120, 220});
      cp.doCancel = src.coin(2, 3);
      cp.cancelAtUs = static_cast<unsigned>(src.range(0, cp.totalTimeoutMs * 1000 + 500));
      // sub-attempts of a cancellable call wait min(remaining, 100 ms): keep scripted attempts short
      for (auto &a : cp.attempts)
        if (a.timeoutMs == 3000 && a.outcome == OutHole) a.outcome = OutFail;
    }
    p.callers.push_back(cp);
  }
  p.stop = src.coin(1, 8);
  p.stopAtUs = static_cast<unsigned>(src.range(0, 3000));
  p.perturbSeed = src.coin(1, 2) ? static_cast<std::uint64_t>(src.range(1, 1 << 20)) : 0;
  p.preStart = src.coin(1, 10);
  if (p.preStart)
  {
    // nothing can happen before the engine runs: every attempt times out (or is refused synchronously); the
    // engine executes the queued Connect/Close pairs after start()
    p.stop = false;
    for (auto &cp : p.callers)
    {
      for (auto &a : cp.attempts)
      {
        if (a.outcome != OutSyncRefuse) a.outcome = OutHole;
        if (a.timeoutMs > 20) a.timeoutMs = 5;
        a.closeProc = CpAfterReturn;
      }
      if (cp.cancellable && cp.totalTimeoutMs > 30) cp.totalTimeoutMs = 30;
      if (cp.cancellable) cp.cancelAtUs = cp.cancelAtUs % (cp.totalTimeoutMs * 1000 + 500);
    }
  }
  return p;
}

} // namespace

PBT_PROPERTY(sched)
{
  SchedPlan p = genSched(src);
  runSched(c, p);
}

// one caller, every combination of {timeout 0 | long} x outcome x phase x close processing
PBT_PROPERTY(sched_enum)
{
  SchedPlan p;
  CallerPlan cp;
  Attempt a;
  bool excludeS3 = pbt::isKnown("C04/global-onClose-for-unreturned-session");
  int idx = static_cast<int>(src.range(0, 2 * 3 * 5 * 3 - 1));
  a.timeoutMs = (idx % 2) ? 2 : 0;
  a.outcome = (idx / 2) % 3;
  a.phase = (idx / 6) % 5;
  a.closeProc = (idx / 30) % 3;
  a.delayUs = static_cast<unsigned>(src.range(0, 300));
  a.closeDelayUs = static_cast<unsigned>(src.range(0, 300));
  if (excludeS3 && a.outcome == OutConnect) a.outcome = OutFail;
  cp.attempts.push_back(a);
  p.callers.push_back(cp);
  runSched(c, p);
  if (!c.failed()) c.label(pbt::Fmt() << "cell " << idx);
}


// ============================================================================ real
// Real TcpEngine on loopback against raw POSIX peers.
namespace
{

enum TargetKind
{
  TgAccept = 0,    // listening, accepted by a raw acceptor thread, kept open
  TgRefuse = 1,    // bound but not listening: the kernel answers RST (ECONNREFUSED)
  TgBlackHole = 2, // listen(fd,0) with one connection already queued: further SYNs are dropped
  TgRst = 3,       // accepted and immediately reset (SO_LINGER 0)
  TgUnroutable = 4 // 10.255.255.1: silent (or an immediate ENETUNREACH, also a definite error)
};
const char *tgName(int k)
{
  static const char *n[] = {"accept", "refuse", "black-hole", "rst-after-accept", "unroutable"};
  return n[k];
}

// The listening sockets live for the whole process (one set per shard): binding fresh ports for
// every case would exhaust the ephemeral range through TIME_WAIT in long runs. Nothing else is
// shared between cases: the accept queues are drained at the start of a case and every accepted
// connection is reset at its end.
struct RawListeners
{
  bool ok = false;
  int acceptFd = -1, rstFd = -1, refuseFd = -1, holeFd = -1, holeFiller = -1;
  std::uint16_t acceptPort = 0, rstPort = 0, refusePort = 0, holePort = 0;
};
bool bindLoopback(int fd, std::uint16_t &port)
{
  sockaddr_in a{};
  a.sin_family = AF_INET;
  a.sin_addr.s_addr = htonl(INADDR_LOOPBACK);
  a.sin_port = 0;
  if (fd < 0 || ::bind(fd, reinterpret_cast<sockaddr *>(&a), sizeof a) != 0) return false;
  socklen_t l = sizeof a;
  if (::getsockname(fd, reinterpret_cast<sockaddr *>(&a), &l) != 0) return false;
  port = ntohs(a.sin_port);
  return true;
}
RawListeners makeListeners()
{
  RawListeners L;
  auto mk = [] { return ::socket(AF_INET, SOCK_STREAM | SOCK_CLOEXEC, 0); };
  L.acceptFd = mk();
  L.rstFd = mk();
  L.refuseFd = mk();
  L.holeFd = mk();
  L.holeFiller = mk();
  if (!bindLoopback(L.acceptFd, L.acceptPort) || ::listen(L.acceptFd, 1024) != 0) return L;
  if (!bindLoopback(L.rstFd, L.rstPort) || ::listen(L.rstFd, 1024) != 0) return L;
  if (!bindLoopback(L.refuseFd, L.refusePort)) return L; // bound, never listen(): the kernel refuses
  if (!bindLoopback(L.holeFd, L.holePort) || ::listen(L.holeFd, 0) != 0) return L;
  sockaddr_in a{};
  a.sin_family = AF_INET;
  a.sin_addr.s_addr = htonl(INADDR_LOOPBACK);
  a.sin_port = htons(L.holePort);
  // fills the single accept-queue slot of the backlog-0 listener; never accepted
  if (L.holeFiller < 0 || ::connect(L.holeFiller, reinterpret_cast<sockaddr *>(&a), sizeof a) != 0) return L;
  ::fcntl(L.acceptFd, F_SETFL, O_NONBLOCK);
  ::fcntl(L.rstFd, F_SETFL, O_NONBLOCK);
  L.ok = true;
  return L;
}
RawListeners &listeners()
{
  static RawListeners L = makeListeners();
  return L;
}
void resetClose(int fd)
{
  linger lg{1, 0};
  ::setsockopt(fd, SOL_SOCKET, SO_LINGER, &lg, sizeof lg);
  ::close(fd); // RST, no TIME_WAIT
}

struct RawPeers
{
  int acceptFd = -1, rstFd = -1;
  std::uint16_t acceptPort = 0, rstPort = 0, refusePort = 0, holePort = 0;
  struct Conn
  {
    int fd;
    std::uint16_t peerPort;
    std::string rx;
    bool eof = false;
  };
  std::mutex mu;
  std::vector<Conn> conns; // accepted on the accept target
  unsigned rstAccepted = 0;
  std::atomic<bool> quit{false};
  std::atomic<std::uint64_t> sweeps{0}; // completed accept+read passes of the acceptor thread
  std::thread th;

  /// wait (bounded) until the acceptor has completed two full passes that started after this call:
  /// every connection that was established before the call has then been accepted and read once
  void sweep()
  {
    std::uint64_t s0 = sweeps.load();
    for (int i = 0; i < 20000 && sweeps.load() < s0 + 2; ++i) std::this_thread::sleep_for(std::chrono::microseconds(100));
  }

  RawPeers()
  {
    RawListeners &L = listeners();
    acceptFd = L.acceptFd;
    rstFd = L.rstFd;
    acceptPort = L.acceptPort;
    rstPort = L.rstPort;
    refusePort = L.refusePort;
    holePort = L.holePort;
    // leftovers of the previous case (connections that completed after it had finished)
    for (int lfd : {acceptFd, rstFd})
      for (;;)
      {
        int fd = ::accept4(lfd, nullptr, nullptr, SOCK_CLOEXEC);
        if (fd < 0) break;
        resetClose(fd);
      }
    th = std::thread([this] { run(); });
  }
  ~RawPeers()
  {
    quit.store(true);
    if (th.joinable()) th.join();
    for (auto &c : conns) resetClose(c.fd);
  }
  void run()
  {
    while (!quit.load())
    {
      std::vector<pollfd> pf;
      pf.push_back(pollfd{acceptFd, POLLIN, 0});
      pf.push_back(pollfd{rstFd, POLLIN, 0});
      {
        std::lock_guard<std::mutex> lk(mu);
        for (auto &c : conns)
          if (!c.eof) pf.push_back(pollfd{c.fd, POLLIN, 0});
      }
      ::poll(pf.data(), pf.size(), 2);
      for (;;)
      {
        sockaddr_in pa{};
        socklen_t pl = sizeof pa;
        int fd = ::accept4(acceptFd, reinterpret_cast<sockaddr *>(&pa), &pl, SOCK_NONBLOCK | SOCK_CLOEXEC);
        if (fd < 0) break;
        std::lock_guard<std::mutex> lk(mu);
        conns.push_back(Conn{fd, ntohs(pa.sin_port), "", false});
      }
      for (;;)
      {
        int fd = ::accept4(rstFd, nullptr, nullptr, SOCK_CLOEXEC);
        if (fd < 0) break;
        resetClose(fd); // RST
        std::lock_guard<std::mutex> lk(mu);
        ++rstAccepted;
      }
      std::lock_guard<std::mutex> lk(mu);
      for (auto &c : conns)
      {
        if (c.eof) continue;
        char buf[256];
        for (;;)
        {
          ssize_t n = ::recv(c.fd, buf, sizeof buf, 0);
          if (n > 0) c.rx.append(buf, static_cast<std::size_t>(n));
          else if (n == 0 || (errno != EAGAIN && errno != EWOULDBLOCK && errno != EINTR))
          {
            c.eof = true; // EOF or RST
            break;
          }
          else
            break;
        }
      }
      ++sweeps;
    }
  }
};

struct RealCaller
{
  int target = TgAccept;
  unsigned timeoutMs = 0;
  bool cancellable = false;
  bool doCancel = false;
  unsigned cancelAtUs = 0;
  unsigned startDelayUs = 0;
  unsigned calls = 1;
};
struct RealPlan
{
  std::vector<RealCaller> callers;
  int lifecycle = 0; // when the calls are issued: 0 on a running transport, 1 before the first start(),
                     // 2 after start()+stop() and before the restart. In 1 and 2 the harness start()s the
                     // transport after every call has returned and issues one harmless later command.
};
const char *lcName(int l)
{
  static const char *n[] = {"running", "before-first-start", "stopped-before-restart"};
  return n[l];
}

std::string describe(const RealPlan &p)
{
  pbt::Fmt d;
  d << "real callers=" << p.callers.size() << " lifecycle=" << lcName(p.lifecycle);
  for (std::size_t i = 0; i < p.callers.size(); ++i)
  {
    auto &c = p.callers[i];
    d << " | #" << i << " +" << c.startDelayUs << "us " << tgName(c.target) << " t=" << c.timeoutMs << "ms x" << c.calls;
    if (c.cancellable)
    {
      d << " cancellable";
      if (c.doCancel) d << " cancel@" << c.cancelAtUs << "us";
    }
  }
  return d.str();
}

void runReal(pbt::Case &c, const RealPlan &plan)
{
  pbt::watchdog(120, "C04/connectSync-did-not-return");
  quietLogs();
  c.describe(describe(plan));
  if (!listeners().ok)
  {
    c.inconclusive("raw listener setup failed");
    return;
  }
  RawPeers peers;
  GlobalLog glog;
  net::TransportConfig cfg;
  auto tr = net::Transport::tcp(cfg);
  glog.install(*tr);
  if (plan.lifecycle != 1 && !tr->start().isOk())
  {
    c.inconclusive("transport did not start");
    return;
  }
  if (plan.lifecycle == 2) tr->stop();
  const bool runningDuringCalls = plan.lifecycle == 0;

  std::mutex mu;
  std::string failSig, failWhat;
  bool failTimed = false;
  auto fail = [&](const std::string &sig, const std::string &what, bool timed = false) {
    std::lock_guard<std::mutex> lk(mu);
    if (failSig.empty())
    {
      failSig = sig;
      failWhat = what;
      failTimed = timed;
    }
  };
  struct HandedRec
  {
    SessionId sid;
    std::string token;
    int target;
  };
  std::vector<HandedRec> handed;
  std::atomic<unsigned> nOk{0}, nTimeout{0}, nCancelled{0}, nOtherErr{0};

  auto t0 = Clock::now();
  std::vector<std::unique_ptr<net::CancellationToken>> tokens(plan.callers.size());
  std::vector<std::atomic<bool>> cancelIssued(plan.callers.size());
  for (auto &x : cancelIssued) x.store(false);
  std::vector<std::thread> threads;
  for (std::size_t ci = 0; ci < plan.callers.size(); ++ci)
  {
    if (plan.callers[ci].cancellable) tokens[ci] = std::make_unique<net::CancellationToken>();
    threads.emplace_back([&, ci] {
      const RealCaller &rc = plan.callers[ci];
      std::this_thread::sleep_until(t0 + std::chrono::microseconds(rc.startDelayUs));
      std::string host = rc.target == TgUnroutable ? "10.255.255.1" : "127.0.0.1";
      std::uint16_t port = rc.target == TgAccept ? peers.acceptPort
                           : rc.target == TgRefuse ? peers.refusePort
                           : rc.target == TgBlackHole ? peers.holePort
                           : rc.target == TgRst ? peers.rstPort
                                                : 9;
      for (unsigned k = 0; k < rc.calls; ++k)
      {
        auto timeout = std::chrono::milliseconds(rc.timeoutMs);
        auto b = Clock::now();
        auto r = rc.cancellable ? tr->connectSyncCancellable(host, port, *tokens[ci], net::TlsMode::None, timeout)
                                : tr->connectSync(host, port, net::TlsMode::None, timeout);
        auto el = Clock::now() - b;
        std::string who = pbt::Fmt() << "caller #" << ci << (rc.cancellable ? " connectSyncCancellable(" : " connectSync(")
                                     << tgName(rc.target) << ", timeout " << rc.timeoutMs << " ms)";
        if (r.isOk())
        {
          ++nOk;
          if (!runningDuringCalls)
          {
            fail("C04/ok-without-running-engine", who + " returned ok(" + std::to_string(r.value()) + ") on a transport that is not running: no handshake can have completed");
            return;
          }
          if (rc.target != TgAccept && rc.target != TgRst)
          {
            fail("C04/ok-for-unreachable-target", who + " returned ok(" + std::to_string(r.value()) + ") although no handshake can complete with this target");
            return;
          }
          // the session must be live: a token sent through it reaches the raw peer
          std::string token = pbt::Fmt() << "<tok-" << ci << "-" << k << "-" << r.value() << ">";
          tr->send(r.value(), token.data(), token.size());
          std::lock_guard<std::mutex> lk(mu);
          handed.push_back(HandedRec{r.value(), token, rc.target});
        }
        else
        {
          TransportError code = r.error().code;
          if (code == TransportError::Timeout) ++nTimeout;
          else if (code == TransportError::Cancelled) ++nCancelled;
          else ++nOtherErr;
          if (code == TransportError::None)
            fail("C04/indefinite-error", who + " returned an error with code None");
          if (code == TransportError::Cancelled && !(rc.cancellable && cancelIssued[ci].load()))
            fail("C04/cancelled-without-cancel", who + " returned Cancelled although cancel() was never called");
          if (code == TransportError::ShuttingDown && runningDuringCalls)
            fail("C04/indefinite-error", who + " returned ShuttingDown although the transport was running");
        }
        if (el > timeout + kSlack)
          fail("C04/returned-late", who + " returned after " +
                                      std::to_string(std::chrono::duration_cast<std::chrono::milliseconds>(el).count()) + " ms",
               true);
      }
    });
  }
  {
    struct Timed
    {
      unsigned atUs;
      std::size_t ci;
    };
    std::vector<Timed> timed;
    for (std::size_t ci = 0; ci < plan.callers.size(); ++ci)
      if (plan.callers[ci].cancellable && plan.callers[ci].doCancel) timed.push_back(Timed{plan.callers[ci].cancelAtUs, ci});
    std::sort(timed.begin(), timed.end(), [](const Timed &a, const Timed &b) { return a.atUs < b.atUs; });
    for (auto &t : timed)
    {
      std::this_thread::sleep_until(t0 + std::chrono::microseconds(t.atUs));
      cancelIssued[t.ci].store(true);
      tokens[t.ci]->cancel();
    }
  }
  for (auto &th : threads) th.join();

  // calls issued on a transport that was not running: whatever they left queued is executed now
  if (!runningDuringCalls && !tr->start().isOk())
  {
    c.inconclusive("transport did not (re)start");
    return;
  }
  // barrier and "one harmless later command": addListener on a running transport is synchronous, so when
  // it returns the I/O thread has processed every Connect/Close command the calls above enqueued
  auto lr = tr->addListener("127.0.0.1", 0);
  (void)lr;
  peers.sweep(); // connections those commands established are now known to the raw peer

  // ---- liveness of handed sessions and no connection left behind (raw peer's view)
  unsigned leftOpen = 0, tokensMissing = 0;
  if (failSig.empty())
  {
    auto deadline = Clock::now() + kSlack;
    for (;;)
    {
      leftOpen = 0;
      tokensMissing = 0;
      std::string missingTok;
      std::uint16_t openPort = 0;
      {
        std::lock_guard<std::mutex> lk(peers.mu);
        for (auto &h : handed)
        {
          if (h.target != TgAccept) continue;
          bool found = false;
          for (auto &cn : peers.conns)
            if (cn.rx.find(h.token) != std::string::npos) found = true;
          if (!found)
          {
            ++tokensMissing;
            missingTok = h.token;
          }
        }
        for (auto &cn : peers.conns)
        {
          bool isHanded = false;
          for (auto &h : handed)
            if (cn.rx.find(h.token) != std::string::npos) isHanded = true;
          if (!isHanded && !cn.eof)
          {
            ++leftOpen;
            openPort = cn.peerPort;
          }
        }
      }
      // a session handed to its caller and connected to the accepting peer (which never closes)
      // must not be reported closed: neither the application nor the peer closed it
      {
        std::lock_guard<std::mutex> lk(glog.mu);
        for (auto &h : handed)
          if (h.target == TgAccept && glog.closeReason.count(h.sid))
          {
            const std::string &why = glog.closeReason[h.sid];
            if (why.find("closed by app") != std::string::npos)
              fail("C04/ok-after-transport-close", pbt::Fmt() << "session " << h.sid << " was returned ok by connectSync and then closed by the transport itself (" << why << ")");
            else
              fail("C04/handed-session-closed-without-peer-or-app-close",
                   pbt::Fmt() << "session " << h.sid << " was returned ok by connectSync (peer: accepting, never closes) and the engine then reported it closed: "
                              << why << " - nobody closed it (another session's stale epoll events after fd reuse?)");
          }
      }
      if (!failSig.empty()) break;
      // a connection without a token may still belong to a handed session whose token is in flight
      if (tokensMissing == 0 && leftOpen == 0) break;
      if (Clock::now() > deadline)
      {
        if (std::getenv("C04_DEBUG"))
        {
          std::lock_guard<std::mutex> lk(peers.mu);
          for (auto &cn : peers.conns)
            std::fprintf(stderr, "conn port=%u rx=%s eof=%d\n", cn.peerPort, cn.rx.c_str(), (int)cn.eof);
          for (auto &h : handed)
            std::fprintf(stderr, "handed sid=%llu tok=%s target=%d local=%u\n", (unsigned long long)h.sid, h.token.c_str(), h.target,
                         tr->getLocalAddress(h.sid).port);
          std::lock_guard<std::mutex> lk2(glog.mu);
          for (auto sid : glog.closes) std::fprintf(stderr, "global close %llu %s\n", (unsigned long long)sid, glog.closeReason[sid].c_str());
          auto st = tr->getStats();
          std::fprintf(stderr, "stats connected=%llu closed=%llu cur=%zu bytesOut=%llu\n", (unsigned long long)st.connected,
                       (unsigned long long)st.closed, st.sessionsCurrent, (unsigned long long)st.bytesOut);
        }
        if (tokensMissing)
          fail("C04/ok-session-not-live", pbt::Fmt() << "connectSync returned ok but the token " << missingTok
                                                     << " sent through that session never reached the accepting peer (session closed by the transport?)",
               true);
        else
          fail("C04/connection-left-open", pbt::Fmt() << leftOpen << " connection(s) accepted by the raw peer (e.g. from port " << openPort
                                                      << ") belong to no session handed to a caller and were not closed within "
                                                      << kSlack.count() << " s after every call had returned",
               true);
        break;
      }
      std::this_thread::sleep_for(std::chrono::milliseconds(1));
    }
  }
  tr->stop(); // joins the I/O thread: every callback has been delivered
  std::set<SessionId> handedIds;
  for (auto &h : handed) handedIds.insert(h.sid);
  if (failSig.empty())
  {
    std::lock_guard<std::mutex> lk(glog.mu);
    for (auto sid : glog.connects)
      if (!handedIds.count(sid))
      {
        fail("C04/global-onConnect-for-unreturned-session", pbt::Fmt() << "global onConnect fired for session " << sid << " which no call returned to its caller");
        break;
      }
    for (auto sid : glog.closes)
      if (!handedIds.count(sid))
      {
        fail("C04/global-onClose-for-unreturned-session", pbt::Fmt() << "global onClose fired for session " << sid << " which no call returned to its caller");
        break;
      }
  }
  tr.reset();
  if (!failSig.empty())
  {
    if (failTimed) c.failTimed(failSig, failWhat);
    else c.fail(failSig, failWhat);
    return;
  }
  if (nOk) c.label("ok returned");
  if (nTimeout) c.label("Timeout returned");
  if (nCancelled) c.label("Cancelled returned");
  if (nOtherErr) c.label("engine error returned");
  std::set<int> kinds;
  bool shortOnLive = false;
  for (auto &rc : plan.callers)
  {
    kinds.insert(rc.target);
    if ((rc.target == TgAccept || rc.target == TgRst) && rc.timeoutMs <= 2) shortOnLive = true;
  }
  for (int k : kinds) c.label(std::string("target ") + tgName(k));
  c.label(std::string("lifecycle ") + lcName(plan.lifecycle));
  {
    std::lock_guard<std::mutex> lk(peers.mu);
    if (peers.conns.size() > handed.size()) c.label("raw peer saw a connection of a failed attempt closed");
  }
  if (shortOnLive) c.label("timeout <= 2 ms against a completing target");
  // non-trivial: the completion can fall within ~2 ms of the expiry (short timeout on a live target)
  if (shortOnLive || nCancelled || plan.lifecycle != 0) c.nontrivial(pbt::hash64(describe(plan)));
}

RealPlan genReal(pbt::Src &src)
{
  RealPlan p;
  std::size_t n = src.weighted({3, 2, 2, 1, 1, 1, 1, 1}) + 1;
  bool excludeS3 = pbt::isKnown("C04/global-onClose-for-unreturned-session");
  for (std::size_t i = 0; i < n; ++i)
  {
    RealCaller rc;
    rc.target = static_cast<int>(src.weighted({8, 2, 2, 3, 1}));
    // known finding (stale epoll events after fd reuse): needs sockets with pending HUP/ERR that the
    // timeout path closes - only the resetting peer produces them
    if (pbt::isKnown("C04/handed-session-closed-without-peer-or-app-close") && rc.target == TgRst) rc.target = TgAccept;
    rc.timeoutMs = src.oneOf<unsigned>({0, 0, 1, 1, 2, 5, 20, 100});
    if (excludeS3 && (rc.target == TgAccept || rc.target == TgRst)) rc.timeoutMs = 100 + rc.timeoutMs; // known finding: keep the expiry away from the completion
    rc.startDelayUs = static_cast<unsigned>(src.range(0, 500));
    rc.calls = static_cast<unsigned>(src.range(1, 4));
    rc.cancellable = src.coin(1, 5);
    if (rc.cancellable)
    {
      rc.doCancel = src.coin(2, 3);
      rc.cancelAtUs = static_cast<unsigned>(src.range(0, rc.timeoutMs * 1000 + 500));
      rc.calls = 1;
    }
    p.callers.push_back(rc);
  }
  p.lifecycle = static_cast<int>(src.weighted({7, 2, 1}));
  if (p.lifecycle != 0)
    for (auto &rc : p.callers)
    {
      // nobody processes commands while the calls run: every call waits its full timeout - keep them short
      if (rc.timeoutMs > 20) rc.timeoutMs = 20;
      if (rc.calls > 2) rc.calls = 2;
      if (rc.target != TgAccept && rc.target != TgRst && rc.target != TgRefuse) rc.target = TgAccept;
      if (rc.cancellable) rc.cancelAtUs = rc.cancelAtUs % (rc.timeoutMs * 1000 + 500);
    }
  return p;
}

} // namespace

PBT_PROPERTY(real)
{
  RealPlan p = genReal(src);
  runReal(c, p);
}

PBT_REGRESSION(real_zero_timeout_on_listening_port)
{
  // S3 against the real engine: many 0/1 ms connectSync calls to a listening port; no global
  // callback may ever mention a session that was not returned
  RealPlan p;
  for (int i = 0; i < 6; ++i)
  {
    RealCaller rc;
    rc.target = TgAccept;
    rc.timeoutMs = i % 2;
    rc.calls = 25;
    p.callers.push_back(rc);
  }
  runReal(c, p);
}
PBT_REGRESSION(real_fd_reuse_neighbour_survives)
{
  // timed-out attempts against a resetting peer (their sockets carry EPOLLHUP|EPOLLERR) are closed
  // by the timeout path while other callers connect to a healthy peer: a healthy session must
  // never be reported closed because it inherited the fd number of a just-closed one
  RealPlan p;
  for (int i = 0; i < 7; ++i)
  {
    RealCaller rc;
    rc.target = i < 4 ? TgRst : TgAccept;
    rc.timeoutMs = i < 4 ? static_cast<unsigned>(i % 2) : 100;
    rc.startDelayUs = static_cast<unsigned>(i * 37);
    rc.calls = 40;
    p.callers.push_back(rc);
  }
  runReal(c, p);
}
PBT_REGRESSION(real_prestart_timeout_leaves_nothing_open)
{
  // connectSync on a transport that has not been started yet: the Connect is queued, the call times out;
  // after start() and a later command the queued attempt must not leave a connection open at the peer
  RealPlan p;
  p.lifecycle = 1;
  for (int i = 0; i < 2; ++i)
  {
    RealCaller rc;
    rc.target = TgAccept;
    rc.timeoutMs = 5;
    rc.calls = 2;
    p.callers.push_back(rc);
  }
  runReal(c, p);
}
PBT_REGRESSION(real_stopped_then_restarted)
{
  RealPlan p;
  p.lifecycle = 2;
  RealCaller rc;
  rc.target = TgAccept;
  rc.timeoutMs = 5;
  rc.calls = 2;
  p.callers.push_back(rc);
  runReal(c, p);
}
PBT_REGRESSION(real_targets_definite_errors)
{
  RealPlan p;
  for (int t : {TgAccept, TgRefuse, TgBlackHole, TgRst, TgUnroutable})
  {
    RealCaller rc;
    rc.target = t;
    rc.timeoutMs = 20;
    rc.calls = 2;
    p.callers.push_back(rc);
  }
  runReal(c, p);
}

PBT_PROPERTY(teardown)
{
  SchedPlan p = genTeardown(src);
  runTeardown(c, p);
}

PBT_REGRESSION(teardown_right_after_onconnect)
{
  // the I/O thread resolves the parked caller's attempt to ok(sid) and erases the registration; while it
  // still holds the sync mutex the owner drops the last reference (queues on the mutex), sets the
  // shutting-down fence as soon as the handler releases it, and only then does the woken caller run.
  // Both outcomes are legal (ok, or an error with the close suppressed) - an error PLUS the global
  // onClose for that id is not.
  SchedPlan p;
  CallerPlan cp;
  Attempt a;
  a.timeoutMs = 3000;
  a.outcome = OutConnect;
  a.phase = PhParked;
  a.delayUs = 300;
  cp.attempts.push_back(a);
  p.callers.push_back(cp);
  p.dropOwner = true;
  p.trigger = 1;
  p.victim = 0;
  p.ownerDelayUs = 30;
  p.holdBeforeUs = 400;
  p.holdAfterUs = 400;
  runTeardown(c, p);
}

PBT_REGRESSION(teardown_while_inside_timeout_close)
{
  // the caller timed out and is INSIDE engine->close(sid) (no transport lock held) when the owner drops the last
  // reference: ~Transport must wait for that call - it still touches the sync mutex and Impl afterwards
  SchedPlan p;
  CallerPlan cp;
  Attempt a;
  a.timeoutMs = 0;
  a.outcome = OutHole;
  cp.attempts.push_back(a);
  p.callers.push_back(cp);
  p.dropOwner = true;
  p.trigger = 3;
  p.victim = 0;
  runTeardown(c, p);
}
PBT_REGRESSION(teardown_between_timeout_close_and_relock)
{
  SchedPlan p;
  CallerPlan cp;
  Attempt a;
  a.timeoutMs = 1;
  a.outcome = OutHole;
  cp.attempts.push_back(a);
  p.callers.push_back(cp);
  p.dropOwner = true;
  p.trigger = 4;
  p.victim = 0;
  runTeardown(c, p);
}

PBT_REGRESSION(onconnect_between_fence_and_engine_stop)
{
  // the owner drops the last reference while the caller is parked: the fence wakes the caller, which returns
  // ShuttingDown; the engine is still running (its stop() has not been reached yet) and reports onConnect for
  // that attempt, then the shutdown drain closes the session. The close must stay suppressed.
  SchedPlan p;
  CallerPlan cp;
  Attempt a;
  a.timeoutMs = 3000;
  a.outcome = OutConnect;
  a.phase = PhParked;
  a.delayUs = 300;
  cp.attempts.push_back(a);
  p.callers.push_back(cp);
  p.dropOwner = true;
  p.trigger = 1;
  p.victim = 0;
  p.ownerDelayUs = 0;
  p.holdNth = 1;     // pause right after the fake released its own mutex, before it invokes the transport's handler:
  p.holdBeforeUs = 0; // the owner gets through the fence and into engine->stop() in the meantime
  p.holdAfterUs = 800;
  runTeardown(c, p);
}

PBT_REGRESSION(prestart_timeout_issues_close)
{
  // connectSync before the first start(): the engine accepts and queues the Connect; the timed-out call must
  // still queue the Close behind it, or the attempt is executed after start() and left open
  SchedPlan p;
  CallerPlan cp;
  Attempt a;
  a.timeoutMs = 1;
  a.outcome = OutHole;
  a.closeProc = CpAfterReturn;
  cp.attempts.push_back(a);
  cp.attempts.push_back(a);
  p.callers.push_back(cp);
  p.preStart = true;
  runSched(c, p);
}

PBT_REGRESSION(late_onconnect_inside_timeout_close)
{
  // S3: timeout 0; the engine's onConnect lands INSIDE the close(sid) call connectSync makes
  // after its timeout; the engine then processes the close and reports onClose(sid).
  SchedPlan p;
  CallerPlan cp;
  Attempt a;
  a.timeoutMs = 0;
  a.outcome = OutConnect;
  a.phase = PhInClose;
  a.closeProc = CpInsideCall;
  cp.attempts.push_back(a);
  p.callers.push_back(cp);
  runSched(c, p);
}
PBT_REGRESSION(late_onconnect_after_return)
{
  SchedPlan p;
  CallerPlan cp;
  Attempt a;
  a.timeoutMs = 0;
  a.outcome = OutConnect;
  a.phase = PhAfterReturn;
  a.closeProc = CpAfterReturn;
  cp.attempts.push_back(a);
  p.callers.push_back(cp);
  runSched(c, p);
}
PBT_REGRESSION(cancel_between_sub_attempts)
{
  SchedPlan p;
  CallerPlan cp;
  cp.cancellable = true;
  cp.totalTimeoutMs = 220;
  cp.doCancel = true;
  cp.cancelAtUs = 30000;
  Attempt a;
  a.timeoutMs = 0;
  a.outcome = OutHole;
  cp.attempts.push_back(a);
  p.callers.push_back(cp);
  runSched(c, p);
  bool sawCancelled = std::find(c.labels.begin(), c.labels.end(), "Cancelled returned") != c.labels.end();
  if (!c.failed() && !sawCancelled) c.label("note: cancel did not produce Cancelled");
}
PBT_REGRESSION(connect_while_parked_ok)
{
  SchedPlan p;
  CallerPlan cp;
  Attempt a;
  a.timeoutMs = 3000;
  a.outcome = OutConnect;
  a.phase = PhInConnect;
  cp.attempts.push_back(a);
  p.callers.push_back(cp);
  runSched(c, p);
}

PBT_MAIN()
