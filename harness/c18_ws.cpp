// C18 - WebSocket framing round-trips and reassembles under any segmentation.
//   frame_roundtrip : every opcode x length class x mask x FIN -> serialize() must equal the
//                     reference encoding byte for byte, parse() must give the frame back with
//                     consumed == size, every proper prefix is "incomplete" with consumed == 0
//   server_segments : protocol-aware masked stream -> ALL single cuts + byte-wise + random
//                     multi-cuts, fed in-process to a WebSocketServer subclass; delivered
//                     messages / close callback must equal the generator's list for every cut
//   client_segments : same, unmasked, into WebSocketClient::handleData (hook H3)
//   (further properties are added below: wire capture over loopback, hostile headers)
#include "c18_gen_ws.hpp"
#include "c18_ref_ws.hpp"
#include "pbt.hpp"

#include <iora/network/websocket_client.hpp>
#include <iora/network/websocket_frame.hpp>
#include <iora/network/websocket_server.hpp>

#include <cstring>
#include <memory>

namespace ws = iora::network;
using c18::Msg;
using c18::Stream;

// ---------------------------------------------------------------------------------------
// hook H3 (hooks/C18-ws-client-probe.diff): friend probe for the client's private data path
// ---------------------------------------------------------------------------------------
#ifdef JOEGEN_IORA_VERIF_WS_CLIENT_PROBE
namespace iora
{
namespace verif
{
struct WebSocketClientProbe
{
  /// put a never-connected client into the state it has right after a successful upgrade
  static void prime(ws::WebSocketClient &cl)
  {
    cl._upgradeComplete.store(true);
    cl._state.store(ws::WebSocketState::CONNECTED);
  }
  static void feed(ws::WebSocketClient &cl, const std::uint8_t *p, std::size_t n) { cl.handleData(0, p, n); }
  static std::size_t buffered(ws::WebSocketClient &cl)
  {
    std::lock_guard<std::mutex> g(cl._dataMutex);
    return cl._buffer.size() + cl._fragmentBuffer.size();
  }
};
} // namespace verif
} // namespace iora
using iora::verif::WebSocketClientProbe;
#endif

namespace
{

// exact-size heap copy so that ASan sees any read past the end
struct ExactBuf
{
  std::unique_ptr<std::uint8_t[]> p;
  std::size_t n;
  explicit ExactBuf(std::string_view s) : p(new std::uint8_t[s.size() ? s.size() : 1]), n(s.size())
  {
    if (n) std::memcpy(p.get(), s.data(), n);
  }
  iora::core::BufferView view() const { return iora::core::BufferView(p.get(), n); }
};

void quietLogs()
{
  static bool done = false;
  if (!done)
  {
    iora::core::Logger::setLevel(iora::core::Logger::Level::Fatal);
    done = true;
  }
}

std::string showMsg(const Msg &m)
{
  return std::string(m.text ? "text(" : "binary(") + std::to_string(m.payload.size()) + "B " + pbt::hex(m.payload, 16) + ")";
}

std::string showMsgs(const std::vector<Msg> &v)
{
  std::string o = "[";
  for (std::size_t i = 0; i < v.size(); ++i) o += (i ? ", " : "") + showMsg(v[i]);
  return o + "]";
}

std::string showCuts(const std::vector<std::size_t> &cuts)
{
  std::string o = "cuts{";
  for (std::size_t i = 0; i < cuts.size() && i < 12; ++i) o += (i ? "," : "") + std::to_string(cuts[i]);
  if (cuts.size() > 12) o += ",...(" + std::to_string(cuts.size()) + ")";
  return o + "}";
}

/// what an endpoint did with one segmented feed of a stream
struct Outcome
{
  std::vector<Msg> msgs;
  int closeCallbacks = 0;
  std::uint16_t closeCode = 0;
  std::string closeReason;
  int errors = 0;
  int closeSessionCalls = 0;
  bool active = true; // endpoint still willing to send data afterwards
  bool threw = false;
  std::string what;
};

// ------------------------------------------------------------------ in-process server
class ProbeServer : public ws::WebSocketServer
{
public:
  ProbeServer() : ws::WebSocketServer("127.0.0.1", 1)
  {
    setOnTextMessage([this](ws::SessionId, const std::string &t) { if (out) out->msgs.push_back(Msg{true, t}); });
    setOnBinaryMessage([this](ws::SessionId, const std::vector<std::uint8_t> &b)
                       { if (out) out->msgs.push_back(Msg{false, std::string(b.begin(), b.end())}); });
    setOnClose([this](ws::SessionId, std::uint16_t code, const std::string &reason)
               {
                 if (!out) return;
                 ++out->closeCallbacks;
                 out->closeCode = code;
                 out->closeReason = reason;
               });
    setOnError([this](ws::SessionId, const std::string &) { if (out) ++out->errors; });
  }

  /// (re)create the WebSocket session state for `sid` through the real upgrade hook
  bool open(ws::SessionId sid)
  {
    Request req;
    req.method = iora::network::HttpMethod::GET;
    req.path = "/ws";
    req.headers["Upgrade"] = "websocket";
    req.headers["Connection"] = "Upgrade";
    req.headers["Sec-WebSocket-Key"] = "dGhlIHNhbXBsZSBub25jZQ==";
    req.headers["Sec-WebSocket-Version"] = "13";
    req.sid = sid;
    Response res;
    bool handled = onUpgradeRequest(sid, req, res);
    return handled && res.status == 101 && res.headers["Sec-WebSocket-Accept"] == "s3pPLMBiTxaQ9kYGzzhZRbK+xOo=";
  }
  void feed(ws::SessionId sid, const std::uint8_t *p, std::size_t n) { onUpgradedData(sid, p, n); }
  void closeSession(ws::SessionId) override { if (out) ++out->closeSessionCalls; }

  Outcome *out = nullptr;
};

ProbeServer &probeServer()
{
  static ProbeServer *s = [] { quietLogs(); return new ProbeServer; }();
  return *s;
}

constexpr ws::SessionId kSid = 4242;

/// feed `wire` cut at `cuts` to a fresh server session
Outcome runServer(const std::string &wire, const std::vector<std::size_t> &cuts, std::size_t maxFrame = 16u << 20)
{
  Outcome o;
  ProbeServer &srv = probeServer();
  srv.setMaxFrameSize(maxFrame);
  srv.out = &o;
  if (!srv.open(kSid))
  {
    o.threw = true;
    o.what = "upgrade of the in-process session failed";
    srv.out = nullptr;
    return o;
  }
  try
  {
    std::size_t from = 0;
    for (std::size_t k = 0; k <= cuts.size(); ++k)
    {
      std::size_t to = k < cuts.size() ? cuts[k] : wire.size();
      ExactBuf seg(std::string_view(wire).substr(from, to - from));
      srv.feed(kSid, seg.p.get(), seg.n);
      from = to;
    }
  }
  catch (const std::exception &e)
  {
    o.threw = true;
    o.what = std::string("exception left onUpgradedData: ") + e.what();
  }
  catch (...)
  {
    o.threw = true;
    o.what = "unknown exception left onUpgradedData";
  }
  o.active = srv.isSessionActive(kSid);
  srv.out = nullptr;
  return o;
}

#ifdef JOEGEN_IORA_VERIF_WS_CLIENT_PROBE
Outcome runClient(const std::string &wire, const std::vector<std::size_t> &cuts)
{
  quietLogs();
  Outcome o;
  auto cl = ws::WebSocketClient::create();
  cl->setOnTextMessage([&o](const std::string &t) { o.msgs.push_back(Msg{true, t}); });
  cl->setOnBinaryMessage([&o](const std::vector<std::uint8_t> &b) { o.msgs.push_back(Msg{false, std::string(b.begin(), b.end())}); });
  cl->setOnClose([&o](std::uint16_t code, const std::string &reason)
                 {
                   ++o.closeCallbacks;
                   o.closeCode = code;
                   o.closeReason = reason;
                 });
  cl->setOnError([&o](const std::string &) { ++o.errors; });
  WebSocketClientProbe::prime(*cl);
  try
  {
    std::size_t from = 0;
    for (std::size_t k = 0; k <= cuts.size(); ++k)
    {
      std::size_t to = k < cuts.size() ? cuts[k] : wire.size();
      ExactBuf seg(std::string_view(wire).substr(from, to - from));
      WebSocketClientProbe::feed(*cl, seg.p.get(), seg.n);
      from = to;
    }
  }
  catch (const std::exception &e)
  {
    o.threw = true;
    o.what = std::string("exception left handleData: ") + e.what();
  }
  catch (...)
  {
    o.threw = true;
    o.what = "unknown exception left handleData";
  }
  o.active = cl->getState() == ws::WebSocketState::CONNECTED;
  return o;
}
#endif

/// the segmentation-independent delivery oracle. `side` is "server" or "client".
/// Returns false (and reports) on the first violation.
bool judge(pbt::Case &c, const std::string &side, const Stream &s, const Outcome &o, const std::string &seg)
{
  const std::string P = "C18/" + side + "/";
  if (o.threw)
  {
    c.fail(P + "exception", o.what + " [" + seg + "]");
    return false;
  }
  // invalid UTF-8 text must never reach the application
  if (s.hasInvalidText)
    for (auto &m : o.msgs)
      if (m.text && m.payload == s.invalidPayload)
      {
        c.fail(P + "invalid-utf8-delivered", "a text message that is not UTF-8 was delivered: " + showMsg(m) + " [" + seg + "]");
        return false;
      }
  if (o.msgs != s.expect)
  {
    // classify the shape of the difference for a specific signature
    std::string shape = "messages-differ";
    if (o.msgs.size() < s.expect.size() && std::equal(o.msgs.begin(), o.msgs.end(), s.expect.begin())) shape = "messages-missing";
    else if (o.msgs.size() > s.expect.size() && std::equal(s.expect.begin(), s.expect.end(), o.msgs.begin())) shape = "messages-extra";
    c.fail(P + shape, "delivered " + showMsgs(o.msgs) + " expected " + showMsgs(s.expect) + " [" + seg + "]");
    return false;
  }
  if (s.hasClose)
  {
    if (o.closeCallbacks != 1)
    {
      c.fail(P + "close-callback-count", pbt::Fmt() << "close frame received, close callback fired " << o.closeCallbacks << " times [" << seg << "]");
      return false;
    }
    if (o.closeCode != s.closeCode || o.closeReason != s.closeReason)
    {
      c.fail(P + "close-payload", pbt::Fmt() << "close callback got code " << o.closeCode << " reason " << pbt::show(o.closeReason, 40) << ", sent code "
                                             << s.closeCode << " reason " << pbt::show(s.closeReason, 40) << " [" << seg << "]");
      return false;
    }
  }
  else if (o.closeCallbacks != 0)
  {
    c.fail(P + "spurious-close", "close callback without a close frame [" + seg + "]");
    return false;
  }
  return true;
}

void labelStream(pbt::Case &c, const Stream &s)
{
  if (s.fragmentedMsgs) c.label("fragmented message");
  if (s.controlInsideMsg) c.label("control frame between fragments");
  if (s.emptyFragments) c.label("empty fragment");
  if (s.splitCodePoints) c.label("fragment boundary inside a UTF-8 sequence");
  if (s.extLen16) c.label("16-bit length frame");
  if (s.extLen64) c.label("64-bit length frame");
  if (s.hasClose) c.label("ends with close frame");
  if (s.hasInvalidText) c.label("invalid UTF-8 text message");
  if (!s.pings.empty()) c.label("has ping");
}

using Runner = Outcome (*)(const std::string &, const std::vector<std::size_t> &);

/// all single cuts + byte-wise + random multi-cuts of one generated stream through `run`
void segmentationProperty(pbt::Src &src, pbt::Case &c, const std::string &side, bool masked,
                          Outcome (*run)(const std::string &, const std::vector<std::size_t> &))
{
  c18::GenOpts go;
  go.masked = masked;
  go.allowInvalidUtf8 = !pbt::isKnown("C18/" + side + "/invalid-utf8-delivered");
  Stream s = c18::genStream(src, go);
  c.describe(side + " <- " + s.describe());
  labelStream(c, s);
  if (!go.allowInvalidUtf8) c.label("excluded by known finding: invalid UTF-8 text");

  // unsegmented first: isolates reassembly errors from segmentation errors
  if (!judge(c, side, s, run(s.wire, {}), "whole stream in one read")) return;

  std::vector<std::size_t> cuts = c18::singleCuts(src, s);
  bool headerCut = false;
  for (std::size_t cut : cuts)
  {
    if (c18::cutInsideHeader(s, cut)) headerCut = true;
    if (!judge(c, side, s, run(s.wire, {cut}), "single cut at byte " + std::to_string(cut))) return;
  }
  if (s.wire.size() <= 3000)
  {
    std::vector<std::size_t> every;
    for (std::size_t i = 1; i < s.wire.size(); ++i) every.push_back(i);
    if (!judge(c, side, s, run(s.wire, every), "one byte per read")) return;
  }
  for (int k = 0; k < 4; ++k)
  {
    auto mc = c18::multiCut(src, s.wire.size(), k < 2 ? 4 : 24);
    if (!judge(c, side, s, run(s.wire, mc), showCuts(mc))) return;
  }
  if (headerCut) c.label("cut inside a frame header");
  // the property's stated non-trivial rule
  if (s.fragmentedMsgs && s.controlInsideMsg && headerCut) c.nontrivial(pbt::hash64(s.wire));
}

} // namespace

// ------------------------------------------------------------------------ frame_roundtrip
PBT_PROPERTY(frame_roundtrip)
{
  refws::Frame rf;
  // opcode: the six defined ones mostly, every reserved value as well
  if (src.coin(4, 5)) rf.opcode = src.oneOf<std::uint8_t>({0x0, 0x1, 0x2, 0x8, 0x9, 0xA});
  else rf.opcode = src.oneOf<std::uint8_t>({0x3, 0x4, 0x5, 0x6, 0x7, 0xB, 0xC, 0xD, 0xE, 0xF});
  rf.fin = src.coin(2, 3);
  std::size_t n;
  switch (src.weighted({6, 4, 3, 2, 2}))
  {
  case 0: n = src.oneOf<std::size_t>({0, 1, 2, 3, 4, 5, 124, 125, 126, 127, 128}); break;
  case 1: n = static_cast<std::size_t>(src.sized(0, 300)); break;
  case 2: n = src.oneOf<std::size_t>({65534, 65535, 65536, 65537, 70000}); break;
  case 3: n = static_cast<std::size_t>(src.range(129, 65535)); break;
  default: n = static_cast<std::size_t>(src.range(65536, 200000)); break;
  }
  const bool control = refws::isControlOpcode(rf.opcode);
  bool strictDomain = true; // frames RFC 6455 allows on the wire
  if (control)
  {
    if (src.coin(9, 10))
    {
      // valid control frame: FIN set, at most 125 bytes
      rf.fin = true;
      if (n > 125) n = n % 126;
    }
    else
      strictDomain = rf.fin && n <= 125;
  }
  rf.masked = src.coin();
  if (rf.masked && !src.coin(1, 8))
    for (auto &k : rf.key) k = static_cast<std::uint8_t>(src.range(0, 255));
  {
    // payload bytes: cheap LCG seeded from the source (every byte value occurs)
    std::uint32_t x = static_cast<std::uint32_t>(src.range(0, 0x7fffffff));
    rf.payload.resize(n);
    for (auto &ch : rf.payload)
    {
      x = x * 1664525u + 1013904223u;
      ch = static_cast<char>(x >> 24);
    }
  }
  const bool reserved = !refws::isDefinedOpcode(rf.opcode);
  c.describe(pbt::Fmt() << "opcode=0x" << std::hex << int(rf.opcode) << std::dec << " fin=" << rf.fin << " masked=" << rf.masked << " key="
                        << pbt::hex(std::string(reinterpret_cast<const char *>(rf.key), 4)) << " len=" << n << " payload=" << pbt::hex(rf.payload, 16));
  c.label(std::string("opcode ") + refws::opName(rf.opcode));
  c.label(n <= 125 ? "7-bit length" : n <= 0xFFFF ? "16-bit length" : "64-bit length");
  c.label(rf.masked ? "masked" : "unmasked");
  if (!rf.fin) c.label("FIN clear");
  if (!strictDomain) c.label("control frame outside RFC limits (>125 bytes or FIN clear)");
  c.nontrivial(pbt::hashMix(pbt::hash64(rf.payload), (std::uint64_t(rf.opcode) << 8) | (rf.fin ? 2 : 0) | (rf.masked ? 1 : 0)));

  ws::WebSocketFrame f;
  f.fin = rf.fin;
  f.opcode = static_cast<ws::WsOpcode>(rf.opcode);
  f.masked = rf.masked;
  std::memcpy(f.maskKey, rf.key, 4);
  f.payload.assign(rf.payload.begin(), rf.payload.end());

  std::vector<std::uint8_t> wire;
  try
  {
    wire = f.serialize(rf.masked);
  }
  catch (const std::exception &e)
  {
    c.fail("C18/frame/serialize-exception", e.what());
    return;
  }
  const std::string wireStr(wire.begin(), wire.end());
  // construction oracle: the bytes on the wire are exactly the RFC 6455 encoding
  const std::string expectWire = refws::encode(rf);
  if (wireStr != expectWire)
  {
    std::size_t at = 0;
    while (at < wireStr.size() && at < expectWire.size() && wireStr[at] == expectWire[at]) ++at;
    c.fail(at < 14 ? "C18/frame/serialize-header" : "C18/frame/serialize-payload",
           pbt::Fmt() << "serialize() differs from the reference encoding at byte " << at << " (sizes " << wireStr.size() << " vs " << expectWire.size()
                      << "): got " << pbt::hex(wireStr.substr(at > 4 ? at - 4 : 0, 16)) << " expected " << pbt::hex(expectWire.substr(at > 4 ? at - 4 : 0, 16)));
    return;
  }

  auto parseAt = [&](std::size_t k, std::size_t &consumed, bool &threw, std::string &what) -> std::optional<ws::WebSocketFrame>
  {
    ExactBuf buf(std::string_view(wireStr).substr(0, k));
    threw = false;
    try
    {
      return ws::WebSocketFrame::parse(buf.view(), consumed);
    }
    catch (const std::exception &e)
    {
      threw = true;
      what = e.what();
    }
    catch (...)
    {
      threw = true;
      what = "unknown exception";
    }
    return std::nullopt;
  };

  std::size_t consumed = 12345;
  bool threw = false;
  std::string what;
  auto back = parseAt(wireStr.size(), consumed, threw, what);
  if (threw)
  {
    c.fail("C18/frame/parse-exception", "parse threw on a serialised frame: " + what);
    return;
  }
  if (!strictDomain || reserved)
  {
    // outside the frames an endpoint may legally emit: rejecting is fine, but a frame that IS
    // returned must be the right one
    if (!back)
    {
      c.label(reserved ? "reserved opcode rejected by parse" : "invalid control frame rejected by parse");
      return;
    }
  }
  if (!back)
  {
    c.fail("C18/frame/roundtrip-incomplete", pbt::Fmt() << "parse(serialize(f)) reports 'incomplete' for a complete frame of " << wireStr.size() << " bytes");
    return;
  }
  if (consumed != wireStr.size())
  {
    c.fail("C18/frame/roundtrip-consumed", pbt::Fmt() << "consumed " << consumed << " != frame size " << wireStr.size());
    return;
  }
  if (back->fin != rf.fin || static_cast<std::uint8_t>(back->opcode) != rf.opcode || back->masked != rf.masked ||
      (rf.masked && std::memcmp(back->maskKey, rf.key, 4) != 0))
  {
    c.fail("C18/frame/roundtrip-header", pbt::Fmt() << "header fields differ: fin " << back->fin << " opcode " << int(static_cast<std::uint8_t>(back->opcode))
                                                    << " masked " << back->masked);
    return;
  }
  if (back->payload.size() != rf.payload.size() || std::memcmp(back->payload.data(), rf.payload.data(), rf.payload.size()) != 0)
  {
    std::size_t at = 0;
    while (at < back->payload.size() && at < rf.payload.size() && static_cast<char>(back->payload[at]) == rf.payload[at]) ++at;
    c.fail("C18/frame/roundtrip-payload", pbt::Fmt() << "payload differs at byte " << at << " (sizes " << back->payload.size() << " vs " << rf.payload.size() << ")");
    return;
  }
  // every proper prefix is incomplete and consumes nothing
  std::vector<std::size_t> ks;
  const std::size_t N = wireStr.size();
  if (N <= 2048)
    for (std::size_t k = 0; k < N; ++k) ks.push_back(k);
  else
  {
    for (std::size_t k = 0; k < 96; ++k) ks.push_back(k);
    for (std::size_t k = N - 48; k < N; ++k) ks.push_back(k);
    for (int i = 0; i < 32; ++i) ks.push_back(static_cast<std::size_t>(src.range(96, static_cast<std::int64_t>(N) - 49)));
  }
  for (std::size_t k : ks)
  {
    std::size_t cons = 777;
    auto p = parseAt(k, cons, threw, what);
    if (threw)
    {
      c.fail("C18/frame/parse-exception", pbt::Fmt() << "parse threw on the " << k << "-byte prefix: " << what);
      return;
    }
    if (p)
    {
      c.fail("C18/frame/prefix-complete", pbt::Fmt() << "the " << k << "-byte proper prefix of a " << N << "-byte frame parsed as a complete frame (payload "
                                                     << p->payload.size() << " bytes, consumed " << cons << ")");
      return;
    }
    if (cons != 0)
    {
      c.fail("C18/frame/prefix-consumed", pbt::Fmt() << "incomplete prefix (" << k << " of " << N << " bytes) reported consumed=" << cons);
      return;
    }
  }
}

// ------------------------------------------------------------------------ server_segments
PBT_PROPERTY(server_segments)
{
  segmentationProperty(src, c, "server", true, [](const std::string &w, const std::vector<std::size_t> &cuts) { return runServer(w, cuts); });
}

// ------------------------------------------------------------------------ client_segments
PBT_PROPERTY(client_segments)
{
#ifdef JOEGEN_IORA_VERIF_WS_CLIENT_PROBE
  segmentationProperty(src, c, "client", false, runClient);
#else
  c.label("hook H3 (hooks/C18-ws-client-probe.diff) not applied: client data path not reachable in-process");
#endif
}

PBT_MAIN()
