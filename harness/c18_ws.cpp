// C18 - WebSocket framing round-trips and reassembles under any segmentation.
//   frame_roundtrip : every opcode x length class x mask x FIN -> serialize() must equal the
//                     reference encoding byte for byte, parse() must give the frame back with
//                     consumed == size, every proper prefix is "incomplete" with consumed == 0
//   server_segments : protocol-aware masked stream -> ALL single cuts + byte-wise + random
//                     multi-cuts, fed in-process to a WebSocketServer subclass; delivered
//                     messages / close callback must equal the generator's list for every cut
//   client_segments : same, unmasked, into WebSocketClient::handleData (hook H3)
//   server_wire     : real loopback connection, raw-socket peer with an exact per-segment read
//   client_wire       barrier, application sends interleaved; capture of everything the endpoint
//                     puts on the wire: pongs == pings, sends intact and in order, no data frame
//                     behind the endpoint's close frame; deliveries as above
//   *_close_race    : 1-4 application threads hammer sendText/sendBinary while the close
//                     handshake starts (application / peer close frame / invalid text)
//   hostile         : declared lengths up to 2^64-1 and beyond maxFrameSize, illegal control
//                     frames, endless fragments, mutated streams: no exception, bounded single
//                     allocations (ASan allocator hooks), no buffering behind an unacceptable frame
//   + 18 PBT_REGRESSION cases (replays/C18). See props/C18.notes.md.
#include "c18_gen_ws.hpp"
#include "c18_inproc.hpp"
#include "c18_rawpeer.hpp"
#include "c18_ref_ws.hpp"
#include "pbt.hpp"

#include <algorithm>
#include <atomic>
#include <cstring>
#include <memory>
#include <mutex>
#include <thread>

using c18::Stream;
using namespace c18in;
#ifdef JOEGEN_IORA_VERIF_WS_CLIENT_PROBE
using iora::verif::WebSocketClientProbe;
#endif


namespace
{

std::string showMsg(const Msg &m)
{
  return std::string(m.text ? "text(" : "binary(") + std::to_string(m.payload.size()) + "B " + pbt::hex(m.payload, 16) + ")";
}

std::string showMsgs(const std::vector<Msg> &v)
{
  std::string o = "[";
  for (std::size_t i = 0; i < v.size(); ++i) o += (i ? ", " : "") + showMsg(v[i]);
  return o + "]";
}

std::string showCuts(const std::vector<std::size_t> &cuts)
{
  std::string o = "cuts{";
  for (std::size_t i = 0; i < cuts.size() && i < 12; ++i) o += (i ? "," : "") + std::to_string(cuts[i]);
  if (cuts.size() > 12) o += ",...(" + std::to_string(cuts.size()) + ")";
  return o + "}";
}

/// the segmentation-independent delivery oracle. `side` is "server" or "client".
/// Returns false (and reports) on the first violation.
bool judge(pbt::Case &c, const std::string &side, const Stream &s, const Outcome &o, const std::string &seg)
{
  const std::string P = "C18/" + side + "/";
  if (o.threw)
  {
    c.fail(P + "exception", o.what + " [" + seg + "]");
    return false;
  }
  // invalid UTF-8 text must never reach the application
  if (s.hasInvalidText)
    for (auto &m : o.msgs)
      if (m.text && m.payload == s.invalidPayload)
      {
        c.fail(P + "invalid-utf8-delivered", "a text message that is not UTF-8 was delivered: " + showMsg(m) + " [" + seg + "]");
        return false;
      }
  // a message one byte above the configured maximum must never reach the application
  if (s.hasOversized)
    for (auto &m : o.msgs)
      if (m.payload == s.oversizedPayload)
      {
        c.fail(P + "oversized-message-delivered", pbt::Fmt() << "a message of " << m.payload.size() << " bytes, one more than the configured maximum, was delivered [" << seg << "]");
        return false;
      }
  if (o.msgs != s.expect)
  {
    // classify the shape of the difference for a specific signature
    std::string shape = "messages-differ";
    if (o.msgs.size() < s.expect.size() && std::equal(o.msgs.begin(), o.msgs.end(), s.expect.begin())) shape = "messages-missing";
    else if (o.msgs.size() > s.expect.size() && std::equal(s.expect.begin(), s.expect.end(), o.msgs.begin())) shape = "messages-extra";
    c.fail(P + shape, "delivered " + showMsgs(o.msgs) + " expected " + showMsgs(s.expect) + " [" + seg + "]");
    return false;
  }
  if (s.hasInvalidText || s.hasOversized)
  {
    // the endpoint fails the connection itself (1007/1009); whether it still reports the peer's
    // later close frame to the application is not part of the property
  }
  else if (s.hasClose)
  {
    if (o.closeCallbacks != 1)
    {
      c.fail(P + "close-callback-count", pbt::Fmt() << "close frame received, close callback fired " << o.closeCallbacks << " times [" << seg << "]");
      return false;
    }
    if (o.closeCode != s.closeCode || o.closeReason != s.closeReason)
    {
      c.fail(P + "close-payload", pbt::Fmt() << "close callback got code " << o.closeCode << " reason " << pbt::show(o.closeReason, 40) << ", sent code "
                                             << s.closeCode << " reason " << pbt::show(s.closeReason, 40) << " [" << seg << "]");
      return false;
    }
  }
  else if (o.closeCallbacks != 0)
  {
    c.fail(P + "spurious-close", "close callback without a close frame [" + seg + "]");
    return false;
  }
  return true;
}

void labelStream(pbt::Case &c, const Stream &s)
{
  if (s.fragmentedMsgs) c.label("fragmented message");
  if (s.controlInsideMsg) c.label("control frame between fragments");
  if (s.emptyFragments) c.label("empty fragment");
  if (s.splitCodePoints) c.label("fragment boundary inside a UTF-8 sequence");
  if (s.extLen16) c.label("16-bit length frame");
  if (s.extLen64) c.label("64-bit length frame");
  if (s.hasClose) c.label("ends with close frame");
  if (s.hasInvalidText) c.label("invalid UTF-8 text message");
  if (!s.pings.empty()) c.label("has ping");
}

using Runner = Outcome (*)(const std::string &, const std::vector<std::size_t> &);

/// all single cuts + byte-wise + random multi-cuts of one generated stream through `run`
void segmentationProperty(pbt::Src &src, pbt::Case &c, const std::string &side, bool masked,
                          Outcome (*run)(const std::string &, const std::vector<std::size_t> &),
                          Outcome (*runWithUpgrade)(const std::string &, const std::vector<std::size_t> &) = nullptr, const std::string &upgradeResponse = std::string())
{
  c18::GenOpts go;
  go.masked = masked;
  go.allowInvalidUtf8 = !pbt::isKnown("C18/" + side + "/invalid-utf8-delivered");
  Stream s = c18::genStream(src, go);
  c.describe(side + " <- " + s.describe());
  labelStream(c, s);
  if (!go.allowInvalidUtf8) c.label("excluded by known finding: invalid UTF-8 text");

  // unsegmented first: isolates reassembly errors from segmentation errors
  if (!judge(c, side, s, run(s.wire, {}), "whole stream in one read")) return;

  std::vector<std::size_t> cuts = c18::singleCuts(src, s);
  bool headerCut = false;
  for (std::size_t cut : cuts)
  {
    if (c18::cutInsideHeader(s, cut)) headerCut = true;
    if (!judge(c, side, s, run(s.wire, {cut}), "single cut at byte " + std::to_string(cut))) return;
  }
  if (s.wire.size() <= 3000)
  {
    std::vector<std::size_t> every;
    for (std::size_t i = 1; i < s.wire.size(); ++i) every.push_back(i);
    if (!judge(c, side, s, run(s.wire, every), "one byte per read")) return;
  }
  for (int k = 0; k < 4; ++k)
  {
    auto mc = c18::multiCut(src, s.wire.size(), k < 2 ? 4 : 24);
    if (!judge(c, side, s, run(s.wire, mc), showCuts(mc))) return;
  }
  if (headerCut) c.label("cut inside a frame header");
  // the property's stated non-trivial rule
  if (s.fragmentedMsgs && s.controlInsideMsg && headerCut) c.nontrivial(pbt::hash64(s.wire));

  if (runWithUpgrade)
  {
    // The opening handshake as part of the segmentation: the endpoint is still waiting for the
    // upgrade response and gets response + stream as one byte sequence. A server may greet or
    // ping in the same write as its 101; nothing else follows, so whatever the endpoint leaves
    // unprocessed here stays unprocessed.
    const std::string all = upgradeResponse + s.wire;
    const std::size_t H = upgradeResponse.size();
    auto judgeUp = [&](const std::vector<std::size_t> &cutsUp, const std::string &seg)
    {
      Outcome o = runWithUpgrade(all, cutsUp);
      if (!o.threw && o.connectCallbacks != 1)
      {
        c.fail("C18/" + side + "/connect-callback-count", pbt::Fmt() << "valid 101 response, connect callback fired " << o.connectCallbacks << " times [" << seg << "]");
        return false;
      }
      return judge(c, side, s, o, seg);
    };
    if (!judgeUp({}, "101 response and the whole stream in one read")) return;
    if (!s.wire.empty() && !judgeUp({H}, "101 response alone, then the whole stream")) return;
    std::vector<std::size_t> inside = {H - 1, H - 2, H - 4, 1};
    for (int i = 0; i < 3; ++i) inside.push_back(static_cast<std::size_t>(src.range(1, static_cast<std::int64_t>(H) - 1)));
    for (std::size_t cut : inside)
      if (!judgeUp({cut}, "101 response cut at byte " + std::to_string(cut) + " of " + std::to_string(H) + ", its tail and the whole stream in one read")) return;
    std::size_t shown = 0;
    for (std::size_t i = 0; i < s.frames.size() && shown < 4; ++i)
    {
      std::size_t end = i + 1 < s.starts.size() ? s.starts[i + 1] : s.wire.size();
      if (end == s.wire.size()) break;
      ++shown;
      if (!judgeUp({H + end}, "101 response and the first " + std::to_string(i + 1) + " frame(s) in one read, then the rest")) return;
      if (end > s.starts[i] + 1 && !judgeUp({H + end - 1}, "101 response and the first " + std::to_string(i + 1) + " frame(s) but one byte in one read, then the rest")) return;
    }
    for (int k = 0; k < 2; ++k)
    {
      auto mc = c18::multiCut(src, all.size(), 8);
      if (!judgeUp(mc, "handshake + stream " + showCuts(mc))) return;
    }
    c.label("opening handshake part of the segmentation");
  }
}

} // namespace

// ------------------------------------------------------------------------ frame_roundtrip
PBT_PROPERTY(frame_roundtrip)
{
  refws::Frame rf;
  // opcode: the six defined ones mostly, every reserved value as well
  if (src.coin(4, 5)) rf.opcode = src.oneOf<std::uint8_t>({0x0, 0x1, 0x2, 0x8, 0x9, 0xA});
  else rf.opcode = src.oneOf<std::uint8_t>({0x3, 0x4, 0x5, 0x6, 0x7, 0xB, 0xC, 0xD, 0xE, 0xF});
  rf.fin = src.coin(2, 3);
  std::size_t n;
  switch (src.weighted({6, 4, 3, 2, 2}))
  {
  case 0: n = src.oneOf<std::size_t>({0, 1, 2, 3, 4, 5, 124, 125, 126, 127, 128}); break;
  case 1: n = static_cast<std::size_t>(src.sized(0, 300)); break;
  case 2: n = src.oneOf<std::size_t>({65534, 65535, 65536, 65537, 70000}); break;
  case 3: n = static_cast<std::size_t>(src.range(129, 65535)); break;
  default: n = static_cast<std::size_t>(src.range(65536, 200000)); break;
  }
  const bool control = refws::isControlOpcode(rf.opcode);
  bool strictDomain = true; // frames RFC 6455 allows on the wire
  if (control)
  {
    if (src.coin(9, 10))
    {
      // valid control frame: FIN set, at most 125 bytes
      rf.fin = true;
      if (n > 125) n = n % 126;
    }
    else
      strictDomain = rf.fin && n <= 125;
  }
  rf.masked = src.coin();
  if (rf.masked && !src.coin(1, 8))
    for (auto &k : rf.key) k = static_cast<std::uint8_t>(src.range(0, 255));
  {
    // payload bytes: cheap LCG seeded from the source (every byte value occurs)
    std::uint32_t x = static_cast<std::uint32_t>(src.range(0, 0x7fffffff));
    rf.payload.resize(n);
    for (auto &ch : rf.payload)
    {
      x = x * 1664525u + 1013904223u;
      ch = static_cast<char>(x >> 24);
    }
  }
  const bool reserved = !refws::isDefinedOpcode(rf.opcode);
  c.describe(pbt::Fmt() << "opcode=0x" << std::hex << int(rf.opcode) << std::dec << " fin=" << rf.fin << " masked=" << rf.masked << " key="
                        << pbt::hex(std::string(reinterpret_cast<const char *>(rf.key), 4)) << " len=" << n << " payload=" << pbt::hex(rf.payload, 16));
  c.label(std::string("opcode ") + refws::opName(rf.opcode));
  c.label(n <= 125 ? "7-bit length" : n <= 0xFFFF ? "16-bit length" : "64-bit length");
  c.label(rf.masked ? "masked" : "unmasked");
  if (!rf.fin) c.label("FIN clear");
  if (!strictDomain) c.label("control frame outside RFC limits (>125 bytes or FIN clear)");
  c.nontrivial(pbt::hashMix(pbt::hash64(rf.payload), (std::uint64_t(rf.opcode) << 8) | (rf.fin ? 2 : 0) | (rf.masked ? 1 : 0)));

  ws::WebSocketFrame f;
  f.fin = rf.fin;
  f.opcode = static_cast<ws::WsOpcode>(rf.opcode);
  f.masked = rf.masked;
  std::memcpy(f.maskKey, rf.key, 4);
  f.payload.assign(rf.payload.begin(), rf.payload.end());

  std::vector<std::uint8_t> wire;
  try
  {
    wire = f.serialize(rf.masked);
  }
  catch (const std::exception &e)
  {
    c.fail("C18/frame/serialize-exception", e.what());
    return;
  }
  const std::string wireStr(wire.begin(), wire.end());
  // construction oracle: the bytes on the wire are exactly the RFC 6455 encoding
  const std::string expectWire = refws::encode(rf);
  if (wireStr != expectWire)
  {
    std::size_t at = 0;
    while (at < wireStr.size() && at < expectWire.size() && wireStr[at] == expectWire[at]) ++at;
    c.fail(at < 14 ? "C18/frame/serialize-header" : "C18/frame/serialize-payload",
           pbt::Fmt() << "serialize() differs from the reference encoding at byte " << at << " (sizes " << wireStr.size() << " vs " << expectWire.size()
                      << "): got " << pbt::hex(wireStr.substr(at > 4 ? at - 4 : 0, 16)) << " expected " << pbt::hex(expectWire.substr(at > 4 ? at - 4 : 0, 16)));
    return;
  }

  auto parseAt = [&](std::size_t k, std::size_t &consumed, bool &threw, std::string &what) -> std::optional<ws::WebSocketFrame>
  {
    ExactBuf buf(std::string_view(wireStr).substr(0, k));
    threw = false;
    try
    {
      return ws::WebSocketFrame::parse(buf.view(), consumed);
    }
    catch (const std::exception &e)
    {
      threw = true;
      what = e.what();
    }
    catch (...)
    {
      threw = true;
      what = "unknown exception";
    }
    return std::nullopt;
  };

  std::size_t consumed = 12345;
  bool threw = false;
  std::string what;
  auto back = parseAt(wireStr.size(), consumed, threw, what);
  if (threw)
  {
    c.fail("C18/frame/parse-exception", "parse threw on a serialised frame: " + what);
    return;
  }
  if (!strictDomain || reserved)
  {
    // outside the frames an endpoint may legally emit: rejecting is fine, but a frame that IS
    // returned must be the right one
    if (!back)
    {
      c.label(reserved ? "reserved opcode rejected by parse" : "invalid control frame rejected by parse");
      return;
    }
  }
  if (!back)
  {
    c.fail("C18/frame/roundtrip-incomplete", pbt::Fmt() << "parse(serialize(f)) reports 'incomplete' for a complete frame of " << wireStr.size() << " bytes");
    return;
  }
  if (consumed != wireStr.size())
  {
    c.fail("C18/frame/roundtrip-consumed", pbt::Fmt() << "consumed " << consumed << " != frame size " << wireStr.size());
    return;
  }
  if (back->fin != rf.fin || static_cast<std::uint8_t>(back->opcode) != rf.opcode || back->masked != rf.masked ||
      (rf.masked && std::memcmp(back->maskKey, rf.key, 4) != 0))
  {
    c.fail("C18/frame/roundtrip-header", pbt::Fmt() << "header fields differ: fin " << back->fin << " opcode " << int(static_cast<std::uint8_t>(back->opcode))
                                                    << " masked " << back->masked);
    return;
  }
  if (std::string(back->payload.begin(), back->payload.end()) != rf.payload)
  {
    std::size_t at = 0;
    while (at < back->payload.size() && at < rf.payload.size() && static_cast<char>(back->payload[at]) == rf.payload[at]) ++at;
    c.fail("C18/frame/roundtrip-payload", pbt::Fmt() << "payload differs at byte " << at << " (sizes " << back->payload.size() << " vs " << rf.payload.size() << ")");
    return;
  }
  // every proper prefix is incomplete and consumes nothing
  std::vector<std::size_t> ks;
  const std::size_t N = wireStr.size();
  if (N <= 2048)
    for (std::size_t k = 0; k < N; ++k) ks.push_back(k);
  else
  {
    for (std::size_t k = 0; k < 96; ++k) ks.push_back(k);
    for (std::size_t k = N - 48; k < N; ++k) ks.push_back(k);
    for (int i = 0; i < 32; ++i) ks.push_back(static_cast<std::size_t>(src.range(96, static_cast<std::int64_t>(N) - 49)));
  }
  for (std::size_t k : ks)
  {
    std::size_t cons = 777;
    auto p = parseAt(k, cons, threw, what);
    if (threw)
    {
      c.fail("C18/frame/parse-exception", pbt::Fmt() << "parse threw on the " << k << "-byte prefix: " << what);
      return;
    }
    if (p)
    {
      c.fail("C18/frame/prefix-complete", pbt::Fmt() << "the " << k << "-byte proper prefix of a " << N << "-byte frame parsed as a complete frame (payload "
                                                     << p->payload.size() << " bytes, consumed " << cons << ")");
      return;
    }
    if (cons != 0)
    {
      c.fail("C18/frame/prefix-consumed", pbt::Fmt() << "incomplete prefix (" << k << " of " << N << " bytes) reported consumed=" << cons);
      return;
    }
  }
}

// ------------------------------------------------------------------------ server_segments
PBT_PROPERTY(server_segments)
{
  segmentationProperty(src, c, "server", true, [](const std::string &w, const std::vector<std::size_t> &cuts) { return runServer(w, cuts); });
}

// ------------------------------------------------------------------------ limit_segments
// A small configured maximum N (server setMaxFrameSize / client Options::maxMessageSize) and a
// message of exactly N-1, N or N+1 payload bytes, as one frame or reassembled from fragments:
// N-1 and N are delivered, N+1 is refused - for EVERY segmentation (the whole-frame path and the
// incomplete-frame path must agree on where the limit is).
namespace
{
bool clientReachable()
{
#ifdef JOEGEN_IORA_VERIF_WS_CLIENT_PROBE
  return true;
#else
  return false;
#endif
}

bool limitCase(pbt::Src &src, pbt::Case &c, bool server, std::size_t N, int delta, const Stream &s)
{
  const std::string side = server ? "server" : "client";
  auto run = [&](const std::vector<std::size_t> &cuts)
  {
#ifdef JOEGEN_IORA_VERIF_WS_CLIENT_PROBE
    if (!server) return runClient(s.wire, cuts, false, N);
#endif
    return runServer(s.wire, cuts, N);
  };
  const std::string tag = pbt::Fmt() << "maximum " << N << ", message of " << N + static_cast<std::size_t>(delta + 1) - 1 << " bytes; ";
  if (!judge(c, side, s, run({}), tag + "whole stream in one read")) return false;
  for (std::size_t cut : c18::singleCuts(src, s))
    if (!judge(c, side, s, run({cut}), tag + "single cut at byte " + std::to_string(cut))) return false;
  if (s.wire.size() <= 3000)
  {
    std::vector<std::size_t> every;
    for (std::size_t i = 1; i < s.wire.size(); ++i) every.push_back(i);
    if (!judge(c, side, s, run(every), tag + "one byte per read")) return false;
  }
  for (int k = 0; k < 3; ++k)
  {
    auto mc = c18::multiCut(src, s.wire.size(), 12);
    if (!judge(c, side, s, run(mc), tag + showCuts(mc))) return false;
  }
  return true;
}
} // namespace

PBT_PROPERTY(limit_segments)
{
  const bool server = !clientReachable() || src.coin();
  std::size_t N;
  if (src.coin(3, 4)) N = src.oneOf<std::size_t>({125, 126, 127, 1000});
  else N = src.oneOf<std::size_t>({65535, 65536, 70000});
  const int delta = static_cast<int>(src.range(-1, 1));
  Stream s = c18::genBoundaryStream(src, server, N, delta);
  c.describe(pbt::Fmt() << (server ? "server maxFrameSize=" : "client maxMessageSize=") << N << " <- " << s.describe());
  c.label(std::string(server ? "server: " : "client: ") + (delta < 0 ? "message of N-1 bytes" : delta == 0 ? "message of exactly N bytes" : "message of N+1 bytes (refused)"));
  if (s.fragmentedMsgs) c.label("boundary message fragmented or neighbours fragmented");
  c.nontrivial(pbt::hash64(s.wire) ^ N);
  limitCase(src, c, server, N, delta, s);
}

// ------------------------------------------------------------------------ client_segments
PBT_PROPERTY(client_segments)
{
#ifdef JOEGEN_IORA_VERIF_WS_CLIENT_PROBE
  segmentationProperty(
    src, c, "client", false, [](const std::string &w, const std::vector<std::size_t> &cuts) { return runClient(w, cuts); },
    [](const std::string &w, const std::vector<std::size_t> &cuts) { return runClient(w, cuts, true); }, inprocUpgradeResponse());
#else
  c.label("hook H3 (hooks/C18-ws-client-probe.diff) not applied: client data path not reachable in-process");
#endif
}


// =======================================================================================
// Loopback properties: the real I/O path (transport -> HttpServer upgrade routing ->
// onUpgradedData / client onData -> handleData) and a capture of every byte the endpoint
// puts on the wire, read by a raw socket peer and decoded with the reference decoder.
// =======================================================================================
namespace
{

struct SharedLog
{
  std::mutex m;
  ws::SessionId sid = 0;
  int connects = 0;
  bool armed = false;
  Outcome o;
};

class LoopServer : public ws::WebSocketServer
{
public:
  explicit LoopServer(int port) : ws::WebSocketServer("127.0.0.1", port)
  {
    setOnConnect([this](ws::SessionId sid, const std::string &)
                 {
                   // iora listens with SO_REUSEPORT: a foreign client could reach this server. Only the
                   // connection the harness announced (arm()) becomes the session under test.
                   std::lock_guard<std::mutex> g(log.m);
                   if (!log.armed) return;
                   log.armed = false;
                   log.sid = sid;
                   ++log.connects;
                   log.o = Outcome{};
                 });
    setOnTextMessage([this](ws::SessionId sid, const std::string &t)
                     {
                       std::lock_guard<std::mutex> g(log.m);
                       if (sid == log.sid) log.o.msgs.push_back(Msg{true, t});
                     });
    setOnBinaryMessage([this](ws::SessionId sid, const std::vector<std::uint8_t> &b)
                       {
                         std::lock_guard<std::mutex> g(log.m);
                         if (sid == log.sid) log.o.msgs.push_back(Msg{false, std::string(b.begin(), b.end())});
                       });
    setOnClose([this](ws::SessionId sid, std::uint16_t code, const std::string &reason)
               {
                 std::lock_guard<std::mutex> g(log.m);
                 if (sid != log.sid) return;
                 ++log.o.closeCallbacks;
                 log.o.closeCode = code;
                 log.o.closeReason = reason;
               });
    setOnError([this](ws::SessionId sid, const std::string &)
               {
                 std::lock_guard<std::mutex> g(log.m);
                 if (sid == log.sid) ++log.o.errors;
               });
  }
  SharedLog log;
  int port = 0;

  /// announce the next connection; returns the connect counter to compare with afterwards
  int arm()
  {
    std::lock_guard<std::mutex> g(log.m);
    log.armed = true;
    log.sid = 0;
    return log.connects;
  }
  /// did OUR server accept and upgrade the announced connection? (With SO_REUSEPORT another
  /// process may share the port; then the answer came from a foreign listener.)
  bool tookIt(int before, ws::SessionId &sid)
  {
    std::lock_guard<std::mutex> g(log.m);
    sid = log.sid;
    return log.connects == before + 1 && log.sid != 0;
  }
};

/// one started server per harness process (starting/stopping costs > 50 ms)
LoopServer *loopServer(std::string &why)
{
  static LoopServer *srv = nullptr;
  if (srv) return srv;
  quietLogs();
  for (int attempt = 0; attempt < 40 && !srv; ++attempt)
  {
    int port = c18net::probeFreePort();
    if (port <= 0) continue;
    auto *cand = new LoopServer(port);
    try
    {
      cand->start();
      cand->port = port;
      srv = cand;
    }
    catch (const std::exception &e)
    {
      why = e.what();
      delete cand;
    }
  }
  return srv;
}

std::string randomKey(pbt::Src &src)
{
  unsigned char k[16];
  for (auto &b : k) b = static_cast<unsigned char>(src.range(0, 255));
  return refws::base64(k, sizeof k);
}

refws::Frame maskedFrame(pbt::Src &src, std::uint8_t opcode, const std::string &payload, bool masked)
{
  refws::Frame f;
  f.fin = true;
  f.opcode = opcode;
  f.payload = payload;
  c18::drawKey(src, f, masked);
  return f;
}

/// application payload of a chosen length class; unique per index so that wire frames can be
/// matched against the sends
std::string appPayload(std::size_t idx, std::size_t lenClass, bool text)
{
  static const std::size_t lens[] = {0, 3, 17, 125, 126, 127, 300, 65535, 65536, 70001};
  std::size_t n = lens[lenClass % (sizeof lens / sizeof lens[0])];
  std::string o = (text ? "a" : std::string("\xff", 1)) + std::to_string(idx) + ":";
  if (o.size() > n) return n == 0 ? std::string() : o; // tiny classes: keep the tag
  while (o.size() < n) o += static_cast<char>('A' + (o.size() * 7 + idx) % 26);
  return o;
}

struct AppSend
{
  char kind;           // 't' text, 'b' binary, 'p' ping, 'c' close
  std::string payload; // for 'c': 2-byte code + reason
  bool certain;        // issued while the session was certainly active (nothing closing yet)
};

/// messages reassembled from the data frames on the wire
struct WireMsgs
{
  std::vector<Msg> msgs;
  bool ok = true;
  std::string why;
};

WireMsgs reassembleWire(const std::vector<refws::Frame> &frames)
{
  WireMsgs w;
  bool open = false;
  Msg cur;
  for (auto &f : frames)
  {
    if (f.opcode == refws::OpText || f.opcode == refws::OpBinary)
    {
      if (open)
      {
        w.ok = false;
        w.why = "new data frame while a fragmented message is open";
        return w;
      }
      cur = Msg{f.opcode == refws::OpText, f.payload};
      open = !f.fin;
      if (f.fin) w.msgs.push_back(cur);
    }
    else if (f.opcode == refws::OpCont)
    {
      if (!open)
      {
        w.ok = false;
        w.why = "continuation frame without an open message";
        return w;
      }
      cur.payload += f.payload;
      if (f.fin)
      {
        w.msgs.push_back(cur);
        open = false;
      }
    }
  }
  return w;
}

template <class T> bool isPrefix(const std::vector<T> &a, const std::vector<T> &b)
{
  return a.size() <= b.size() && std::equal(a.begin(), a.end(), b.begin());
}
template <class T> bool isSubsequence(const std::vector<T> &a, std::size_t from, const std::vector<T> &b, std::size_t bfrom)
{
  std::size_t j = bfrom;
  for (std::size_t i = from; i < a.size(); ++i)
  {
    while (j < b.size() && !(b[j] == a[i])) ++j;
    if (j == b.size()) return false;
    ++j;
  }
  return true;
}

/// The wire oracle shared by both endpoints. `wire` = every byte the endpoint sent after the
/// opening handshake, `pingsRequired` must be answered in order, `pingsOptional` (sent after the
/// endpoint had a reason to close) may be, `sends` = application sends in program order.
bool judgeWire(pbt::Case &c, const std::string &side, const std::string &wire, bool eofSeen, const std::vector<std::string> &pingsRequired,
               const std::vector<std::string> &pingsOptional, const std::vector<AppSend> &sends, const std::string &sentinel, bool expectMasked)
{
  const std::string P = "C18/" + side + "/";
  c18net::WireFrames w = c18net::decodeAll(wire);
  if (std::getenv("C18_DEBUG"))
  {
    std::fprintf(stderr, "[c18] wire from %s (%zu bytes, eof=%d): %s\n", side.c_str(), wire.size(), int(eofSeen), pbt::hex(wire, 400).c_str());
    for (auto &f : w.frames) std::fprintf(stderr, "[c18]   %s fin=%d masked=%d len=%zu %s\n", refws::opName(f.opcode), int(f.fin), int(f.masked), f.payload.size(), pbt::hex(f.payload, 32).c_str());
  }
  if (!w.ok)
  {
    c.fail(P + "wire-malformed", "bytes sent by the " + side + " are not a sequence of valid frames: " + w.why);
    return false;
  }
  if (w.tail)
  {
    if (!eofSeen)
    {
      c.fail(P + "wire-malformed", pbt::Fmt() << w.tail << " trailing bytes do not form a complete frame although the connection is idle");
      return false;
    }
    c.label("last frame truncated by the transport close (not judged here)");
  }
  // (1) no data frame behind the endpoint's own close frame
  bool closeSeen = false;
  std::size_t idx = 0;
  for (auto &f : w.frames)
  {
    if (closeSeen && (f.opcode == refws::OpText || f.opcode == refws::OpBinary || f.opcode == refws::OpCont))
    {
      c.fail(P + "data-after-close", pbt::Fmt() << "frame #" << idx << " on the wire is a " << refws::opName(f.opcode) << " frame (" << f.payload.size()
                                                << " bytes: " << pbt::show(f.payload, 24) << ") sent after the endpoint's close frame");
      return false;
    }
    if (f.opcode == refws::OpClose) closeSeen = true;
    ++idx;
  }
  if (closeSeen) c.label("endpoint sent a close frame");
  // (2) pongs answer the pings: identical payload, same order, none invented
  std::vector<std::string> pongs;
  bool sentinelSeen = false;
  for (auto &f : w.frames)
    if (f.opcode == refws::OpPong)
    {
      if (!sentinel.empty() && f.payload == sentinel) sentinelSeen = true;
      else pongs.push_back(f.payload);
    }
  (void)sentinelSeen;
  if (!isPrefix(pingsRequired, pongs))
  {
    std::size_t k = 0;
    while (k < pongs.size() && k < pingsRequired.size() && pongs[k] == pingsRequired[k]) ++k;
    c.fail(P + "pong-mismatch", pbt::Fmt() << pingsRequired.size() << " pings sent, " << pongs.size() << " pongs received; first difference at #" << k << ": ping "
                                           << (k < pingsRequired.size() ? pbt::hex(pingsRequired[k], 20) : std::string("<none>")) << " pong "
                                           << (k < pongs.size() ? pbt::hex(pongs[k], 20) : std::string("<none>")));
    return false;
  }
  if (!isSubsequence(pongs, pingsRequired.size(), pingsOptional, 0))
  {
    c.fail(P + "pong-mismatch", "a pong on the wire does not answer any ping that was sent (or is out of order)");
    return false;
  }
  // (3) application sends: what was certainly sent while the session was active is on the wire,
  //     intact and in order; nothing else is
  WireMsgs wm = reassembleWire(w.frames);
  if (!wm.ok)
  {
    c.fail(P + "wire-malformed", wm.why);
    return false;
  }
  std::vector<Msg> certain, all;
  bool stillCertain = true;
  for (auto &a : sends)
  {
    if (a.kind != 't' && a.kind != 'b') continue;
    Msg m{a.kind == 't', a.payload};
    if (!a.certain) stillCertain = false;
    if (stillCertain) certain.push_back(m);
    all.push_back(m);
  }
  if (!isPrefix(certain, wm.msgs) || !isSubsequence(wm.msgs, certain.size(), all, certain.size()))
  {
    c.fail(P + "sent-message-mismatch", "messages on the wire " + showMsgs(wm.msgs) + " vs application sends " + showMsgs(all) + " (the first " +
                                          std::to_string(certain.size()) + " were issued while the session was active)");
    return false;
  }
  if (expectMasked)
  {
    for (auto &f : w.frames)
      if (!f.masked)
      {
        c.label("client sent an unmasked frame");
        break;
      }
  }
  else
    for (auto &f : w.frames)
      if (f.masked)
      {
        c.label("server sent a masked frame");
        break;
      }
  for (auto &d : w.meta)
    if (d.nonMinimalLength)
    {
      c.fail(P + "wire-nonminimal-length", "a frame on the wire does not use the minimal length encoding");
      return false;
    }
  return true;
}

/// plan of one loopback case: how the inbound stream is cut and where application sends happen
struct LoopPlan
{
  std::vector<std::size_t> cuts;
  struct Op
  {
    std::size_t beforeSegment; // executed before segment #n is written (n == segments: at the end)
    char kind;
    std::size_t lenClass;
  };
  std::vector<Op> ops;
  bool hasAppClose = false;
};

LoopPlan drawPlan(pbt::Src &src, const Stream &s, bool allowAppClose)
{
  LoopPlan p;
  switch (src.weighted({2, 4, 4}))
  {
  case 0: break; // whole
  case 1:
  {
    // one cut, preferably inside a header
    if (s.wire.size() >= 2)
    {
      std::size_t cut;
      if (src.coin(2, 3))
      {
        // strictly inside the header of a randomly chosen frame
        std::size_t fi = static_cast<std::size_t>(src.range(0, static_cast<std::int64_t>(s.starts.size()) - 1));
        const auto &f = s.frames[fi];
        std::size_t hl = 2 + (f.payload.size() > 0xFFFF ? 8 : f.payload.size() > 125 ? 2 : 0) + (f.masked ? 4 : 0);
        cut = s.starts[fi] + static_cast<std::size_t>(src.range(1, static_cast<std::int64_t>(hl) - 1));
      }
      else
        cut = static_cast<std::size_t>(src.range(1, static_cast<std::int64_t>(s.wire.size()) - 1));
      if (cut >= 1 && cut < s.wire.size()) p.cuts.push_back(cut);
    }
    break;
  }
  default: p.cuts = c18::multiCut(src, s.wire.size(), 12); break;
  }
  auto rows = src.rows(6, 3, 0, 1 << 16);
  for (auto &r : rows)
  {
    LoopPlan::Op op;
    op.beforeSegment = static_cast<std::size_t>(r[0]) % (p.cuts.size() + 2);
    int k = static_cast<int>(r[1] % (allowAppClose ? 8 : 7));
    op.kind = k < 3 ? 't' : k < 5 ? 'b' : k < 7 ? 'p' : 'c';
    // big payloads are rare
    op.lenClass = static_cast<std::size_t>(r[2] % 64) < 58 ? static_cast<std::size_t>(r[2] % 7) : 7 + static_cast<std::size_t>(r[2] % 3);
    if (op.kind == 'c') p.hasAppClose = true;
    p.ops.push_back(op);
  }
  std::stable_sort(p.ops.begin(), p.ops.end(), [](const LoopPlan::Op &a, const LoopPlan::Op &b) { return a.beforeSegment < b.beforeSegment; });
  return p;
}

std::string describePlan(const LoopPlan &p)
{
  pbt::Fmt o;
  o << showCuts(p.cuts) << " ops{";
  for (auto &op : p.ops) o << op.kind << "@" << op.beforeSegment << "/" << op.lenClass << " ";
  o << "}";
  return o.str();
}

// Waiting for the endpoint's close frame only buys a synchronisation point; when it does not
// come the case loses the checks that need one (label), it never fails - so this wait may be short.
constexpr double kCloseWait = 10.0;
const std::string kInvalidText = std::string("bad \xc3\x28 text", 11);
const std::string kSentinel = std::string("\0SENTINEL-C18-end-of-case", 25);

} // namespace

// ---------------------------------------------------------------------------- loop driver
namespace
{

/// What the loopback executor needs from the endpoint under test.
struct LoopEndpoint
{
  std::function<void(const AppSend &)> appSend; // perform one application send ('t','b','p','c')
};

struct LoopResult
{
  std::vector<AppSend> sends;
  bool closing = false;   // the harness did something that makes the endpoint start closing
  bool appClosed = false; // ... namely an application-level sendClose
  bool connLost = false;
  bool stuck = false;     // an application message did not arrive completely within 30 s: the wire is
                          // desynchronised or stalled; no further waits that need a readable wire
};

std::size_t countDataMsgs(const std::string &rx)
{
  c18net::WireFrames w = c18net::decodeAll(rx);
  std::size_t n = 0;
  for (auto &f : w.frames)
    if ((f.opcode == refws::OpText || f.opcode == refws::OpBinary || f.opcode == refws::OpCont) && f.fin) ++n;
  return n;
}
bool wireHasClose(const std::string &rx)
{
  c18net::WireFrames w = c18net::decodeAll(rx);
  for (auto &f : w.frames)
    if (f.opcode == refws::OpClose) return true;
  return false;
}
/// end-of-case wait: true as soon as the wire can be judged - the sentinel pong arrived, or as
/// many pongs as pings were sent arrived (then a wrong one is a data failure, not a timeout), or
/// the bytes are not valid frames at all
bool sentinelOrVerdict(const std::string &rx, const std::string &sentinel, std::size_t pingsSent)
{
  c18net::WireFrames w = c18net::decodeAll(rx);
  if (!w.ok) return true;
  std::size_t pongs = 0;
  for (auto &f : w.frames)
    if (f.opcode == refws::OpPong)
    {
      if (f.payload == sentinel) return true;
      ++pongs;
    }
  return pongs >= pingsSent + 1;
}

/// write the stream segment by segment, performing the application sends where the plan says
/// `startOffset`: that many bytes of the stream already went out in the same write as the opening
/// handshake; the plan's cuts before it are void
LoopResult driveLoop(const Stream &s, const LoopPlan &plan, c18net::RawConn &conn, const LoopEndpoint &ep, std::size_t startOffset = 0)
{
  LoopResult r;
  std::size_t opi = 0, from = startOffset, appIdx = 0, certainData = 0;
  std::vector<std::size_t> bounds; // end offsets of the segments still to be written
  for (std::size_t cut : plan.cuts)
    if (cut > startOffset) bounds.push_back(cut);
  if (s.wire.size() > startOffset) bounds.push_back(s.wire.size());
  if (s.triggerEnd != std::string::npos && startOffset >= s.triggerEnd) r.closing = true;
  const std::size_t nseg = bounds.size();
  for (std::size_t seg = 0; seg <= nseg; ++seg)
  {
    while (opi < plan.ops.size() && (plan.ops[opi].beforeSegment <= seg || seg == nseg))
    {
      const auto &op = plan.ops[opi++];
      AppSend a;
      a.kind = op.kind;
      a.certain = !r.closing;
      if (op.kind == 't') a.payload = appPayload(appIdx++, op.lenClass, true);
      else if (op.kind == 'b') a.payload = appPayload(appIdx++, op.lenClass, false);
      else if (op.kind == 'p') a.payload = appPayload(appIdx++, op.lenClass % 4, false);
      ep.appSend(a);
      if (op.kind == 'c')
      {
        r.closing = true;
        r.appClosed = true;
      }
      r.sends.push_back(a);
      if ((op.kind == 't' || op.kind == 'b') && a.certain)
      {
        // let the message reach the wire completely before anything can start a close: a close
        // racing a partially written large frame is transport behaviour (C01/C16), not C18's
        ++certainData;
        if (!r.stuck && !conn.readUntil([&] { return countDataMsgs(conn.rx) >= certainData; }, 30.0)) r.stuck = true;
      }
    }
    if (seg == nseg) break;
    std::size_t to = bounds[seg];
    if (s.triggerEnd != std::string::npos && to >= s.triggerEnd) r.closing = true;
    if (!conn.writeSegment(std::string_view(s.wire).substr(from, to - from)))
    {
      r.connLost = true;
      break;
    }
    from = to;
  }
  return r;
}

/// in a sixth of the wire cases: a small configured maximum N and a message of N-1 / N / N+1 bytes
struct Boundary
{
  std::size_t N = 0; // 0: ordinary stream, library default limit
  int delta = 0;
};
Boundary drawBoundary(pbt::Src &src)
{
  Boundary b;
  if (!src.coin(1, 6)) return b;
  b.N = src.coin(1, 8) ? std::size_t(65536) : src.oneOf<std::size_t>({125, 126, 127, 1000});
  b.delta = static_cast<int>(src.range(-1, 1));
  return b;
}
std::string describeBoundary(const Boundary &b)
{
  if (!b.N) return std::string();
  return pbt::Fmt() << " | configured maximum " << b.N << ", boundary message of N" << (b.delta < 0 ? "-1" : b.delta == 0 ? "" : "+1") << " bytes";
}
void labelBoundary(pbt::Case &c, const Boundary &b)
{
  if (b.N) c.label(b.delta < 0 ? "configured maximum: message of N-1 bytes" : b.delta == 0 ? "configured maximum: message of exactly N bytes" : "configured maximum: message of N+1 bytes (refused)");
}

/// how much of the stream travels in the same write as the opening handshake
struct Coalesce
{
  std::size_t prefixLen = 0; // bytes of the stream behind the 101 response / the upgrade request
  int cutPermille = 0;       // client side: the 101 response itself is cut there (0: not cut)
};

/// end offsets of the frames whose processing is observable from outside: a ping (pong), a close
/// (echo), a data frame that completes a message (delivery, or 1007 for invalid text)
std::vector<std::size_t> observableFrameEnds(const Stream &s)
{
  std::vector<std::size_t> ends;
  for (std::size_t i = 0; i < s.frames.size(); ++i)
  {
    const auto &f = s.frames[i];
    bool data = f.opcode == refws::OpText || f.opcode == refws::OpBinary || f.opcode == refws::OpCont;
    if (f.opcode == refws::OpPing || f.opcode == refws::OpClose || (data && f.fin)) ends.push_back(i + 1 < s.starts.size() ? s.starts[i + 1] : s.wire.size());
    if (f.opcode == refws::OpClose) break;
  }
  return ends;
}

/// frameAligned (toward the server): only whole frames, the last of them observable - the server
/// drains what followed the upgrade request on a worker thread, so the peer has to see the effect
/// before it may send more (a conforming client would not send early at all)
Coalesce drawCoalesce(pbt::Src &src, const Stream &s, bool frameAligned)
{
  Coalesce co;
  if (!src.coin()) return co;
  std::vector<std::size_t> ends = observableFrameEnds(s);
  switch (src.weighted({5, 2, frameAligned ? 0 : 2}))
  {
  case 0:
    if (!ends.empty()) co.prefixLen = ends[static_cast<std::size_t>(src.range(0, static_cast<std::int64_t>(ends.size()) - 1))];
    break;
  case 1:
    if (!frameAligned || (!ends.empty() && ends.back() == s.wire.size())) co.prefixLen = s.wire.size();
    else if (!ends.empty()) co.prefixLen = ends.back();
    break;
  default: co.prefixLen = static_cast<std::size_t>(src.range(1, static_cast<std::int64_t>(std::max<std::size_t>(1, s.wire.size())))); break;
  }
  if (co.prefixLen > s.wire.size()) co.prefixLen = s.wire.size();
  // a close frame behind the 101 is only judged when response + frames are certainly ONE read
  if (!frameAligned && s.hasClose && co.prefixLen > s.starts.back() && co.prefixLen > 16000) co.prefixLen = s.starts.back();
  if (!frameAligned && src.coin(1, 3)) co.cutPermille = static_cast<int>(src.range(1, 999));
  if (frameAligned)
  {
    // Request + frames must arrive in ONE read (one TCP segment, far below the engine's read chunk):
    // frames in a LATER read that races the worker's upgrade are the early-sender race the harness
    // does not generate (RFC 6455 4.1: a client waits for the 101 before it sends).
    while (co.prefixLen > 16000)
    {
      std::size_t best = 0;
      for (std::size_t e : ends)
        if (e <= 16000 && e > best) best = e;
      co.prefixLen = best;
    }
    // the HTTP layer looks for the end of a further request in what follows the first one
    if (s.wire.substr(0, co.prefixLen).find("\r\n\r\n") != std::string::npos) co.prefixLen = 0;
  }
  return co;
}

/// what the frames that lie completely inside the prefix must cause (reference model)
struct PrefixEffects
{
  std::size_t msgs = 0, pongs = 0;
  bool close = false;         // the endpoint's close frame must appear on the wire (echo or 1007)
  bool closeCallback = false; // ... and, for the peer's close frame, the close callback must have run
  bool any() const { return msgs || pongs || close; }
};
PrefixEffects effectsOfPrefix(const Stream &s, std::size_t prefixLen)
{
  std::vector<refws::Frame> in;
  for (std::size_t i = 0; i < s.frames.size(); ++i)
  {
    std::size_t end = i + 1 < s.starts.size() ? s.starts[i + 1] : s.wire.size();
    if (end > prefixLen) break;
    in.push_back(s.frames[i]);
  }
  refws::Model m = refws::modelFrames(in);
  PrefixEffects e;
  e.msgs = m.delivered.size();
  for (std::size_t i = 0; i < m.framesModelled && i < in.size(); ++i)
    if (in[i].opcode == refws::OpPing) ++e.pongs;
  e.close = m.closed || m.invalidText;
  e.closeCallback = m.closed;
  return e;
}

std::size_t countPongs(const std::string &rx)
{
  c18net::WireFrames w = c18net::decodeAll(rx);
  std::size_t n = 0;
  for (auto &f : w.frames)
    if (f.opcode == refws::OpPong) ++n;
  return n;
}

/// The peer stays SILENT behind the handshake write and waits for what the frames in it must
/// cause. An endpoint that leaves them in a buffer "for the next read" never gets that read.
/// `progress()` returns {messages delivered, close callbacks} so far. The close callback is part
/// of the wait because the server processes what followed the upgrade request on a WORKER thread:
/// there the connection's EOF does not imply that the callbacks have run.
template <class Progress>
bool awaitPrefixEffects(pbt::Case &c, const std::string &side, c18net::RawConn &conn, Progress progress, const PrefixEffects &e, const std::string &how,
                        double timeoutSec = 30.0)
{
  if (!e.any()) return true;
  auto deliveredSoFar = [&] { return progress().first; };
  bool ok = conn.readUntil(
    [&]
    {
      auto pr = progress();
      return pr.first >= e.msgs && countPongs(conn.rx) >= e.pongs && (!e.close || wireHasClose(conn.rx)) && (!e.closeCallback || pr.second >= 1);
    },
    timeoutSec);
  if (ok)
  {
    c.label("frames in the same write as the opening handshake were processed without further input");
    return true;
  }
  c.failTimed("C18/" + side + "/stalled-behind-handshake",
              pbt::Fmt() << how << ": " << deliveredSoFar() << " of " << e.msgs << " messages delivered, " << countPongs(conn.rx) << " of " << e.pongs << " pings answered"
                         << (e.close ? (wireHasClose(conn.rx) ? ", close frame sent" : ", NO close frame") : "") << " after " << timeoutSec
                         << " s without further input from the peer");
  return false;
}

void splitPings(const Stream &s, bool synced, bool appClosed, std::vector<std::string> &required, std::vector<std::string> &optional)
{
  for (std::size_t i = 0; i < s.pings.size(); ++i)
  {
    bool beforeTrigger = s.triggerEnd == std::string::npos || s.pingEnds[i] <= s.triggerEnd;
    // an application close at an arbitrary point makes every ping optional (the harness cannot
    // know which were processed before it); without a synchronisation point nothing is certain
    if (beforeTrigger && synced && !appClosed) required.push_back(s.pings[i]);
    else optional.push_back(s.pings[i]);
  }
}

/// delivery oracle for the loopback runs
bool judgeLoopDeliveries(pbt::Case &c, const std::string &side, const Stream &s, const LoopResult &r, const Outcome &o, const std::string &seg)
{
  if (r.appClosed)
  {
    if (s.hasInvalidText)
      for (auto &m : o.msgs)
        if (m.text && m.payload == s.invalidPayload)
        {
          c.fail("C18/" + side + "/invalid-utf8-delivered", "a text message that is not UTF-8 was delivered over loopback [" + seg + "]");
          return false;
        }
    // the application closed at an arbitrary point: what was delivered must be a prefix
    if (!isPrefix(o.msgs, s.expect))
    {
      c.fail("C18/" + side + "/messages-differ", "delivered " + showMsgs(o.msgs) + " is not a prefix of " + showMsgs(s.expect) + " [" + seg + "]");
      return false;
    }
    return true;
  }
  Stream judged = s;
  if (!r.closing)
  {
    // the harness ended the session with its own close frame (code 1000, no reason)
    judged.hasClose = true;
    judged.closeCode = 1000;
    judged.closeReason.clear();
  }
  return judge(c, side, judged, o, seg);
}

void labelPlan(pbt::Case &c, const Stream &s, const LoopPlan &plan, const LoopResult &r)
{
  bool headerCut = false;
  for (auto cut : plan.cuts)
    if (c18::cutInsideHeader(s, cut)) headerCut = true;
  if (headerCut) c.label("cut inside a frame header");
  if (r.appClosed) c.label("application sendClose in plan");
  bool dataAfter = false, seenClose = false;
  for (auto &a : r.sends)
  {
    if (a.kind == 'c') seenClose = true;
    else if (seenClose && (a.kind == 't' || a.kind == 'b')) dataAfter = true;
  }
  if (dataAfter) c.label("application data send after its own sendClose");
  if (s.fragmentedMsgs && s.controlInsideMsg && headerCut) c.nontrivial(pbt::hash64(s.wire + describePlan(plan)));
}

} // namespace

namespace
{
/// raw connection to the loopback server incl. opening handshake; false => verdict already set
bool connectAndUpgrade(pbt::Case &c, LoopServer &srv, c18net::RawConn &conn, const std::string &key, ws::SessionId &sid, bool fixedCase = false,
                       const std::string &extra = std::string())
{
  // fixedCase: a regression judged in the replay tier, where a bounded wait is not re-run 3x;
  // a handshake that does not complete in time is reported as inconclusive there
  auto timedFail = [&](const std::string &w)
  {
    if (fixedCase) c.inconclusive(w);
    else c.failTimed("C18/server/handshake-timeout", w);
  };
  const int before = srv.arm();
  conn.fd = c18net::connectLoopback(srv.port, 60.0);
  if (conn.fd < 0)
  {
    c.inconclusive("cannot connect to the server under test");
    return false;
  }
  std::string why;
  bool timedOut = false;
  bool ok = c18net::clientHandshake(conn, key, why, nullptr, &timedOut, extra);
  if (!srv.tookIt(before, sid))
  {
    // nobody upgraded on OUR server: either it never saw the connection (a foreign listener shares
    // the port through SO_REUSEPORT) or it did not answer in time
    if (ok || !timedOut) c.inconclusive("the upgrade was not handled by the server under test (foreign listener on the port?): " + why);
    else timedFail(why);
    return false;
  }
  if (!ok)
  {
    if (timedOut) timedFail(why);
    else c.fail("C18/server/handshake", why);
    return false;
  }
  conn.peerFd = c18net::findPeerFd(conn.fd);
  if (conn.peerFd >= 0) c.label("read barrier exact (endpoint descriptor found)");
  if (!extra.empty()) conn.awaitRead();
  return true;
}
} // namespace

// ---------------------------------------------------------------------------- server_wire
PBT_PROPERTY(server_wire)
{
  pbt::watchdog(120, "C18/server/loopback-stalled");
  std::string why;
  LoopServer *srv = loopServer(why);
  if (!srv)
  {
    c.inconclusive("could not start a WebSocketServer on a loopback port: " + why);
    return;
  }
  c18::GenOpts go;
  go.masked = true;
  go.allowBig = src.coin(1, 10);
  Boundary bd = drawBoundary(src);
  struct MaxGuard
  {
    LoopServer *srv;
    ~MaxGuard() { srv->setMaxFrameSize(16u << 20); }
  } maxGuard{srv};
  if (bd.N) srv->setMaxFrameSize(bd.N);
  Stream s = bd.N ? c18::genBoundaryStream(src, true, bd.N, bd.delta) : c18::genStream(src, go);
  LoopPlan plan = drawPlan(src, s, !bd.N);
  Coalesce co = bd.N ? Coalesce{} : drawCoalesce(src, s, true);
  labelBoundary(c, bd);
  c.describe(pbt::Fmt() << "server <- " << s.describe() << describeBoundary(bd) << " | " << describePlan(plan)
                        << (co.prefixLen ? " | the first " + std::to_string(co.prefixLen) + " bytes in the same write as the upgrade request" : std::string()));
  labelStream(c, s);

  c18net::RawConn conn;
  ws::SessionId sid = 0;
  if (!connectAndUpgrade(c, *srv, conn, randomKey(src), sid, false, s.wire.substr(0, co.prefixLen))) return;
  if (co.prefixLen)
  {
    c.label("upgrade request and first frames in one write");
    auto progress = [&]
    {
      std::lock_guard<std::mutex> g(srv->log.m);
      return std::make_pair(srv->log.o.msgs.size(), static_cast<std::size_t>(srv->log.o.closeCallbacks));
    };
    if (!awaitPrefixEffects(c, "server", conn, progress, effectsOfPrefix(s, co.prefixLen), "upgrade request + " + std::to_string(co.prefixLen) + " bytes of frames in one write")) return;
  }

  LoopEndpoint ep;
  ep.appSend = [&](const AppSend &a)
  {
    switch (a.kind)
    {
    case 't': srv->sendText(sid, a.payload); break;
    case 'b': srv->sendBinary(sid, std::vector<std::uint8_t>(a.payload.begin(), a.payload.end())); break;
    case 'p': srv->sendPing(sid, std::vector<std::uint8_t>(a.payload.begin(), a.payload.end())); break;
    default: srv->sendClose(sid, 1001, "going away"); break;
    }
  };
  LoopResult r = driveLoop(s, plan, conn, ep, co.prefixLen);
  if (r.connLost && !r.closing)
  {
    c.fail("C18/server/connection-lost", "the server dropped the connection in the middle of a valid stream");
    return;
  }

  // end of case: a point behind which everything was processed, then collect the wire
  bool synced = false;
  if (r.stuck) c.label("an application message did not reach the wire completely within 30 s");
  if (!r.closing && r.stuck)
    conn.writeSegment(refws::encode(maskedFrame(src, refws::OpClose, std::string("\x03\xe8", 2), true))); // end it; the final wire is judged
  else if (!r.closing)
  {
    conn.writeSegment(refws::encode(maskedFrame(src, refws::OpPing, kSentinel, true)));
    if (!conn.readUntil([&] { return sentinelOrVerdict(conn.rx, kSentinel, s.pings.size()); }, 30.0))
    {
      c.failTimed("C18/server/ping-unanswered", "a ping behind a valid stream was not answered within 30 s on an open session");
      return;
    }
    synced = true;
    conn.writeSegment(refws::encode(maskedFrame(src, refws::OpClose, std::string("\x03\xe8", 2), true))); // orderly end
  }
  // The server's own close frame (echo, 1007 or the application's) is the other synchronisation
  // point: frames leave in order, so everything it sent before has arrived when the close frame
  // has. Only then is our side of the connection shut down - replies to a peer that has already
  // sent FIN may be dropped by the transport, which is not C18's business.
  if (conn.readUntil([&] { return wireHasClose(conn.rx); }, r.stuck ? 1.0 : kCloseWait)) synced = true;
  else c.label("no close frame from the server");
  conn.shutdownWrite();
  bool sawEof = conn.readUntil([&] { return conn.eof; }, 30.0);
  if (!sawEof) c.label("server kept the TCP connection open for 30 s after the peer finished");

  Outcome o;
  {
    std::lock_guard<std::mutex> g(srv->log.m);
    o = srv->log.o;
  }
  std::string seg = describePlan(plan);
  // at EOF the server has processed every inbound byte (it reads the data before the FIN)
  if ((synced || sawEof) && !judgeLoopDeliveries(c, "server", s, r, o, seg)) return;
  std::vector<std::string> required, optional;
  splitPings(s, synced, r.appClosed, required, optional);
  if (!judgeWire(c, "server", conn.rx, conn.eof, required, optional, r.sends, kSentinel, false)) return;
  if (!required.empty()) c.label("pings answered with matching pongs");
  labelPlan(c, s, plan, r);
}

// ---------------------------------------------------------------------------- client_wire
namespace
{
c18net::RawListener &rawListener()
{
  static c18net::RawListener *l = new c18net::RawListener;
  return *l;
}

struct ClientUnderTest
{
  std::shared_ptr<ws::WebSocketClient> cl;
  std::shared_ptr<SharedLog> log = std::make_shared<SharedLog>();
  c18net::RawConn conn;
  bool timed = false; // the failure is a bounded wait (connect() gave up), not a wrong answer
  std::size_t maxMessage = 0; // Options::maxMessageSize for the next connect() (0: library default)
  // The peer's close frame travelled in the same write as the 101 response and was processed
  // before connect() looked at the state again: connect() reports "not connected" and tears down.
  // Legitimate; the exchange is then over and only the callbacks can be judged.
  bool closedDuringConnect = false;

  /// create a client, let it connect to the raw listener and complete the opening handshake
  bool start(std::string &why, bool &harnessSide, const std::string &tail = std::string(), int cutPermille = 0, bool closeInTail = false)
  {
    create();
    return connectOnce(why, harnessSide, tail, cutPermille, closeInTail);
  }

  /// the client object and its callbacks (set once, before the first connect(): precondition M-1)
  void create()
  {
    quietLogs();
    cl = ws::WebSocketClient::create();
    auto lg = log; // callbacks must not own the client (HR-11); they own the log only
    cl->setOnTextMessage([lg](const std::string &t)
                         {
                           std::lock_guard<std::mutex> g(lg->m);
                           lg->o.msgs.push_back(Msg{true, t});
                         });
    cl->setOnBinaryMessage([lg](const std::vector<std::uint8_t> &b)
                           {
                             std::lock_guard<std::mutex> g(lg->m);
                             lg->o.msgs.push_back(Msg{false, std::string(b.begin(), b.end())});
                           });
    cl->setOnClose([lg](std::uint16_t code, const std::string &reason)
                   {
                     std::lock_guard<std::mutex> g(lg->m);
                     ++lg->o.closeCallbacks;
                     lg->o.closeCode = code;
                     lg->o.closeReason = reason;
                   });
    cl->setOnError([lg](const std::string &)
                   {
                     std::lock_guard<std::mutex> g(lg->m);
                     ++lg->o.errors;
                   });
    // CONNECTING is announced by doConnect() on the connecting thread, after connect() has torn the
    // old transport down (its I/O thread is joined) and before the new one exists: the exact point
    // where the log of the previous connection ends. (Frames may arrive together with the 101,
    // i.e. before connect() returns - clearing afterwards would be too late.)
    cl->setOnStateChange([lg](ws::WebSocketState st)
                         {
                           if (st != ws::WebSocketState::CONNECTING) return;
                           std::lock_guard<std::mutex> g(lg->m);
                           lg->o = Outcome{};
                         });
  }

  /// one connect() of the SAME client object to the raw listener incl. opening handshake. May be
  /// called again after the previous connection ended in whatever way; connect() itself tears the
  /// old transport down (joining its I/O thread), so the log can be cleared right after it returns.
  /// `tail`/`cutPermille`: see RawListener::acceptAndUpgrade (frames in the same write as the 101)
  bool connectOnce(std::string &why, bool &harnessSide, const std::string &tail = std::string(), int cutPermille = 0, bool closeInTail = false)
  {
    harnessSide = false;
    timed = false;
    closedDuringConnect = false;
    c18net::RawListener &lst = rawListener();
    if (lst.port <= 0)
    {
      why = "raw listener could not bind";
      harnessSide = true;
      return false;
    }
    conn.reset();
    bool accepted = false;
    std::string acceptWhy;
    std::thread acceptor([&] { accepted = lst.acceptAndUpgrade(conn, acceptWhy, 20.0, tail, cutPermille); });
    bool connected = false;
    try
    {
      ws::WebSocketClient::Options opt;
      if (maxMessage) opt.maxMessageSize = maxMessage;
      connected = cl->connect("127.0.0.1", static_cast<std::uint16_t>(lst.port), "/ws", opt, std::chrono::milliseconds(30000));
    }
    catch (const std::exception &e)
    {
      acceptor.join();
      why = std::string("connect() threw: ") + e.what();
      return false;
    }
    acceptor.join();
    if (!accepted)
    {
      why = "raw server side: " + acceptWhy;
      harnessSide = !connected; // nothing arrived and the client says so too: environment
      return false;
    }
    if (!connected && closeInTail && outcome().closeCallbacks > 0)
    {
      closedDuringConnect = true; // the close callback ran: everything in front of the close frame was processed
      return true;
    }
    if (!connected)
    {
      why = "the raw server answered 101 with the correct Sec-WebSocket-Accept but connect() returned false (30 s timeout)";
      timed = true;
      return false;
    }
    conn.peerFd = c18net::findPeerFd(conn.fd);
    if (!tail.empty()) conn.awaitRead();
    return true;
  }
  std::pair<std::size_t, std::size_t> progress()
  {
    std::lock_guard<std::mutex> g(log->m);
    return std::make_pair(log->o.msgs.size(), static_cast<std::size_t>(log->o.closeCallbacks));
  }
  Outcome outcome()
  {
    std::lock_guard<std::mutex> g(log->m);
    return log->o;
  }
};

LoopEndpoint clientEndpoint(ClientUnderTest &cut)
{
  LoopEndpoint ep;
  ep.appSend = [&cut](const AppSend &a)
  {
    switch (a.kind)
    {
    case 't': cut.cl->sendText(a.payload); break;
    case 'b': cut.cl->sendBinary(std::vector<std::uint8_t>(a.payload.begin(), a.payload.end())); break;
    case 'p': cut.cl->sendPing(std::vector<std::uint8_t>(a.payload.begin(), a.payload.end())); break;
    default: cut.cl->sendClose(1001, "going away"); break;
    }
  };
  return ep;
}

/// One complete exchange on the client's current connection, ended by the close handshake and
/// disconnect(): the stream is written segment by segment with the application sends of the plan,
/// then deliveries and the wire capture are judged (the oracle of client_wire). false => verdict set.
bool exchangeAndClose(pbt::Src &src, pbt::Case &c, ClientUnderTest &cut, const Stream &s, const LoopPlan &plan, const std::string &where, std::size_t startOffset = 0)
{
  c18net::RawConn &conn = cut.conn;
  LoopResult r = driveLoop(s, plan, conn, clientEndpoint(cut), startOffset);
  if (r.connLost && !r.closing)
  {
    c.fail("C18/client/connection-lost", "the client dropped the connection in the middle of a valid stream" + where);
    return false;
  }
  bool synced = false, sentinelTimeout = false;
  if (r.stuck) c.label("an application message did not reach the wire completely within 30 s");
  if (!r.closing)
  {
    if (!r.stuck)
    {
      conn.writeSegment(refws::encode(maskedFrame(src, refws::OpPing, kSentinel, false)));
      if (conn.readUntil([&] { return sentinelOrVerdict(conn.rx, kSentinel, s.pings.size()); }, 30.0)) synced = true;
      else sentinelTimeout = true;
    }
    conn.writeSegment(refws::encode(maskedFrame(src, refws::OpClose, std::string("\x03\xe8", 2), false))); // orderly end
  }
  // the client's own close frame (echo, 1007 or the application's) is the other synchronisation
  // point: frames are sent in order, so everything before it has arrived when it has
  if (conn.readUntil([&] { return wireHasClose(conn.rx); }, r.stuck ? 1.0 : kCloseWait)) synced = true;
  else c.label("no close frame from the client");
  const bool allRead = conn.allBarriersExact(); // every inbound byte was read by the client
  cut.cl->disconnect();                         // joins the client's I/O thread: every callback has returned
  conn.readUntil([&] { return conn.eof; }, 30.0);

  Outcome o = cut.outcome();
  std::string seg = describePlan(plan) + where;
  // behind an exact read barrier + the join, every inbound byte was processed: what is missing
  // now is missing for good (a data verdict, judged before the bounded wait below)
  if ((allRead || synced) && !judgeLoopDeliveries(c, "client", s, r, o, seg)) return false;
  if (sentinelTimeout)
  {
    c.failTimed("C18/client/ping-unanswered", "a ping behind a valid stream was not answered within 30 s on an open connection" + where);
    return false;
  }
  std::vector<std::string> required, optional;
  splitPings(s, synced, r.appClosed, required, optional);
  if (!judgeWire(c, "client", conn.rx, conn.eof, required, optional, r.sends, kSentinel, true)) return false;
  if (!required.empty()) c.label("pings answered with matching pongs");
  labelPlan(c, s, plan, r);
  return true;
}

/// known finding C18/client/data-after-close: no application data send behind sendClose in the plan
void excludeDataAfterClose(pbt::Case &c, LoopPlan &plan)
{
  if (!pbt::isKnown("C18/client/data-after-close")) return;
  bool closed = false;
  std::vector<LoopPlan::Op> kept;
  for (auto &op : plan.ops)
  {
    if (op.kind == 'c') closed = true;
    else if (closed && (op.kind == 't' || op.kind == 'b'))
    {
      c.label("excluded by known finding: data send after sendClose");
      continue;
    }
    kept.push_back(op);
  }
  plan.ops = kept;
}

std::string describeCoalesce(const Coalesce &co)
{
  if (!co.prefixLen && !co.cutPermille) return std::string();
  pbt::Fmt o;
  o << " | in the same write as the 101 response: the first " << co.prefixLen << " bytes of the stream";
  if (co.cutPermille) o << " (the response itself cut at " << co.cutPermille / 10.0 << " %, its tail goes with them)";
  return o.str();
}

bool closeInPrefix(const Stream &s, const Coalesce &co) { return s.hasClose && co.prefixLen == s.wire.size(); }

/// connect() reported failure because the peer's close frame (same write as the 101) had already
/// been processed: judge the callbacks exactly, the wire leniently (the teardown may drop replies)
void judgeClosedDuringConnect(pbt::Case &c, ClientUnderTest &cut, const Stream &s, const std::string &where)
{
  c.label("peer's close frame in the handshake write: connect() reported 'not connected'");
  cut.conn.readUntil([&] { return cut.conn.eof; }, 30.0);
  if (!judge(c, "client", s, cut.outcome(), "101 response and the complete stream incl. close in one write" + where)) return;
  std::vector<std::string> none;
  judgeWire(c, "client", cut.conn.rx, cut.conn.eof, none, s.pings, {}, "", true);
}

bool awaitClientPrefix(pbt::Case &c, ClientUnderTest &cut, const Stream &s, const Coalesce &co, const std::string &where, double timeoutSec = 30.0)
{
  if (!co.prefixLen) return true;
  c.label("101 response and first frames in one write");
  return awaitPrefixEffects(
    c, "client", cut.conn, [&] { return cut.progress(); }, effectsOfPrefix(s, co.prefixLen),
    "101 response + " + std::to_string(co.prefixLen) + " bytes of frames in one write" + where, timeoutSec);
}

bool reportStartFailure(pbt::Case &c, ClientUnderTest &cut, const std::string &why, bool harnessSide, bool fixedCase = false)
{
  if (harnessSide || (fixedCase && cut.timed)) c.inconclusive(why);
  else if (cut.timed) c.failTimed("C18/client/handshake-timeout", why);
  else c.fail("C18/client/handshake", why);
  return false;
}
} // namespace

PBT_PROPERTY(client_wire)
{
  pbt::watchdog(120, "C18/client/loopback-stalled");
  c18::GenOpts go;
  go.masked = false;
  go.allowBig = src.coin(1, 10);
  go.allowInvalidUtf8 = !pbt::isKnown("C18/client/invalid-utf8-delivered");
  Boundary bd = drawBoundary(src);
  Stream s = bd.N ? c18::genBoundaryStream(src, false, bd.N, bd.delta) : c18::genStream(src, go);
  LoopPlan plan = drawPlan(src, s, !bd.N);
  excludeDataAfterClose(c, plan);
  Coalesce co = bd.N ? Coalesce{} : drawCoalesce(src, s, false);
  labelBoundary(c, bd);
  c.describe("client <- " + s.describe() + describeBoundary(bd) + " | " + describePlan(plan) + describeCoalesce(co));
  labelStream(c, s);

  ClientUnderTest cut;
  cut.maxMessage = bd.N;
  std::string why;
  bool harnessSide = false;
  if (!cut.start(why, harnessSide, s.wire.substr(0, co.prefixLen), co.cutPermille, closeInPrefix(s, co)))
  {
    reportStartFailure(c, cut, why, harnessSide);
    return;
  }
  if (cut.closedDuringConnect)
  {
    judgeClosedDuringConnect(c, cut, s, "");
    return;
  }
  if (cut.conn.peerFd >= 0) c.label("read barrier exact (endpoint descriptor found)");
  if (!awaitClientPrefix(c, cut, s, co, "")) return;
  exchangeAndClose(src, c, cut, s, plan, "", co.prefixLen);
}

// ---------------------------------------------------------------------------- client_reuse
// ONE WebSocketClient object goes through 2-3 connections. Every connection but the last carries
// a short valid exchange (judged at a sentinel pong) and then ends in one of the ways a
// connection can end; the next connect() of the same object must give a fully working endpoint
// again: the usual stream under the usual oracles (deliveries for the segmentation, pongs, close
// echo, no data behind the close). State that has to be re-armed per connection: receive
// buffer, fragment buffer, upgrade flag, close-echo gate, close-sent flag, receive-failed flag.
namespace
{
enum class Ending
{
  OversizedHeader, // header declaring 2^62 bytes -> the client fails the connection (1009)
  MalformedHeader, // ping with length code 126 -> 1002
  InvalidUtf8,     // text message that is not UTF-8 -> 1007
  ClientClose,     // application sendClose, peer echoes
  ClientDisconnect,// application disconnect()
  PeerClose,       // peer's close frame, client echoes
  TcpDropIdle,     // peer resets the TCP connection, nothing pending
  TcpDropMidFrame, // ... in the middle of a frame header/payload and of a fragmented message
  kCount
};
const char *endingName(Ending e)
{
  static const char *n[] = {"oversized header (1009)", "malformed header (1002)", "invalid UTF-8 text (1007)", "close by client (sendClose)",
                            "client disconnect()", "close by peer", "TCP reset while idle", "TCP reset in the middle of a frame"};
  return n[static_cast<int>(e)];
}

/// short exchange on an intermediate connection, left OPEN: judged at the sentinel pong
bool exchangeKeepOpen(pbt::Src &src, pbt::Case &c, ClientUnderTest &cut, const Stream &s, const LoopPlan &plan, const std::string &where, std::size_t startOffset = 0)
{
  c18net::RawConn &conn = cut.conn;
  LoopResult r = driveLoop(s, plan, conn, clientEndpoint(cut), startOffset);
  if (r.connLost)
  {
    c.fail("C18/client/connection-lost", "the client dropped the connection in the middle of a valid stream" + where);
    return false;
  }
  if (r.stuck)
  {
    cut.cl->disconnect();
    conn.readUntil([&] { return conn.eof; }, 30.0);
    std::vector<std::string> none;
    if (judgeWire(c, "client", conn.rx, conn.eof, none, s.pings, r.sends, kSentinel, true))
      c.failTimed("C18/client/send-stalled", "an application message did not reach the wire within 30 s" + where);
    return false;
  }
  conn.writeSegment(refws::encode(maskedFrame(src, refws::OpPing, kSentinel, false)));
  bool synced = conn.readUntil([&] { return sentinelOrVerdict(conn.rx, kSentinel, s.pings.size()); }, 30.0);
  if (!synced)
  {
    // no verdict possible from the wire; let the join decide about the deliveries, then report
    const bool allRead = conn.allBarriersExact();
    cut.cl->disconnect();
    if (allRead && !judge(c, "client", s, cut.outcome(), describePlan(plan) + where)) return false;
    c.failTimed("C18/client/ping-unanswered", "a ping behind a valid stream was not answered within 30 s on an open connection" + where);
    return false;
  }
  if (!judge(c, "client", s, cut.outcome(), describePlan(plan) + where)) return false;
  std::vector<std::string> required, optional;
  splitPings(s, true, false, required, optional);
  return judgeWire(c, "client", conn.rx, false, required, optional, r.sends, kSentinel, true);
}

/// make the current connection end in the chosen way (from the raw peer's / the application's side)
void applyEnding(pbt::Src &src, ClientUnderTest &cut, Ending e)
{
  c18net::RawConn &conn = cut.conn;
  std::uint8_t nokey[4] = {0, 0, 0, 0};
  auto waitClose = [&] { conn.readUntil([&] { return wireHasClose(conn.rx); }, kCloseWait); };
  switch (e)
  {
  case Ending::OversizedHeader:
    conn.writeSegment(refws::rawHeader(true, 0, refws::OpBinary, false, nokey, 127, (1ULL << 62) + static_cast<std::uint64_t>(src.range(0, 1000))) + "abc");
    waitClose();
    break;
  case Ending::MalformedHeader:
    conn.writeSegment(refws::rawHeader(true, 0, refws::OpPing, false, nokey, 126, 126) + std::string(src.coin() ? 126 : 5, 'p'));
    waitClose();
    break;
  case Ending::InvalidUtf8:
    conn.writeSegment(refws::encode(maskedFrame(src, refws::OpText, kInvalidText, false)));
    waitClose();
    break;
  case Ending::ClientClose:
    cut.cl->sendClose(1000, "done");
    waitClose();
    conn.writeSegment(refws::encode(maskedFrame(src, refws::OpClose, std::string("\x03\xe8", 2), false)));
    break;
  case Ending::ClientDisconnect:
    cut.cl->disconnect();
    break;
  case Ending::PeerClose:
    conn.writeSegment(refws::encode(maskedFrame(src, refws::OpClose, std::string("\x03\xe9", 2) + "bye", false)));
    waitClose();
    break;
  case Ending::TcpDropIdle: break;
  case Ending::TcpDropMidFrame:
  {
    // an unfinished fragmented message AND an unfinished frame stay behind in the client
    refws::Frame f1 = maskedFrame(src, refws::OpText, "left", false);
    f1.fin = false;
    refws::Frame f2 = maskedFrame(src, refws::OpCont, std::string(200, 'o'), false);
    f2.fin = false;
    std::string bytes = refws::encode(f1) + refws::encode(f2);
    bytes.resize(bytes.size() - static_cast<std::size_t>(src.range(1, 199)));
    std::string pingHead = refws::encode(maskedFrame(src, refws::OpPing, "x", false)).substr(0, 1);
    conn.writeSegment(bytes + (src.coin() ? pingHead : std::string()));
    break;
  }
  default: break;
  }
  // the raw peer's side of the connection goes away: orderly or by reset
  if (e == Ending::TcpDropIdle || e == Ending::TcpDropMidFrame || src.coin(1, 3)) conn.resetNow();
  else conn.closeNow();
}
} // namespace

PBT_PROPERTY(client_reuse)
{
  pbt::watchdog(180, "C18/client/loopback-stalled");
  const int connections = static_cast<int>(src.range(2, 3));
  std::vector<Ending> endings;
  std::string plot;
  for (int k = 0; k + 1 < connections; ++k)
  {
    Ending e = static_cast<Ending>(src.range(0, static_cast<int>(Ending::kCount) - 1));
    if (e == Ending::InvalidUtf8 && pbt::isKnown("C18/client/invalid-utf8-delivered")) e = Ending::PeerClose;
    if ((e == Ending::OversizedHeader && pbt::isKnown("C18/client/oversized-frame-buffered")) ||
        (e == Ending::MalformedHeader && pbt::isKnown("C18/client/invalid-control-frame-stalls")))
      e = Ending::TcpDropMidFrame;
    endings.push_back(e);
    plot += std::string(k ? ", " : "") + endingName(e);
  }
  ClientUnderTest cut;
  cut.create();
  std::string why;
  bool harnessSide = false;
  for (int k = 0; k < connections; ++k)
  {
    const bool last = k + 1 == connections;
    const std::string where = " [connection " + std::to_string(k + 1) + " of the same client object; earlier ones ended by: " + (k ? plot : std::string("-")) + "]";
    // sometimes the application tidies up itself before it connects again
    if (k > 0 && src.coin(1, 3)) cut.cl->disconnect();
    c18::GenOpts go;
    go.masked = false;
    go.allowBig = false;
    go.maxMsgs = 3;
    if (last) go.allowInvalidUtf8 = !pbt::isKnown("C18/client/invalid-utf8-delivered");
    else go.allowInvalidUtf8 = go.allowClose = false;
    Stream s = c18::genStream(src, go);
    LoopPlan plan = drawPlan(src, s, last);
    excludeDataAfterClose(c, plan);
    Coalesce co = drawCoalesce(src, s, false);
    if (last)
      c.describe(pbt::Fmt() << "one client object, " << connections << " connections; earlier ones ended by: " << plot << "; last: client <- " << s.describe() << " | "
                            << describePlan(plan) << describeCoalesce(co));
    else
      c.describe(pbt::Fmt() << "one client object, connection " << k + 1 << " of " << connections << " (endings: " << plot << "): client <- " << s.describe() << " | "
                            << describePlan(plan) << describeCoalesce(co));
    if (!cut.connectOnce(why, harnessSide, s.wire.substr(0, co.prefixLen), co.cutPermille, closeInPrefix(s, co)))
    {
      reportStartFailure(c, cut, why + where, harnessSide);
      return;
    }
    if (cut.closedDuringConnect)
    {
      judgeClosedDuringConnect(c, cut, s, where);
      return;
    }
    if (!awaitClientPrefix(c, cut, s, co, where)) return;
    if (last)
    {
      labelStream(c, s);
      c.nontrivial(pbt::hash64(plot + s.wire + describePlan(plan)));
      exchangeAndClose(src, c, cut, s, plan, where, co.prefixLen);
      return;
    }
    if (!exchangeKeepOpen(src, c, cut, s, plan, where, co.prefixLen)) return;
    c.label(std::string("previous connection ended by: ") + endingName(endings[static_cast<std::size_t>(k)]));
    applyEnding(src, cut, endings[static_cast<std::size_t>(k)]);
  }
}

// =======================================================================================
// close races: application threads hammer sendText/sendBinary while the close handshake is
// started (by the application, by the peer's close frame, or by an invalid text message).
// Oracle on the wire capture: nothing but control frames behind the endpoint's close frame,
// every data frame intact, per-thread order preserved.
// =======================================================================================
namespace
{

struct RacePlan
{
  int threads;
  int sendsPerThread;
  int trigger;      // 0 application sendClose, 1 peer close frame, 2 peer invalid UTF-8 text
  int delaySpins;   // yields of the main thread before it pulls the trigger
  std::vector<std::uint32_t> yieldSeeds;
};

RacePlan drawRace(pbt::Src &src)
{
  RacePlan p;
  p.threads = static_cast<int>(src.range(1, 4));
  p.sendsPerThread = static_cast<int>(src.sized(5, 150));
  p.trigger = static_cast<int>(src.range(0, 2));
  p.delaySpins = static_cast<int>(src.range(0, 400));
  for (int i = 0; i < p.threads; ++i) p.yieldSeeds.push_back(static_cast<std::uint32_t>(src.range(1, 0x7fffffff)));
  return p;
}

std::string describeRace(const RacePlan &p)
{
  static const char *trig[] = {"application sendClose", "peer close frame", "peer invalid UTF-8 text"};
  return pbt::Fmt() << p.threads << " threads x " << p.sendsPerThread << " sends, trigger: " << trig[p.trigger] << " after " << p.delaySpins << " yields";
}

/// run the sender threads; `send(k, i, payload, text)` performs one application send
template <class SendFn, class TriggerFn> void runRace(const RacePlan &p, SendFn send, TriggerFn trigger)
{
  std::atomic<bool> go{false};
  std::vector<std::thread> ts;
  for (int k = 0; k < p.threads; ++k)
    ts.emplace_back(
      [&, k]
      {
        std::uint32_t x = p.yieldSeeds[static_cast<std::size_t>(k)];
        while (!go.load(std::memory_order_acquire)) std::this_thread::yield();
        for (int i = 0; i < p.sendsPerThread; ++i)
        {
          send(k, i, "t" + std::to_string(k) + "-" + std::to_string(i), (k + i) % 2 == 0);
          x = x * 1664525u + 1013904223u;
          if ((x >> 28) < 3) std::this_thread::yield();
        }
      });
  go.store(true, std::memory_order_release);
  for (int i = 0; i < p.delaySpins; ++i) std::this_thread::yield();
  trigger();
  for (auto &t : ts) t.join();
}

bool judgeRaceWire(pbt::Case &c, const std::string &side, const std::string &wire, bool eof, const RacePlan &p)
{
  const std::string P = "C18/" + side + "/";
  c18net::WireFrames w = c18net::decodeAll(wire);
  if (std::getenv("C18_DEBUG")) std::fprintf(stderr, "[c18] race wire %zu bytes, %zu frames\n", wire.size(), w.frames.size());
  if (!w.ok)
  {
    c.fail(P + "wire-malformed", "bytes sent by the " + side + " under concurrent sends are not a sequence of valid frames: " + w.why);
    return false;
  }
  if (w.tail && !eof)
  {
    c.fail(P + "wire-malformed", "trailing bytes do not form a complete frame");
    return false;
  }
  bool closeSeen = false;
  std::vector<int> next(static_cast<std::size_t>(p.threads), 0);
  std::size_t idx = 0, dataFrames = 0;
  for (auto &f : w.frames)
  {
    const bool data = f.opcode == refws::OpText || f.opcode == refws::OpBinary || f.opcode == refws::OpCont;
    if (data && closeSeen)
    {
      c.fail(P + "data-after-close", pbt::Fmt() << "frame #" << idx << " (" << refws::opName(f.opcode) << " " << pbt::show(f.payload, 24)
                                                << ") was sent after the endpoint's close frame while application threads were sending");
      return false;
    }
    if (f.opcode == refws::OpClose) closeSeen = true;
    if (data)
    {
      ++dataFrames;
      int k = -1, i = -1;
      if (std::sscanf(f.payload.c_str(), "t%d-%d", &k, &i) != 2 || k < 0 || k >= p.threads || f.payload != "t" + std::to_string(k) + "-" + std::to_string(i) || !f.fin ||
          (f.opcode == refws::OpText) != ((k + i) % 2 == 0))
      {
        c.fail(P + "sent-message-mismatch", "a data frame on the wire is not one of the application's messages: " + pbt::show(f.payload, 40));
        return false;
      }
      if (i < next[static_cast<std::size_t>(k)])
      {
        c.fail(P + "sent-message-mismatch", pbt::Fmt() << "messages of thread " << k << " are out of order or duplicated on the wire (#" << i << " after #"
                                                       << next[static_cast<std::size_t>(k)] - 1 << ")");
        return false;
      }
      next[static_cast<std::size_t>(k)] = i + 1;
    }
    ++idx;
  }
  if (closeSeen) c.label("endpoint sent a close frame");
  if (closeSeen && dataFrames > 0 && dataFrames < static_cast<std::size_t>(p.threads * p.sendsPerThread)) c.label("close landed in the middle of the sends");
  if (dataFrames == 0) c.label("close won before any send");
  if (dataFrames == static_cast<std::size_t>(p.threads * p.sendsPerThread)) c.label("all sends before the close");
  return true;
}


} // namespace

PBT_PROPERTY(server_close_race)
{
  pbt::watchdog(120, "C18/server/loopback-stalled");
  std::string why;
  LoopServer *srv = loopServer(why);
  if (!srv)
  {
    c.inconclusive("could not start a WebSocketServer on a loopback port: " + why);
    return;
  }
  RacePlan p = drawRace(src);
  c.describe("server: " + describeRace(p));
  c18net::RawConn conn;
  ws::SessionId sid = 0;
  if (!connectAndUpgrade(c, *srv, conn, randomKey(src), sid)) return;
  std::string triggerBytes;
  if (p.trigger == 1) triggerBytes = refws::encode(maskedFrame(src, refws::OpClose, std::string("\x03\xe8", 2), true));
  if (p.trigger == 2) triggerBytes = refws::encode(maskedFrame(src, refws::OpText, kInvalidText, true));
  runRace(
    p,
    [&](int, int, const std::string &payload, bool text)
    {
      if (text) srv->sendText(sid, payload);
      else srv->sendBinary(sid, std::vector<std::uint8_t>(payload.begin(), payload.end()));
    },
    [&]
    {
      if (p.trigger == 0) srv->sendClose(sid, 1001, "going away");
      else conn.writeAll(triggerBytes.data(), triggerBytes.size());
    });
  conn.readUntil([&] { return wireHasClose(conn.rx); }, kCloseWait);
  conn.shutdownWrite();
  conn.readUntil([&] { return conn.eof; }, 30.0);
  c.nontrivial(pbt::hash64(describeRace(p)));
  c.label(std::string("trigger: ") + (p.trigger == 0 ? "application sendClose" : p.trigger == 1 ? "peer close frame" : "peer invalid UTF-8 text"));
  judgeRaceWire(c, "server", conn.rx, conn.eof, p);
}

PBT_PROPERTY(client_close_race)
{
  pbt::watchdog(120, "C18/client/loopback-stalled");
  RacePlan p = drawRace(src);
  if (p.trigger == 2 && pbt::isKnown("C18/client/invalid-utf8-delivered")) p.trigger = 1;
  if (pbt::isKnown("C18/client/data-after-close"))
  {
    c.label("excluded by known finding: data send after close");
    return;
  }
  c.describe("client: " + describeRace(p));
  ClientUnderTest cut;
  std::string why;
  bool harnessSide = false;
  if (!cut.start(why, harnessSide))
  {
    reportStartFailure(c, cut, why, harnessSide);
    return;
  }
  c18net::RawConn &conn = cut.conn;
  std::string triggerBytes;
  if (p.trigger == 1) triggerBytes = refws::encode(maskedFrame(src, refws::OpClose, std::string("\x03\xe8", 2), false));
  if (p.trigger == 2) triggerBytes = refws::encode(maskedFrame(src, refws::OpText, kInvalidText, false));
  runRace(
    p,
    [&](int, int, const std::string &payload, bool text)
    {
      if (text) cut.cl->sendText(payload);
      else cut.cl->sendBinary(std::vector<std::uint8_t>(payload.begin(), payload.end()));
    },
    [&]
    {
      if (p.trigger == 0) cut.cl->sendClose(1001, "going away");
      else conn.writeAll(triggerBytes.data(), triggerBytes.size());
    });
  conn.readUntil([&] { return wireHasClose(conn.rx); }, kCloseWait);
  cut.cl->disconnect();
  conn.readUntil([&] { return conn.eof; }, 30.0);
  c.nontrivial(pbt::hash64(describeRace(p)));
  c.label(std::string("trigger: ") + (p.trigger == 0 ? "application sendClose" : p.trigger == 1 ? "peer close frame" : "peer invalid UTF-8 text"));
  judgeRaceWire(c, "client", conn.rx, conn.eof, p);
}

// =======================================================================================
// hostile: headers declaring absurd lengths, illegal control frames, accumulated fragments,
// mutated streams. Nothing may throw out of parse / the data path, no allocation may exceed
// what the bytes actually received justify, and an endpoint must not keep buffering behind
// a frame it can never accept.
// =======================================================================================
#if defined(__has_feature)
#if __has_feature(address_sanitizer)
#define C18_HAVE_ALLOC_HOOKS 1
#include <sanitizer/allocator_interface.h>
#endif
#endif

namespace
{

std::atomic<bool> gTrackAllocs{false};
std::atomic<std::size_t> gMaxAlloc{0};

#ifdef C18_HAVE_ALLOC_HOOKS
void c18MallocHook(const volatile void *, size_t n)
{
  if (!gTrackAllocs.load(std::memory_order_relaxed)) return;
  std::size_t cur = gMaxAlloc.load(std::memory_order_relaxed);
  while (n > cur && !gMaxAlloc.compare_exchange_weak(cur, n, std::memory_order_relaxed)) {}
}
void c18FreeHook(const volatile void *) {}
#endif

/// records the largest single allocation made while it is alive (ASan allocator hooks)
struct AllocScope
{
  AllocScope()
  {
#ifdef C18_HAVE_ALLOC_HOOKS
    static bool installed = (__sanitizer_install_malloc_and_free_hooks(c18MallocHook, c18FreeHook), true);
    (void)installed;
#endif
    gMaxAlloc.store(0);
    gTrackAllocs.store(true);
  }
  ~AllocScope() { gTrackAllocs.store(false); }
  std::size_t largest() const { return gMaxAlloc.load(); }
};

/// common interface over the two in-process endpoints for the hostile cases
struct HostileEndpoint
{
  std::string side;
  Outcome o;
  bool threw = false;
  std::string what;
  std::shared_ptr<ws::WebSocketClient> cl;

  explicit HostileEndpoint(bool server, std::size_t maxFrame = 16u << 20) : side(server ? "server" : "client")
  {
    if (server)
    {
      ProbeServer &srv = probeServer();
      srv.setMaxFrameSize(maxFrame);
      srv.out = &o;
      if (!srv.open(kSid))
      {
        threw = true;
        what = "upgrade of the in-process session failed";
      }
    }
#ifdef JOEGEN_IORA_VERIF_WS_CLIENT_PROBE
    else
    {
      quietLogs();
      cl = ws::WebSocketClient::create();
      Outcome *op = &o;
      cl->setOnTextMessage([op](const std::string &t) { op->msgs.push_back(Msg{true, t}); });
      cl->setOnBinaryMessage([op](const std::vector<std::uint8_t> &b) { op->msgs.push_back(Msg{false, std::string(b.begin(), b.end())}); });
      cl->setOnClose([op](std::uint16_t code, const std::string &reason)
                     {
                       ++op->closeCallbacks;
                       op->closeCode = code;
                       op->closeReason = reason;
                     });
      cl->setOnError([op](const std::string &) { ++op->errors; });
      WebSocketClientProbe::prime(*cl);
    }
#endif
  }
  ~HostileEndpoint()
  {
    if (side == "server") probeServer().out = nullptr;
  }
  bool isServer() const { return side == "server"; }

  void feed(std::string_view bytes)
  {
    if (threw) return;
    ExactBuf seg(bytes);
    try
    {
      if (isServer()) probeServer().feed(kSid, seg.p.get(), seg.n);
#ifdef JOEGEN_IORA_VERIF_WS_CLIENT_PROBE
      else WebSocketClientProbe::feed(*cl, seg.p.get(), seg.n);
#endif
    }
    catch (const std::exception &e)
    {
      threw = true;
      what = std::string(typeid(e).name()) + ": " + e.what();
    }
    catch (...)
    {
      threw = true;
      what = "unknown exception";
    }
  }
  /// the endpoint has given up on the connection (sent its close frame / asked for the TCP close)
  bool deactivated()
  {
    if (isServer()) return !probeServer().isSessionActive(kSid) || o.closeSessionCalls > 0;
#ifdef JOEGEN_IORA_VERIF_WS_CLIENT_PROBE
    return cl->getState() != ws::WebSocketState::CONNECTED || o.errors > 0 || o.closeCallbacks > 0 || WebSocketClientProbe::closeSent(*cl);
#else
    return true;
#endif
  }
};


std::string payloadBytes(pbt::Src &src, std::size_t n)
{
  std::string o(n, '\0');
  std::uint32_t x = static_cast<std::uint32_t>(src.range(1, 0x7fffffff));
  for (auto &ch : o)
  {
    x = x * 1664525u + 1013904223u;
    ch = static_cast<char>(x >> 24);
  }
  return o;
}

std::uint64_t drawHugeLength(pbt::Src &src, bool msbSet)
{
  const std::uint64_t top = 1ULL << 63;
  if (msbSet)
  {
    switch (src.weighted({4, 3, 2, 2}))
    {
    case 0: return ~0ULL - static_cast<std::uint64_t>(src.range(0, 40)); // pos + len wraps around
    case 1: return top + static_cast<std::uint64_t>(src.range(0, 40));
    case 2: return top | (static_cast<std::uint64_t>(src.range(0, 0x7fffffff)) << 31) | static_cast<std::uint64_t>(src.range(0, 0x7fffffff));
    default: return ~0ULL - static_cast<std::uint64_t>(src.range(0, 1 << 20));
    }
  }
  switch (src.weighted({3, 3, 3, 2}))
  {
  case 0: return top - 1 - static_cast<std::uint64_t>(src.range(0, 40));
  case 1: return (1ULL << 62) + static_cast<std::uint64_t>(src.range(0, 1000));
  case 2: return (1ULL << 32) + static_cast<std::uint64_t>(src.range(-20, 20));
  default: return (1ULL << 31) + static_cast<std::uint64_t>(src.range(-20, 20));
  }
}

/// valid follow-up traffic: text messages "after-<i>" padded to ~1 KiB each, `total` bytes at least
std::string followUp(bool masked, std::size_t total, std::vector<Msg> &msgs)
{
  std::string wire;
  std::size_t i = 0;
  while (wire.size() < total)
  {
    refws::Frame f;
    f.opcode = refws::OpText;
    f.masked = masked;
    f.key[0] = 0x11, f.key[1] = 0x22, f.key[2] = 0x33, f.key[3] = static_cast<std::uint8_t>(i);
    f.payload = "after-" + std::to_string(i++) + ":" + std::string(1000, 'z');
    msgs.push_back(Msg{true, f.payload});
    wire += refws::encode(f);
  }
  return wire;
}

/// after a frame the endpoint can never accept: it must either have given up on the connection
/// or still be making progress - never sit on an ever-growing buffer
bool judgeNoStall(pbt::Case &c, HostileEndpoint &ep, const std::vector<Msg> &follow, const std::string &sigTail, const std::string &what)
{
  if (ep.threw)
  {
    c.fail("C18/" + ep.side + "/exception", what + ": exception left the data path: " + ep.what);
    return false;
  }
  if (ep.deactivated()) return true;
  // still active: then the follow-up traffic must have been processed
  std::size_t got = 0;
  for (auto &m : ep.o.msgs)
    if (got < follow.size() && m == follow[got]) ++got;
  if (got == follow.size()) return true;
  c.fail("C18/" + ep.side + "/" + sigTail, pbt::Fmt() << what << ": the session is still active, sent no close, and delivered " << got << " of " << follow.size()
                                                      << " valid messages that followed (" << follow.size() * 1010 << " bytes retained or lost)");
  return false;
}

void hostileClientOversized(pbt::Case &c, std::uint64_t L, std::size_t chunk)
{
  std::uint8_t key[4] = {0, 0, 0, 0};
  std::string hdr = refws::rawHeader(true, 0, refws::OpBinary, false, key, 127, L);
  const std::size_t toFeed = 65536;
  c.describe(pbt::Fmt() << "client <- BIN header declaring " << L << " bytes, then " << toFeed << " payload bytes in reads of " << chunk);
  c.label("client: declared length >= 2^62");
  c.nontrivial(pbt::hashMix(L, chunk));
  HostileEndpoint ep(false);
  std::size_t largest = 0;
  {
    AllocScope as;
    ep.feed(hdr);
    for (std::size_t fed = 0; fed < toFeed && !ep.threw; fed += chunk) ep.feed(std::string(std::min(chunk, toFeed - fed), 'A'));
    largest = as.largest();
  }
  if (ep.threw)
  {
    c.fail("C18/client/exception", "oversized declared frame: exception left handleData: " + ep.what);
    return;
  }
  if (largest > 4 * toFeed + 65536)
  {
    c.fail("C18/client/over-allocation", pbt::Fmt() << "a single allocation of " << largest << " bytes after " << toFeed << " bytes of input");
    return;
  }
  if (!ep.deactivated())
    c.fail("C18/client/oversized-frame-buffered", pbt::Fmt() << "frame declaring " << L << " bytes: after " << toFeed
                                                              << " payload bytes the client is still CONNECTED, reported no error and keeps buffering ("
#ifdef JOEGEN_IORA_VERIF_WS_CLIENT_PROBE
                                                              << WebSocketClientProbe::buffered(*ep.cl)
#else
                                                              << "?"
#endif
                                                              << " bytes retained)");
}

} // namespace

PBT_PROPERTY(hostile)
{
  const bool knownOversized = pbt::isKnown("C18/server/oversized-frame-buffered");
  const bool knownCtlS = pbt::isKnown("C18/server/invalid-control-frame-stalls"), knownCtlC = pbt::isKnown("C18/client/invalid-control-frame-stalls");
  const bool knownLenS = pbt::isKnown("C18/server/invalid-length-stalls"), knownLenC = pbt::isKnown("C18/client/invalid-length-stalls");
  std::size_t kind = src.weighted({5, 3, 3, 3, 2, 4});
  switch (kind)
  {
  case 0:
  {
    // ---- parse(): arbitrary header, declared length up to 2^64-1, few payload bytes present
    bool fin = src.coin(3, 4);
    std::uint8_t rsv = src.coin(1, 8) ? static_cast<std::uint8_t>(src.range(1, 7)) : 0;
    std::uint8_t opcode = static_cast<std::uint8_t>(src.coin(3, 4) ? src.oneOf<int>({0, 1, 2, 8, 9, 10}) : src.range(0, 15));
    bool masked = src.coin();
    std::uint8_t key[4];
    for (auto &k : key) k = static_cast<std::uint8_t>(src.range(0, 255));
    int lenCode;
    std::uint64_t ext = 0;
    switch (src.weighted({6, 3, 2}))
    {
    case 0:
      lenCode = 127;
      ext = src.coin(2, 3) ? drawHugeLength(src, src.coin()) : static_cast<std::uint64_t>(src.range(0, 70000));
      break;
    case 1:
      lenCode = 126;
      ext = static_cast<std::uint64_t>(src.range(0, 65535));
      break;
    default: lenCode = static_cast<int>(src.range(0, 125)); break;
    }
    std::size_t avail = static_cast<std::size_t>(src.weighted({3, 3, 1}) == 0 ? 0 : src.range(0, 80));
    if (src.coin(1, 3))
    {
      // a frame that IS complete: small declared length in whatever length form was drawn
      // (non-minimal forms and fragmented / long control frames included)
      if (lenCode <= 125) avail = std::max<std::size_t>(avail, static_cast<std::size_t>(lenCode) + (src.coin() ? 0 : 3));
      else
      {
        ext = static_cast<std::uint64_t>(src.range(0, static_cast<std::int64_t>(avail)));
        if (lenCode == 126 && src.coin(1, 3))
        {
          ext = static_cast<std::uint64_t>(src.range(126, 300));
          avail = static_cast<std::size_t>(ext);
        }
      }
    }
    std::string hdr = refws::rawHeader(fin, rsv, opcode, masked, key, lenCode, ext);
    std::string input = hdr + payloadBytes(src, avail);
    // sometimes cut inside the header
    if (src.coin(1, 5)) input.resize(static_cast<std::size_t>(src.range(0, static_cast<std::int64_t>(input.size()))));
    const std::uint64_t declared = lenCode == 127 ? ext : lenCode == 126 ? ext : static_cast<std::uint64_t>(lenCode);
    c.describe(pbt::Fmt() << "parse(" << pbt::hex(input, 40) << ") declared length " << declared << ", " << input.size() << " bytes present");
    c.label(declared >> 63 ? "parse: declared length >= 2^63" : declared > (1u << 24) ? "parse: declared length > 16 MiB" : "parse: moderate declared length");
    c.nontrivial(pbt::hash64(input));
    ExactBuf buf(input);
    std::size_t consumed = 4711;
    std::optional<ws::WebSocketFrame> fr;
    std::size_t largest = 0;
    try
    {
      AllocScope as;
      fr = ws::WebSocketFrame::parse(buf.view(), consumed);
      largest = as.largest();
    }
    catch (const std::exception &e)
    {
      c.fail("C18/frame/parse-exception", pbt::Fmt() << "parse threw " << typeid(e).name() << " (" << e.what() << ") on a header declaring " << declared << " bytes");
      return;
    }
    if (largest > input.size() + 4096)
    {
      c.fail("C18/frame/parse-over-allocation", pbt::Fmt() << "parse allocated " << largest << " bytes for an input of " << input.size() << " bytes");
      return;
    }
    if (consumed > input.size())
    {
      c.fail("C18/frame/consumed-beyond-input", pbt::Fmt() << "consumed " << consumed << " > " << input.size());
      return;
    }
    refws::Decoded d = refws::decode(input);
    if (!fr)
    {
      if (consumed != 0) c.fail("C18/frame/prefix-consumed", pbt::Fmt() << "no frame returned but consumed=" << consumed);
      else if (d.st == refws::St::Complete && !d.reservedOpcode)
        c.fail("C18/frame/roundtrip-incomplete", "a complete valid frame was reported incomplete");
      return;
    }
    if (rsv != 0) return; // documented: RSV bits -> error frame that swallows the buffer
    if ((opcode == refws::OpClose || opcode == refws::OpPing || opcode == refws::OpPong) && (lenCode > 125 || !fin) && input.size() >= 2)
    {
      // parse()'s own documented contract (RFC 6455 5.5): such a frame is a protocol error
      c.fail("C18/frame/invalid-control-frame-accepted", pbt::Fmt() << "parse returned a " << refws::opName(opcode) << " frame with length code " << lenCode
                                                                    << " fin=" << fin << " (control frames must be final and at most 125 bytes)");
      return;
    }
    if (d.st == refws::St::Incomplete)
    {
      c.fail("C18/frame/prefix-complete", pbt::Fmt() << "parse returned a frame of " << fr->payload.size() << " payload bytes although only " << input.size()
                                                     << " bytes of a frame declaring " << declared << " are present");
      return;
    }
    if (d.st == refws::St::Complete &&
        (consumed != d.consumed || std::string(fr->payload.begin(), fr->payload.end()) != d.f.payload || fr->fin != d.f.fin ||
         static_cast<std::uint8_t>(fr->opcode) != d.f.opcode))
      c.fail("C18/frame/decode-differs", "parse disagrees with the reference decoder on a complete frame");
    return;
  }
  case 1:
  {
    // ---- data frame declaring more than the endpoint can ever accept
    if (clientReachable() && src.coin(1, 4))
    {
      // client: no maximum is configured by the application; a frame of 2^62 bytes or more
      // cannot be buffered by any machine, so accepting its header means buffering until death
      if (pbt::isKnown("C18/client/oversized-frame-buffered"))
      {
        c.label("excluded by known finding: oversized declared frame (client)");
        return;
      }
      std::uint64_t L = src.coin() ? (1ULL << 63) - 1 - static_cast<std::uint64_t>(src.range(0, 40)) : (1ULL << 62) + static_cast<std::uint64_t>(src.range(0, 1000));
      hostileClientOversized(c, L, static_cast<std::size_t>(src.range(1, 8192)));
      return;
    }
    if (knownOversized)
    {
      c.label("excluded by known finding: oversized declared frame");
      return;
    }
    const std::size_t M = src.oneOf<std::size_t>({16, 125, 126, 1000, 4096, 65536});
    const std::size_t slack = 16384;
    std::uint64_t L;
    switch (src.weighted({3, 3, 3}))
    {
    case 0: L = M + static_cast<std::uint64_t>(src.range(1, 40)); break;
    case 1: L = M + slack + static_cast<std::uint64_t>(src.range(1, 100000)); break;
    default: L = drawHugeLength(src, false); break;
    }
    refws::Frame f;
    f.opcode = src.coin() ? refws::OpText : refws::OpBinary;
    f.fin = src.coin(3, 4);
    f.masked = true;
    for (auto &k : f.key) k = static_cast<std::uint8_t>(src.range(0, 255));
    std::string hdr = refws::rawHeader(f.fin, 0, f.opcode, true, f.key, L <= 125 ? static_cast<int>(L) : L <= 0xFFFF ? 126 : 127, L);
    const std::uint64_t toFeed = std::min<std::uint64_t>(L, M + slack);
    c.describe(pbt::Fmt() << "server maxFrameSize=" << M << " <- " << refws::opName(f.opcode) << " header declaring " << L << " bytes, then " << toFeed
                          << " payload bytes");
    c.label(L > M + slack ? "server: declared length far beyond the maximum" : "server: declared length just beyond the maximum");
    c.nontrivial(pbt::hashMix(L, M));
    HostileEndpoint ep(true, M);
    std::size_t largest = 0;
    {
      AllocScope as;
      ep.feed(hdr);
      std::uint64_t fed = 0;
      while (fed < toFeed && !ep.threw)
      {
        std::size_t n = static_cast<std::size_t>(std::min<std::uint64_t>(toFeed - fed, static_cast<std::uint64_t>(src.range(1, 4096))));
        ep.feed(std::string(n, 'A'));
        fed += n;
      }
      largest = as.largest();
    }
    if (ep.threw)
    {
      c.fail("C18/server/exception", "oversized declared frame: exception left onUpgradedData: " + ep.what);
      return;
    }
    if (largest > 4 * (M + slack) + 65536)
    {
      c.fail("C18/server/over-allocation", pbt::Fmt() << "a single allocation of " << largest << " bytes with maxFrameSize " << M);
      return;
    }
    if (!ep.deactivated())
      c.fail("C18/server/oversized-frame-buffered", pbt::Fmt() << "frame declaring " << L << " bytes with maxFrameSize " << M << ": after " << toFeed
                                                                << " payload bytes the session is still active (no close sent, no TCP close requested) - the "
                                                                   "server keeps buffering until the whole declared frame has arrived");
    return;
  }
  case 2:
  {
    // ---- illegal control frame (extended length or FIN clear), then valid traffic
    bool server = !clientReachable() || src.coin();
    if (server ? knownCtlS : knownCtlC)
    {
      c.label("excluded by known finding: invalid control frame");
      return;
    }
    std::uint8_t opcode = src.oneOf<std::uint8_t>({refws::OpClose, refws::OpPing, refws::OpPong});
    std::uint8_t key[4] = {1, 2, 3, 4};
    std::string bad;
    std::string shape;
    switch (src.weighted({3, 2, 3}))
    {
    case 0:
    {
      std::size_t n = static_cast<std::size_t>(src.range(126, 400));
      bad = refws::rawHeader(true, 0, opcode, server, key, 126, n) + std::string(n, 'p');
      shape = "length code 126 (" + std::to_string(n) + " bytes)";
      break;
    }
    case 1:
    {
      std::size_t n = static_cast<std::size_t>(src.range(0, 200));
      bad = refws::rawHeader(true, 0, opcode, server, key, 127, n) + std::string(n, 'p');
      shape = "length code 127 (" + std::to_string(n) + " bytes)";
      break;
    }
    default:
    {
      std::size_t n = static_cast<std::size_t>(src.range(0, 125));
      bad = refws::rawHeader(false, 0, opcode, server, key, static_cast<int>(n), n) + std::string(n, 'p');
      shape = "FIN clear (" + std::to_string(n) + " bytes)";
      break;
    }
    }
    std::vector<Msg> follow;
    std::string after = followUp(server, 70000, follow);
    c.describe(pbt::Fmt() << (server ? "server" : "client") << " <- " << refws::opName(opcode) << " frame with " << shape << " then " << follow.size() << " valid text messages");
    c.label(std::string(server ? "server" : "client") + ": illegal control frame");
    c.nontrivial(pbt::hash64(bad));
    HostileEndpoint ep(server);
    // a valid message first: the session works
    std::vector<Msg> pre;
    std::string before = followUp(server, 1, pre);
    ep.feed(before);
    if (!ep.threw && ep.o.msgs != pre)
    {
      c.fail("C18/" + ep.side + "/messages-differ", "a single valid text message was not delivered");
      return;
    }
    ep.o.msgs.clear();
    ep.feed(bad);
    std::size_t at = 0;
    while (at < after.size() && !ep.threw)
    {
      std::size_t n = std::min<std::size_t>(after.size() - at, static_cast<std::size_t>(src.range(1, 8192)));
      ep.feed(std::string_view(after).substr(at, n));
      at += n;
    }
    judgeNoStall(c, ep, follow, "invalid-control-frame-stalls", std::string(refws::opName(opcode)) + " frame with " + shape);
    return;
  }
  case 3:
  {
    // ---- 64-bit length with the most significant bit set (illegal), a few bytes, then valid traffic
    bool server = !clientReachable() || src.coin();
    std::uint64_t L = drawHugeLength(src, true);
    std::uint8_t key[4] = {9, 8, 7, 6};
    std::uint8_t opcode = src.oneOf<std::uint8_t>({refws::OpText, refws::OpBinary, refws::OpCont});
    std::string bad = refws::rawHeader(src.coin(), 0, opcode, server, key, 127, L) + payloadBytes(src, static_cast<std::size_t>(src.range(0, 64)));
    std::vector<Msg> follow;
    std::string after = followUp(server, 70000, follow);
    c.describe(pbt::Fmt() << (server ? "server" : "client") << " <- " << refws::opName(opcode) << " header declaring " << L << " bytes (" << pbt::hex(bad, 14) << "...) then "
                          << follow.size() << " valid text messages");
    c.label(std::string(server ? "server" : "client") + ": declared length >= 2^63");
    c.nontrivial(pbt::hashMix(L, server));
    HostileEndpoint ep(server);
    std::size_t largest = 0;
    {
      AllocScope as;
      // the header itself in one or two reads
      std::size_t cut = static_cast<std::size_t>(src.range(0, static_cast<std::int64_t>(bad.size())));
      ep.feed(std::string_view(bad).substr(0, cut));
      ep.feed(std::string_view(bad).substr(cut));
      largest = as.largest();
    }
    if (ep.threw)
    {
      c.fail("C18/" + ep.side + "/exception", pbt::Fmt() << "header declaring " << L << " bytes: exception left the data path: " << ep.what);
      return;
    }
    if (largest > (1u << 20))
    {
      c.fail("C18/" + ep.side + "/over-allocation", pbt::Fmt() << "a single allocation of " << largest << " bytes for a " << bad.size() << "-byte input");
      return;
    }
    if (server ? knownLenS : knownLenC)
    {
      c.label("stall check excluded by known finding: invalid length");
      return;
    }
    std::size_t at = 0;
    while (at < after.size() && !ep.threw)
    {
      std::size_t n = std::min<std::size_t>(after.size() - at, static_cast<std::size_t>(src.range(1, 8192)));
      ep.feed(std::string_view(after).substr(at, n));
      at += n;
    }
    judgeNoStall(c, ep, follow, "invalid-length-stalls", pbt::Fmt() << "header declaring " << L << " bytes");
    return;
  }
  case 4:
  {
    // ---- server: fragments that add up to more than the maximum
    const std::size_t M = src.oneOf<std::size_t>({16, 125, 1000, 4096});
    const std::size_t frag = static_cast<std::size_t>(src.range(1, static_cast<std::int64_t>(M)));
    const std::size_t slack = 16384;
    c.describe(pbt::Fmt() << "server maxFrameSize=" << M << " <- endless fragments of " << frag << " bytes");
    c.label("server: accumulated fragments beyond the maximum");
    c.nontrivial(pbt::hashMix(M, frag));
    HostileEndpoint ep(true, M);
    std::size_t total = 0;
    bool first = true;
    while (total <= M + slack && !ep.threw && !ep.deactivated())
    {
      refws::Frame f;
      f.opcode = first ? refws::OpBinary : refws::OpCont;
      f.fin = false;
      f.masked = true;
      f.key[0] = 7, f.key[1] = 0, f.key[2] = static_cast<std::uint8_t>(total), f.key[3] = 1;
      f.payload.assign(frag, 'F');
      ep.feed(refws::encode(f));
      first = false;
      total += frag;
    }
    if (ep.threw)
    {
      c.fail("C18/server/exception", "accumulating fragments: " + ep.what);
      return;
    }
    if (!ep.deactivated())
      c.fail("C18/server/fragments-unbounded", pbt::Fmt() << total << " bytes of fragments accumulated with maxFrameSize " << M << " and the session is still active");
    else if (!ep.o.msgs.empty())
      c.fail("C18/server/messages-extra", "an unfinished fragmented message was delivered");
    return;
  }
  default:
  {
    // ---- mutated valid stream under a random segmentation: no exception, bounded allocation
    bool server = !clientReachable() || src.coin();
    c18::GenOpts go;
    go.masked = server;
    go.allowBig = false;
    Stream s = c18::genStream(src, go);
    std::string wire = s.wire;
    auto muts = src.rows(5, 3, 0, 1 << 16);
    for (auto &m : muts)
    {
      if (wire.empty()) break;
      // prefer positions inside frame headers
      std::size_t pos;
      if (m[0] % 3 != 0 && !s.starts.empty())
        pos = std::min(wire.size() - 1, s.starts[static_cast<std::size_t>(m[1]) % s.starts.size()] + static_cast<std::size_t>(m[2] % 14));
      else
        pos = static_cast<std::size_t>(m[1]) % wire.size();
      static const unsigned char interesting[] = {0x00, 0x7D, 0x7E, 0x7F, 0x80, 0xFD, 0xFE, 0xFF, 0x81, 0x88, 0x89, 0x8A, 0x08, 0x09, 0x01, 0x70};
      unsigned char v = interesting[static_cast<std::size_t>(m[2]) % sizeof interesting];
      switch (m[0] % 5)
      {
      case 0: wire[pos] = static_cast<char>(v); break;
      case 1: wire[pos] = static_cast<char>(wire[pos] ^ (1u << (m[2] % 8))); break;
      case 2: wire.insert(pos, 1, static_cast<char>(v)); break;
      case 3: wire.erase(pos, 1); break;
      default: wire.insert(pos, std::string(8, static_cast<char>(0xFF))); break;
      }
    }
    auto cuts = c18::multiCut(src, wire.size(), 10);
    c.describe(pbt::Fmt() << (server ? "server" : "client") << " <- mutated stream " << pbt::hex(wire, 80) << " (" << wire.size() << " bytes) " << showCuts(cuts));
    c.label(std::string(server ? "server" : "client") + ": mutated stream");
    if (!muts.empty()) c.nontrivial(pbt::hash64(wire));
    HostileEndpoint ep(server);
    std::size_t largest = 0;
    {
      AllocScope as;
      std::size_t from = 0;
      for (std::size_t k = 0; k <= cuts.size(); ++k)
      {
        std::size_t to = k < cuts.size() ? cuts[k] : wire.size();
        ep.feed(std::string_view(wire).substr(from, to - from));
        from = to;
      }
      largest = as.largest();
    }
    if (ep.threw)
    {
      c.fail("C18/" + ep.side + "/exception", "mutated stream: exception left the data path: " + ep.what);
      return;
    }
    if (largest > 4 * wire.size() + 65536)
      c.fail("C18/" + ep.side + "/over-allocation", pbt::Fmt() << "a single allocation of " << largest << " bytes while processing " << wire.size() << " bytes");
    return;
  }
  }
}


// =======================================================================================
// fixed regression cases (replays/C18/*.json)
// =======================================================================================
namespace
{
bool parseNoThrow(pbt::Case &c, const std::string &input, const std::string &what)
{
  ExactBuf buf(input);
  std::size_t consumed = 99;
  try
  {
    auto fr = ws::WebSocketFrame::parse(buf.view(), consumed);
    if (fr)
    {
      c.fail("C18/frame/prefix-complete", what + ": parse returned a frame for a header without its payload");
      return false;
    }
    if (consumed != 0)
    {
      c.fail("C18/frame/prefix-consumed", what + ": consumed != 0");
      return false;
    }
  }
  catch (const std::exception &e)
  {
    c.fail("C18/frame/parse-exception", what + ": parse threw " + typeid(e).name() + " (" + e.what() + ")");
    return false;
  }
  return true;
}

void stallCase(pbt::Case &c, bool server, const std::string &bad, const std::string &sigTail, const std::string &what)
{
  if (!server && !clientReachable())
  {
    c.label("hook H3 not applied");
    return;
  }
  std::vector<Msg> follow;
  std::string after = followUp(server, 70000, follow);
  c.describe(std::string(server ? "server" : "client") + " <- " + what + " (" + pbt::hex(bad, 16) + ") then " + std::to_string(follow.size()) + " valid text messages");
  HostileEndpoint ep(server);
  ep.feed(bad);
  for (std::size_t at = 0; at < after.size() && !ep.threw; at += 4096) ep.feed(std::string_view(after).substr(at, 4096));
  judgeNoStall(c, ep, follow, sigTail, what);
}
} // namespace

// the classic non-trivial case of the property: fragmented text, ping between the fragments,
// every single cut (including the ones inside the 16-bit length header), both endpoints
PBT_REGRESSION(fragmented_text_with_ping_all_cuts)
{
  for (int side = 0; side < 2; ++side)
  {
    const bool server = side == 0;
    if (!server && !clientReachable()) continue;
    Stream s;
    auto mk = [&](std::uint8_t op, bool fin, const std::string &pl)
    {
      refws::Frame f;
      f.opcode = op;
      f.fin = fin;
      f.payload = pl;
      f.masked = server;
      if (server) f.key[0] = 0xA1, f.key[1] = 0xB2, f.key[2] = 0xC3, f.key[3] = 0xD4;
      s.add(f);
    };
    std::string text = "gr\xc3\xbc\xc3\x9f" + std::string(130, 'x') + "\xe2\x82\xac\xf0\x9f\x98\x80"; // 143 bytes
    mk(refws::OpText, false, text.substr(0, 3)); // cuts the two-byte sequence of U+00FC in half
    mk(refws::OpPing, true, "hb");
    mk(refws::OpCont, false, text.substr(3, 130));
    mk(refws::OpCont, true, text.substr(133));
    mk(refws::OpBinary, true, std::string("\x00\xff\x80", 3));
    s.expect = {Msg{true, text}, Msg{false, std::string("\x00\xff\x80", 3)}};
    c.describe(s.describe());
    for (std::size_t cut = 1; cut < s.wire.size(); ++cut)
    {
      Outcome o = server ? runServer(s.wire, {cut}) :
#ifdef JOEGEN_IORA_VERIF_WS_CLIENT_PROBE
                         runClient(s.wire, {cut});
#else
                         Outcome{};
#endif
      if (!judge(c, server ? "server" : "client", s, o, "single cut at byte " + std::to_string(cut))) return;
    }
  }
}

PBT_REGRESSION(parse_all_ones_length)
{
  // 10-byte header, length 2^64-1: "pos + payloadLen" wraps to 9 <= size  (S18, fix C18-3)
  std::string in = std::string("\x82\x7f", 2) + std::string(8, '\xff');
  c.describe("parse(" + pbt::hex(in) + ")");
  parseNoThrow(c, in, "binary header declaring 2^64-1 bytes");
}

PBT_REGRESSION(parse_wrapping_length_masked)
{
  // masked: header is 14 bytes, 14 + (2^64-14) == 0
  std::string in = std::string("\x81\xff", 2) + std::string(7, '\xff') + std::string("\xf2", 1) + std::string("\x01\x02\x03\x04", 4) + "abc";
  c.describe("parse(" + pbt::hex(in) + ")");
  parseNoThrow(c, in, "masked text header declaring 2^64-14 bytes");
}

PBT_REGRESSION(server_all_ones_length)
{
  std::string bad = std::string("\x82\xff", 2) + std::string(8, '\xff') + std::string("\x01\x02\x03\x04", 4);
  c.describe("server <- " + pbt::hex(bad));
  HostileEndpoint ep(true);
  ep.feed(bad);
  if (ep.threw) c.fail("C18/server/exception", "header declaring 2^64-1 bytes: exception left onUpgradedData: " + ep.what);
}

PBT_REGRESSION(client_all_ones_length)
{
  if (!clientReachable()) return;
  std::string bad = std::string("\x82\x7f", 2) + std::string(8, '\xff');
  c.describe("client <- " + pbt::hex(bad));
  HostileEndpoint ep(false);
  ep.feed(bad);
  if (ep.threw) c.fail("C18/client/exception", "header declaring 2^64-1 bytes: exception left handleData: " + ep.what);
}

PBT_REGRESSION(client_invalid_utf8_text)
{
#ifdef JOEGEN_IORA_VERIF_WS_CLIENT_PROBE
  // a lone lead byte / an overlong slash / a surrogate, whole and fragmented  (fix C18-1)
  for (std::string bad : {std::string("\xc3"), std::string("ok\xc0\xaf"), std::string("\xed\xa0\x80"), std::string("a\xff" "b")})
  {
    Stream s;
    refws::Frame f1, f2;
    f1.opcode = refws::OpText;
    f1.fin = false;
    f1.payload = bad.substr(0, 1);
    f2.opcode = refws::OpCont;
    f2.fin = true;
    f2.payload = bad.substr(1);
    s.add(f1);
    s.add(f2);
    s.hasInvalidText = true;
    s.invalidPayload = bad;
    c.describe("client <- " + s.describe());
    if (!judge(c, "client", s, runClient(s.wire, {}), "whole stream in one read")) return;
    if (!judge(c, "client", s, runClient(s.wire, {3}), "single cut at byte 3")) return;
  }
#endif
}

PBT_REGRESSION(server_invalid_utf8_text)
{
  Stream s;
  refws::Frame f;
  f.opcode = refws::OpText;
  f.masked = true;
  f.key[0] = 1, f.key[1] = 2, f.key[2] = 3, f.key[3] = 4;
  f.payload = "caf\xe9"; // Latin-1, not UTF-8
  s.add(f);
  s.hasInvalidText = true;
  s.invalidPayload = f.payload;
  c.describe("server <- " + s.describe());
  judge(c, "server", s, runServer(s.wire, {}), "whole stream in one read");
}

PBT_REGRESSION(client_data_after_close)
{
  // sendClose() then sendText(): the text frame must not reach the wire  (S18, fix C18-2)
  pbt::watchdog(120, "C18/client/loopback-stalled");
  ClientUnderTest cut;
  std::string why;
  bool harnessSide = false;
  if (!cut.start(why, harnessSide))
  {
    reportStartFailure(c, cut, why, harnessSide, true); // fixed case: only its own oracle counts
    return;
  }
  c.describe("client: sendText(\"before\"); sendClose(1000); sendText(\"after\"); sendBinary({1,2,3})");
  cut.cl->sendText("before");
  cut.cl->sendClose(1000, "bye");
  cut.cl->sendText("after");
  cut.cl->sendBinary({1, 2, 3});
  cut.conn.readUntil([&] { return wireHasClose(cut.conn.rx); }, kCloseWait);
  cut.cl->disconnect();
  cut.conn.readUntil([&] { return cut.conn.eof; }, 30.0);
  std::vector<AppSend> sends = {{'t', "before", true}, {'c', "", true}, {'t', "after", false}, {'b', std::string("\x01\x02\x03", 3), false}};
  judgeWire(c, "client", cut.conn.rx, cut.conn.eof, {}, {}, sends, "", true);
}

PBT_REGRESSION(server_data_after_close)
{
  pbt::watchdog(120, "C18/server/loopback-stalled");
  std::string why;
  LoopServer *srv = loopServer(why);
  if (!srv)
  {
    c.inconclusive("could not start a WebSocketServer: " + why);
    return;
  }
  c18net::RawConn conn;
  ws::SessionId sid = 0;
  if (!connectAndUpgrade(c, *srv, conn, "dGhlIHNhbXBsZSBub25jZQ==", sid, true)) return;
  c.describe("server: sendText(\"before\"); sendClose(1000); sendText(\"after\"); sendBinary({1,2,3})");
  srv->sendText(sid, "before");
  srv->sendClose(sid, 1000, "bye");
  srv->sendText(sid, "after");
  srv->sendBinary(sid, {1, 2, 3});
  conn.readUntil([&] { return wireHasClose(conn.rx); }, kCloseWait);
  conn.shutdownWrite();
  conn.readUntil([&] { return conn.eof; }, 30.0);
  std::vector<AppSend> sends = {{'t', "before", true}, {'c', "", true}, {'t', "after", false}, {'b', std::string("\x01\x02\x03", 3), false}};
  judgeWire(c, "server", conn.rx, conn.eof, {}, {}, sends, "", false);
}

PBT_REGRESSION(server_pong_echoes_payload)
{
  pbt::watchdog(120, "C18/server/loopback-stalled");
  std::string why;
  LoopServer *srv = loopServer(why);
  if (!srv)
  {
    c.inconclusive("could not start a WebSocketServer: " + why);
    return;
  }
  c18net::RawConn conn;
  ws::SessionId sidUnused = 0;
  if (!connectAndUpgrade(c, *srv, conn, "dGhlIHNhbXBsZSBub25jZQ==", sidUnused, true)) return;
  std::vector<std::string> pings = {"hb-1", std::string(125, '\x7f'), std::string(), std::string("\x00\xff\x80", 3)};
  c.describe("server <- TEXT(!fin) PING hb-1 PING 125x7f CONT(fin) PING empty PING 00ff80, cut inside the second ping's header");
  std::uint8_t key[4] = {0x10, 0x20, 0x30, 0x40};
  auto fr = [&](std::uint8_t op, bool fin, const std::string &pl)
  {
    refws::Frame f;
    f.opcode = op;
    f.fin = fin;
    f.masked = true;
    std::memcpy(f.key, key, 4);
    f.payload = pl;
    return refws::encode(f);
  };
  std::string wire = fr(refws::OpText, false, "a") + fr(refws::OpPing, true, pings[0]);
  std::size_t cut = wire.size() + 3;
  wire += fr(refws::OpPing, true, pings[1]) + fr(refws::OpCont, true, "b") + fr(refws::OpPing, true, pings[2]) + fr(refws::OpPing, true, pings[3]);
  conn.writeSegment(std::string_view(wire).substr(0, cut));
  conn.writeSegment(std::string_view(wire).substr(cut));
  conn.writeSegment(fr(refws::OpPing, true, kSentinel));
  if (!conn.readUntil([&] { return sentinelOrVerdict(conn.rx, kSentinel, pings.size()); }, 90.0))
  {
    c.failTimed("C18/server/ping-unanswered", "pings were not answered within 90 s");
    return;
  }
  conn.writeSegment(fr(refws::OpClose, true, std::string("\x03\xe8", 2)));
  conn.readUntil([&] { return wireHasClose(conn.rx); }, kCloseWait);
  conn.shutdownWrite();
  conn.readUntil([&] { return conn.eof; }, 30.0);
  judgeWire(c, "server", conn.rx, conn.eof, pings, {}, {}, kSentinel, false);
}

PBT_REGRESSION(client_pong_echoes_payload)
{
  pbt::watchdog(120, "C18/client/loopback-stalled");
  ClientUnderTest cut;
  std::string why;
  bool harnessSide = false;
  if (!cut.start(why, harnessSide))
  {
    reportStartFailure(c, cut, why, harnessSide, true); // fixed case: only its own oracle counts
    return;
  }
  c18net::RawConn &conn = cut.conn;
  std::vector<std::string> pings = {"hb-1", std::string(125, '\x7f'), std::string(), std::string("\x00\xff\x80", 3)};
  c.describe("client <- BIN(!fin) PING hb-1 PING 125x7f CONT(fin) PING empty PING 00ff80, cut inside the second ping's header");
  auto fr = [&](std::uint8_t op, bool fin, const std::string &pl)
  {
    refws::Frame f;
    f.opcode = op;
    f.fin = fin;
    f.payload = pl;
    return refws::encode(f);
  };
  std::string wire = fr(refws::OpBinary, false, "a") + fr(refws::OpPing, true, pings[0]);
  std::size_t cutAt = wire.size() + 1;
  wire += fr(refws::OpPing, true, pings[1]) + fr(refws::OpCont, true, "b") + fr(refws::OpPing, true, pings[2]) + fr(refws::OpPing, true, pings[3]);
  conn.writeSegment(std::string_view(wire).substr(0, cutAt));
  conn.writeSegment(std::string_view(wire).substr(cutAt));
  conn.writeSegment(fr(refws::OpPing, true, kSentinel));
  if (!conn.readUntil([&] { return sentinelOrVerdict(conn.rx, kSentinel, pings.size()); }, 90.0))
  {
    c.failTimed("C18/client/ping-unanswered", "pings were not answered within 90 s");
    return;
  }
  conn.writeSegment(fr(refws::OpClose, true, std::string("\x03\xe8", 2)));
  conn.readUntil([&] { return wireHasClose(conn.rx); }, kCloseWait);
  cut.cl->disconnect();
  conn.readUntil([&] { return conn.eof; }, 30.0);
  judgeWire(c, "client", conn.rx, conn.eof, pings, {}, {}, kSentinel, true);
}

namespace
{
/// a Src for fixed cases: always the lower bound (unmasked frames draw no key, plans are given)
struct FixedSrc : pbt::Src
{
  std::int64_t range(std::int64_t lo, std::int64_t) override { return lo; }
  std::int64_t sized(std::int64_t lo, std::int64_t) override { return lo; }
  std::vector<pbt::Row> rows(std::size_t, std::size_t, std::int64_t, std::int64_t) override { return {}; }
  std::string blob(std::size_t) override { return {}; }
};

Stream fixedClientStream(const std::string &tag, bool withClose, bool masked = false)
{
  Stream s;
  auto add = [&](std::uint8_t op, bool fin, const std::string &pl)
  {
    refws::Frame f;
    f.opcode = op;
    f.fin = fin;
    f.payload = pl;
    f.masked = masked;
    if (masked) f.key[0] = 0x5a, f.key[1] = 0xa5, f.key[2] = 0x0f, f.key[3] = 0xf0;
    s.add(f);
  };
  add(refws::OpText, false, tag + "-he");
  add(refws::OpPing, true, tag + "-ping");
  s.pings.push_back(tag + "-ping");
  s.pingEnds.push_back(s.wire.size());
  add(refws::OpCont, true, "llo");
  add(refws::OpBinary, true, std::string("\x00\x01\xfe", 3));
  s.expect = {Msg{true, tag + "-hello"}, Msg{false, std::string("\x00\x01\xfe", 3)}};
  s.fragmentedMsgs = 1;
  s.controlInsideMsg = 1;
  if (withClose)
  {
    add(refws::OpClose, true, std::string("\x03\xe8", 2) + "fin");
    s.hasClose = true;
    s.closeCode = 1000;
    s.closeReason = "fin";
    s.triggerEnd = s.wire.size();
  }
  return s;
}
} // namespace

// One client object: connection 1 is failed from the receive path (1009 by an oversized header,
// then - third connection - 1002 by a malformed one); the next connect() of the SAME object must
// give a working endpoint: messages delivered, ping answered, close echoed.
PBT_REGRESSION(client_reuse_after_failed_receive)
{
  pbt::watchdog(180, "C18/client/loopback-stalled");
  FixedSrc src;
  ClientUnderTest cut;
  cut.create();
  std::string why;
  bool harnessSide = false;
  const Ending endings[] = {Ending::OversizedHeader, Ending::MalformedHeader};
  for (int k = 0; k < 3; ++k)
  {
    const std::string where = " [connection " + std::to_string(k + 1) + " of the same client object" +
                              (k ? std::string("; the previous one was failed by the client: ") + endingName(endings[k - 1]) : std::string()) + "]";
    if (!cut.connectOnce(why, harnessSide))
    {
      reportStartFailure(c, cut, why + where, harnessSide, true);
      return;
    }
    LoopPlan plan;
    plan.cuts = {1, 9}; // inside the first header, inside the ping
    const bool last = k == 2;
    Stream s = fixedClientStream("c" + std::to_string(k + 1), last);
    c.describe("client <- " + s.describe() + where);
    if (last)
    {
      exchangeAndClose(src, c, cut, s, plan, where);
      return;
    }
    if (!exchangeKeepOpen(src, c, cut, s, plan, where)) return;
    applyEnding(src, cut, endings[k]);
  }
}

// A server that greets in the same write as its 101 response and then stays silent: the frames
// that arrived together with the response must be processed without any further input.
PBT_REGRESSION(client_frames_with_101_inprocess)
{
#ifdef JOEGEN_IORA_VERIF_WS_CLIENT_PROBE
  Stream s = fixedClientStream("greet", true);
  const std::string resp = inprocUpgradeResponse(), all = resp + s.wire;
  c.describe("client (awaiting the upgrade response) <- 101 response + " + s.describe());
  std::vector<std::vector<std::size_t>> segs = {{}, {resp.size()}, {resp.size() - 2}, {17}, {resp.size() + 1}, {resp.size() + s.starts[2]}};
  for (auto &cuts : segs)
  {
    Outcome o = runClient(all, cuts, true);
    std::string seg = cuts.empty() ? std::string("101 response and the whole stream in one read") : "handshake + stream " + showCuts(cuts);
    if (!o.threw && o.connectCallbacks != 1)
    {
      c.fail("C18/client/connect-callback-count", pbt::Fmt() << "connect callback fired " << o.connectCallbacks << " times [" << seg << "]");
      return;
    }
    if (!judge(c, "client", s, o, seg)) return;
  }
#endif
}

PBT_REGRESSION(client_frames_with_101)
{
  pbt::watchdog(240, "C18/client/loopback-stalled");
  FixedSrc src;
  ClientUnderTest cut;
  std::string why;
  bool harnessSide = false;
  Stream s = fixedClientStream("greet", false);
  Coalesce co;
  co.prefixLen = s.wire.size(); // TEXT(!fin) PING CONT(fin) BIN, all behind the 101 in one write
  c.describe("client <- " + s.describe() + describeCoalesce(co) + ", then silence");
  if (!cut.start(why, harnessSide, s.wire.substr(0, co.prefixLen), 0))
  {
    reportStartFailure(c, cut, why, harnessSide, true);
    return;
  }
  if (!awaitClientPrefix(c, cut, s, co, "", 90.0)) return;
  exchangeAndClose(src, c, cut, s, LoopPlan{}, "", co.prefixLen);
}

// The counterpart on the server: the upgrade request and the first frames in one write (HttpServer
// documents that it hands what followed the request in the same segment to the upgraded handler).
PBT_REGRESSION(server_frames_with_upgrade_request)
{
  pbt::watchdog(240, "C18/server/loopback-stalled");
  FixedSrc src;
  std::string why;
  LoopServer *srv = loopServer(why);
  if (!srv)
  {
    c.inconclusive("could not start a WebSocketServer: " + why);
    return;
  }
  Stream s = fixedClientStream("early", false, true);
  c.describe("server <- upgrade request + " + s.describe() + " in one write, then silence");
  c18net::RawConn conn;
  ws::SessionId sid = 0;
  if (!connectAndUpgrade(c, *srv, conn, "dGhlIHNhbXBsZSBub25jZQ==", sid, true, s.wire)) return;
  auto progress = [&]
  {
    std::lock_guard<std::mutex> g(srv->log.m);
    return std::make_pair(srv->log.o.msgs.size(), static_cast<std::size_t>(srv->log.o.closeCallbacks));
  };
  if (!awaitPrefixEffects(c, "server", conn, progress, effectsOfPrefix(s, s.wire.size()), "upgrade request + all frames in one write", 90.0)) return;
  conn.writeSegment(refws::encode(maskedFrame(src, refws::OpClose, std::string("\x03\xe8", 2), true)));
  conn.readUntil([&] { return wireHasClose(conn.rx); }, kCloseWait);
  conn.shutdownWrite();
  conn.readUntil([&] { return conn.eof; }, 30.0);
  Outcome o;
  {
    std::lock_guard<std::mutex> g(srv->log.m);
    o = srv->log.o;
  }
  Stream judged = s;
  judged.hasClose = true;
  judged.closeCode = 1000;
  if (!judge(c, "server", judged, o, "upgrade request + all frames in one write")) return;
  judgeWire(c, "server", conn.rx, conn.eof, s.pings, {}, {}, "", false);
}

// exactly-at-the-limit frames, single and reassembled, every single cut, both endpoints
PBT_REGRESSION(max_size_exact_boundary)
{
  FixedSrc src;
  for (int side = 0; side < 2; ++side)
  {
    const bool server = side == 0;
    if (!server && !clientReachable()) continue;
    for (std::size_t N : {std::size_t(126), std::size_t(1000)})
      for (int delta = -1; delta <= 1; ++delta)
        for (int fragmented = 0; fragmented < 2; ++fragmented)
        {
          const std::size_t L = N + static_cast<std::size_t>(delta + 1) - 1;
          Stream s;
          auto add = [&](std::uint8_t op, bool fin, const std::string &pl)
          {
            refws::Frame f;
            f.opcode = op;
            f.fin = fin;
            f.payload = pl;
            f.masked = server;
            if (server) f.key[0] = 0x21, f.key[1] = 0x43, f.key[2] = 0x65, f.key[3] = 0x87;
            s.add(f);
          };
          std::string big(L, 'm');
          add(refws::OpText, true, "pre");
          s.expect.push_back(Msg{true, "pre"});
          if (fragmented)
          {
            add(refws::OpBinary, false, big.substr(0, L / 2));
            add(refws::OpPing, true, "hb");
            add(refws::OpCont, true, big.substr(L / 2));
          }
          else
            add(refws::OpBinary, true, big);
          if (delta <= 0)
          {
            s.expect.push_back(Msg{false, big});
            add(refws::OpText, true, "post");
            s.expect.push_back(Msg{true, "post"});
          }
          else
          {
            s.hasOversized = true;
            s.oversizedPayload = big;
          }
          c.describe(pbt::Fmt() << (server ? "server maxFrameSize=" : "client maxMessageSize=") << N << " <- " << s.describe());
          if (!limitCase(src, c, server, N, delta, s)) return;
        }
  }
}

PBT_REGRESSION(server_ping_length_code_126)
{
  // a ping that uses the 16-bit length form: illegal, and reported as "incomplete" forever  (S18, fix C18-4)
  std::uint8_t key[4] = {1, 2, 3, 4};
  stallCase(c, true, refws::rawHeader(true, 0, refws::OpPing, true, key, 126, 126) + std::string(126, 'p'), "invalid-control-frame-stalls",
            "PING frame with length code 126");
}
PBT_REGRESSION(client_ping_length_code_126)
{
  std::uint8_t key[4] = {0, 0, 0, 0};
  stallCase(c, false, refws::rawHeader(true, 0, refws::OpPing, false, key, 126, 126) + std::string(126, 'p'), "invalid-control-frame-stalls",
            "PING frame with length code 126");
}
PBT_REGRESSION(server_fragmented_close)
{
  std::uint8_t key[4] = {1, 2, 3, 4};
  stallCase(c, true, refws::rawHeader(false, 0, refws::OpClose, true, key, 2, 2) + std::string("\x02\xea", 2), "invalid-control-frame-stalls",
            "CLOSE frame with FIN clear");
}
PBT_REGRESSION(server_length_msb_set)
{
  std::uint8_t key[4] = {1, 2, 3, 4};
  stallCase(c, true, refws::rawHeader(true, 0, refws::OpBinary, true, key, 127, 1ULL << 63) + "xyz", "invalid-length-stalls", "BIN header declaring 2^63 bytes");
}
PBT_REGRESSION(client_length_msb_set)
{
  std::uint8_t key[4] = {0, 0, 0, 0};
  stallCase(c, false, refws::rawHeader(true, 0, refws::OpText, false, key, 127, ~0ULL - 11) + "xyz", "invalid-length-stalls", "TEXT header declaring 2^64-12 bytes");
}

PBT_REGRESSION(server_oversized_declared_frame)
{
  // maxFrameSize 1000, header declares 4 GiB: the server must give up, not buffer  (S18, fix C18-4)
  const std::size_t M = 1000;
  std::uint8_t key[4] = {5, 6, 7, 8};
  std::string hdr = refws::rawHeader(true, 0, refws::OpBinary, true, key, 127, 1ULL << 32);
  c.describe("server maxFrameSize=1000 <- BIN header declaring 2^32 bytes, then 20000 payload bytes");
  HostileEndpoint ep(true, M);
  ep.feed(hdr);
  for (int i = 0; i < 20 && !ep.threw; ++i) ep.feed(std::string(1000, 'A'));
  if (ep.threw) c.fail("C18/server/exception", ep.what);
  else if (!ep.deactivated())
    c.fail("C18/server/oversized-frame-buffered", "frame declaring 4294967296 bytes with maxFrameSize 1000: after 20000 payload bytes the session is still active");
}

PBT_REGRESSION(client_oversized_declared_frame)
{
  if (!clientReachable()) return;
  hostileClientOversized(c, 1ULL << 62, 4096);
}

PBT_MAIN()
