// libFuzzer target for C19: DnsMessage::parse on arbitrary bytes.
// Oracle (all inside the target):
//   * parse returns or throws a std::exception (anything else, a sanitizer report or a
//     libFuzzer timeout is a failure); the input is an exact-size heap copy.
//   * differential: whatever the independent STRICT reference decoder accepts is an
//     unambiguously well-formed message - iora must accept it and decode exactly the same
//     header, questions, generic and typed records.
//   * any decoded message satisfies the layout invariants (section sizes = header counts,
//     records fit into the input, typed views are sub-sequences of the generic ones), its
//     header re-packs to the first 12 input octets, and re-encoding it canonically (own
//     encoder, no compression) and decoding again yields the same header, questions, generic
//     records and context-free typed records (A / AAAA / TXT).
#include "pbt_fuzz.hpp"
#include "c19_compare.hpp"

#include <memory>

namespace pbt
{
// c19_compare.hpp only needs these helpers from the pbt runtime (not linked into fuzz targets)
std::uint64_t hash64(std::string_view s) { return pbtf::hash64(s); }
std::string show(std::string_view s, std::size_t n)
{
  std::string o;
  static const char *hexd = "0123456789abcdef";
  for (unsigned char ch : s.substr(0, n))
  {
    if (ch >= 0x20 && ch < 0x7f && ch != '\\') o += (char)ch;
    else
    {
      o += "\\x";
      o += hexd[ch >> 4];
      o += hexd[ch & 15];
    }
  }
  return o;
}
std::string hex(std::string_view s, std::size_t n)
{
  std::string o;
  static const char *hexd = "0123456789abcdef";
  for (unsigned char ch : s.substr(0, n))
  {
    o += hexd[ch >> 4];
    o += hexd[ch & 15];
  }
  return o;
}
} // namespace pbt

using namespace c19;

// ASan defaults for this binary (keys given in ASAN_OPTIONS by the driver still win). Recording a
// 30-frame stack for every malloc/free made a shard retain ~150 KiB per case in ASan's stack depot
// (2.4 GiB after 15 000 construct cases) and tripled the run time; error stacks are not affected.
extern "C" const char *__asan_default_options() { return "malloc_context_size=3:quarantine_size_mb=32"; }

namespace
{
struct Quiet
{
  Quiet() { iora::core::Logger::setLevel(iora::core::Logger::Level::Fatal); }
} g_quiet;

bool splitName(const std::string &n, Labels &out)
{
  out.clear();
  if (n.empty()) return true;
  std::size_t start = 0;
  for (;;)
  {
    std::size_t dot = n.find('.', start);
    std::string l = n.substr(start, dot == std::string::npos ? std::string::npos : dot - start);
    if (l.empty() || l.size() > 63) return false;
    out.push_back(l);
    if (dot == std::string::npos) break;
    start = dot + 1;
  }
  return refdns::wireLen(out) <= 255;
}

/// canonical re-encoding of a decoded message (no compression, RDATA verbatim)
bool reencode(const DnsResult &r, Bytes &out)
{
  refdns::NoCompression nc;
  refdns::Encoder e(nc);
  refdns::Header h;
  h.id = r.header.id;
  h.qr = r.header.qr;
  h.opcode = (std::uint8_t)r.header.opcode;
  h.aa = r.header.aa;
  h.tc = r.header.tc;
  h.rd = r.header.rd;
  h.ra = r.header.ra;
  h.z = r.header.z;
  h.rcode = (std::uint8_t)r.header.rcode;
  e.header(h, (unsigned)r.questions.size(), (unsigned)r.answers.size(), (unsigned)r.authority.size(), (unsigned)r.additional.size());
  Labels l;
  for (auto &q : r.questions)
  {
    if (!splitName(q.qname, l)) return false;
    e.plainName(l);
    e.u16((unsigned)q.qtype);
    e.u16((unsigned)q.qclass);
  }
  for (auto *v : {&r.answers, &r.authority, &r.additional})
    for (auto &x : *v)
    {
      if (!splitName(x.name, l)) return false;
      e.plainName(l);
      e.u16((unsigned)x.type);
      e.u16((unsigned)x.cls);
      e.u32(x.ttl);
      e.u16((unsigned)x.rdata.size());
      e.raw(x.rdata);
    }
  out = std::move(e.out);
  return true;
}

bool sameGeneric(const std::vector<DnsResourceRecord> &a, const std::vector<DnsResourceRecord> &b)
{
  if (a.size() != b.size()) return false;
  for (std::size_t i = 0; i < a.size(); ++i)
    if (a[i].name != b[i].name || a[i].type != b[i].type || a[i].cls != b[i].cls || a[i].ttl != b[i].ttl || a[i].rdlength != b[i].rdlength ||
        a[i].rdata != b[i].rdata)
      return false;
  return true;
}
} // namespace

extern "C" int LLVMFuzzerTestOneInput(const uint8_t *data, size_t size)
{
  pbtf::count();
  std::unique_ptr<std::uint8_t[]> buf(new std::uint8_t[size ? size : 1]);
  if (size) std::memcpy(buf.get(), data, size);
  std::string_view in(reinterpret_cast<const char *>(buf.get()), size);

  bool ok = false;
  DnsResult res;
  std::string what;
  try
  {
    res = DnsMessage::parse(buf.get(), size);
    ok = true;
  }
  catch (const std::exception &e)
  {
    what = e.what();
  }

  // ---- differential against the strict reference decoder
  Message ref;
  refdns::StrictDecoder sd(buf.get(), size);
  bool strict = sd.message(ref);
  if (strict)
  {
    pbtf::label("strictly well-formed input");
    if (!ok)
    {
      if (pbtf::fail(rejectionSig(ref, what), "well-formed message rejected: " + what + " input=" + pbt::hex(in, 300))) return 0;
    }
    else
    {
      Diff d = compare(res, ref);
      if (!d.ok() && pbtf::fail("C19/construct/" + d.shape, d.why + " input=" + pbt::hex(in, 300))) return 0;
    }
  }
  if (!ok)
  {
    pbtf::label("rejected");
    return 0;
  }
  pbtf::label("decoded");
  pbtf::nontrivial(pbtf::hash64(in), pbt::hex(in, 200));

  // ---- invariants of any decoded message
  std::string inv = decodedInvariant(res, size);
  if (!inv.empty() && pbtf::fail("C19/decode/invariant", inv + " input=" + pbt::hex(in, 300))) return 0;
  {
    refdns::Header h;
    h.id = res.header.id;
    h.qr = res.header.qr;
    h.opcode = (std::uint8_t)res.header.opcode;
    h.aa = res.header.aa;
    h.tc = res.header.tc;
    h.rd = res.header.rd;
    h.ra = res.header.ra;
    h.z = res.header.z;
    h.rcode = (std::uint8_t)res.header.rcode;
    refdns::NoCompression nc;
    refdns::Encoder e(nc);
    e.header(h, res.header.qdcount, res.header.ancount, res.header.nscount, res.header.arcount);
    if (std::memcmp(e.out.data(), buf.get(), 12) != 0 && pbtf::fail("C19/construct/header", "decoded header does not re-pack to the input header: " + pbt::hex(in, 12))) return 0;
  }
  // ---- canonical re-encoding decodes to the same message
  Bytes again;
  if (!reencode(res, again))
  {
    pbtf::label("decoded names not re-encodable (empty label in dotted form)");
    return 0;
  }
  std::unique_ptr<std::uint8_t[]> buf2(new std::uint8_t[again.size()]);
  std::memcpy(buf2.get(), again.data(), again.size());
  try
  {
    DnsResult r2 = DnsMessage::parse(buf2.get(), again.size());
    bool same = r2.questions.size() == res.questions.size() && sameGeneric(r2.answers, res.answers) && sameGeneric(r2.authority, res.authority) &&
                sameGeneric(r2.additional, res.additional);
    for (std::size_t i = 0; same && i < res.questions.size(); ++i)
      same = r2.questions[i].qname == res.questions[i].qname && r2.questions[i].qtype == res.questions[i].qtype && r2.questions[i].qclass == res.questions[i].qclass;
    same = same && r2.a_records.size() == res.a_records.size() && r2.aaaa_records.size() == res.aaaa_records.size() && r2.txt_records.size() == res.txt_records.size();
    for (std::size_t i = 0; same && i < res.a_records.size(); ++i) same = r2.a_records[i].address == res.a_records[i].address && r2.a_records[i].name == res.a_records[i].name;
    for (std::size_t i = 0; same && i < res.aaaa_records.size(); ++i) same = r2.aaaa_records[i].address == res.aaaa_records[i].address;
    for (std::size_t i = 0; same && i < res.txt_records.size(); ++i) same = r2.txt_records[i].text == res.txt_records[i].text;
    if (!same) pbtf::fail("C19/reencode/differs", "decode(reencode(decode(x))) != decode(x) for x=" + pbt::hex(in, 300));
  }
  catch (const std::exception &e)
  {
    pbtf::fail("C19/reencode/rejected", std::string("canonical re-encoding of a decoded message is rejected: ") + e.what() + " x=" + pbt::hex(in, 300));
  }
  return 0;
}
