// c07_tls.cpp - C07: "TLS sessions authenticate the peer as configured and never
// downgrade". Fault enumeration over a finite configuration matrix.
//
// One case = one cell of the matrix: an iora endpoint (client transport via connect()
// or connectSync(), server transport, HttpClient, HttpServer) configured as the cell
// says, against an *independent* peer (OpenSSL over memory BIOs / plaintext / garbage;
// harness/common/c07_peer.hpp) that presents the certificates of an in-process PKI
// (harness/common/c07_certs.hpp). An independent decision table (decide()) computes
// from the cell alone - straight from the property text - whether iora MUST NOT admit
// the peer. Observed facts are positive observations only (a callback fired, a call
// returned ok, a byte string was seen): slowness is never a violation, and a refused
// valid peer is never a violation (only-if is not if).
//
// Properties:
//   sample    random cells (block weighted, then uniform)
//   critical  deterministic enumeration of the authentication-critical sub-matrix
//   walk      deterministic enumeration of the whole matrix (thorough tier)
//   selftest  the independent peers alone (no iora): shows that they really can
//             negotiate TLS 1.0/1.1 and reject bad certificates (non-vacuity)
#include "c07_core.hpp"

#include "iora/core/logger.hpp"
#include "iora/network/transport.hpp"
#include "iora/network/transport_impl.hpp"

#include <csignal>
#include <map>
#include <fstream>
#include <memory>

using namespace iora::network;
using namespace c07;

namespace
{

// A block is a full Cartesian product over the listed values of each dimension
// (dimensions that cannot matter for the block's role/peer are pinned to one value).
struct Block
{
  const char *name;
  int weight; // for the random sample
  std::array<std::vector<int>, D_COUNT> values;
  std::uint32_t size = 0, base = 0;
};

struct Matrix
{
  std::vector<Block> blocks;
  std::uint32_t total = 0;
  std::vector<std::uint32_t> critical; // indices of the authentication-critical sub-matrix

  static Matrix &get()
  {
    static Matrix *m = new Matrix;
    return *m;
  }

  Cell decode(std::uint32_t idx, const Block **blk = nullptr) const
  {
    for (auto &b : blocks)
    {
      if (idx < b.base + b.size)
      {
        std::uint32_t r = idx - b.base;
        Cell c{};
        for (int d = D_COUNT - 1; d >= 0; --d)
        {
          auto n = (std::uint32_t)b.values[d].size();
          c[d] = b.values[d][r % n];
          r /= n;
        }
        if (blk) *blk = &b;
        return c;
      }
    }
    return Cell{};
  }

  std::uint32_t encode(const Cell &c) const // first block that contains the cell; UINT32_MAX if none
  {
    for (auto &b : blocks)
    {
      std::uint32_t r = 0;
      bool ok = true;
      for (int d = 0; d < D_COUNT && ok; ++d)
      {
        auto &vs = b.values[d];
        std::size_t k = 0;
        while (k < vs.size() && vs[k] != c[d]) ++k;
        if (k == vs.size()) ok = false;
        else r = r * (std::uint32_t)vs.size() + (std::uint32_t)k;
      }
      if (ok) return b.base + r;
    }
    return UINT32_MAX;
  }

private:
  void add(Block b)
  {
    b.size = 1;
    for (auto &v : b.values) b.size *= (std::uint32_t)v.size();
    b.base = total;
    total += b.size;
    blocks.push_back(std::move(b));
  }

  static bool isCritical(const Cell &c)
  {
    if (c[D_CFG] != CFG_OK) return true;     // every "TLS requested but not switched on" cell
    if (c[D_SCEN] != SCEN_NORMAL) return true; // every close-during-handshake cell
    if (c[D_KIND] != K_OPENSSL) return true; // every plaintext / garbage cell
    bool canSetMin = c[D_ROLE] != R_HTTP_CLIENT && c[D_ROLE] != R_HTTP_SERVER;
    bool lowCeil = c[D_CEIL] < V12;
    if (isClientRole(c[D_ROLE]))
    {
      if (c[D_PEERREQ] != 0 || c[D_CLICERT] != CC_NONE) return false;
      if (lowCeil) // downgrade probes: everything else at its most permissive
        return c[D_VERIFY] == 0 && c[D_TRUST] == T_RIGHT && c[D_SRVCERT] == SC_VALID && c[D_BY] == BY_IP &&
               (!canSetMin || c[D_MINVER] == MV_0 || c[D_MINVER] == MV_10);
      if (canSetMin && c[D_MINVER] != MV_0) return false;
      if (c[D_VERIFY] == 1) return true; // every trust x certificate x name combination
      return c[D_TRUST] == T_RIGHT && c[D_SRVCERT] == SC_VALID; // verify-off baseline
    }
    if (c[D_SRVCERT] != SC_VALID) return false;
    if (lowCeil)
      return c[D_VERIFY] == 0 && c[D_SRVCA] == CA_RIGHT && c[D_CLICERT] == CC_NONE &&
             (!canSetMin || c[D_MINVER] == MV_0 || c[D_MINVER] == MV_10);
    if (canSetMin && c[D_MINVER] != MV_0) return false;
    if (c[D_VERIFY] == 1) return true; // every CA x client certificate combination
    return c[D_SRVCA] == CA_RIGHT && c[D_CLICERT] == CC_NONE;
  }

  Matrix()
  {
    const std::vector<int> onoff{0, 1}, allVer{V10, V11, V12, V13}, allMin{MV_0, MV_10, MV_12, MV_13},
      allBy{BY_IP, BY_NAME}, allSc{SC_VALID, SC_SELFSIGNED, SC_EXPIRED, SC_WRONGNAME, SC_MISMATCH},
      // certificates the PEER presents to a verifying iora endpoint additionally come in two not-yet-valid forms
      peerSc{SC_VALID, SC_SELFSIGNED, SC_EXPIRED, SC_WRONGNAME, SC_MISMATCH, SC_NOTYET, SC_NOTYET_FAR, SC_SAN_OTHER_CN,
             SC_NOSAN_CN},
      trust5{T_RIGHT, T_WRONG, T_NONE, T_WRONG_SYS_RIGHT, T_SYS_RIGHT}, trust3{T_RIGHT, T_WRONG, T_NONE},
      cc3{CC_NONE, CC_VALID, CC_UNTRUSTED}, cc7{CC_NONE, CC_VALID, CC_UNTRUSTED, CC_EXPIRED, CC_SELFSIGNED, CC_NOTYET, CC_NOTYET_FAR},
      ca3{CA_RIGHT, CA_WRONG, CA_NONE}, raw{K_PLAINTEXT, K_GARBAGE};
    auto one = [](int v) { return std::vector<int>{v}; };

    Block b;
    // ---- iora client transport (connect / connectSync) vs OpenSSL server
    b = Block{"client/openssl", 40, {}};
    b.values = {std::vector<int>{R_CLIENT_ASYNC, R_CLIENT_SYNC}, one(K_OPENSSL), onoff, trust5, peerSc, onoff, cc3,
                allVer, allMin, allBy, one(CA_RIGHT), one(CFG_OK), one(SCEN_NORMAL)};
    add(b);
    b = Block{"client/raw", 6, {}};
    b.values = {std::vector<int>{R_CLIENT_ASYNC, R_CLIENT_SYNC}, raw, onoff, trust3, one(SC_VALID), one(0),
                one(CC_NONE), one(V13), allMin, allBy, one(CA_RIGHT), one(CFG_OK), one(SCEN_NORMAL)};
    add(b);
    // ---- iora server transport vs OpenSSL client
    b = Block{"server/openssl", 22, {}};
    b.values = {one(R_SERVER), one(K_OPENSSL), onoff, one(T_RIGHT), allSc, one(0), cc7, allVer, allMin, one(BY_IP), ca3,
                one(CFG_OK), one(SCEN_NORMAL)};
    add(b);
    b = Block{"server/raw", 4, {}};
    b.values = {one(R_SERVER), raw, onoff, one(T_RIGHT), one(SC_VALID), one(0), one(CC_NONE), one(V13), allMin,
                one(BY_IP), ca3, one(CFG_OK), one(SCEN_NORMAL)};
    add(b);
    // ---- HttpClient vs OpenSSL server speaking HTTP
    b = Block{"httpclient/openssl", 18, {}};
    b.values = {one(R_HTTP_CLIENT), one(K_OPENSSL), onoff, trust5, peerSc, onoff, cc3, allVer, one(MV_0), allBy,
                one(CA_RIGHT), one(CFG_OK), one(SCEN_NORMAL)};
    add(b);
    b = Block{"httpclient/raw", 3, {}};
    b.values = {one(R_HTTP_CLIENT), raw, onoff, trust5, one(SC_VALID), one(0), one(CC_NONE), one(V13), one(MV_0),
                allBy, one(CA_RIGHT), one(CFG_OK), one(SCEN_NORMAL)};
    add(b);
    // ---- HttpServer vs OpenSSL client speaking HTTP
    b = Block{"httpserver/openssl", 6, {}};
    b.values = {one(R_HTTP_SERVER), one(K_OPENSSL), onoff, one(T_RIGHT), allSc, one(0), cc7, allVer, one(MV_0),
                one(BY_IP), ca3, one(CFG_OK), one(SCEN_NORMAL)};
    add(b);
    b = Block{"httpserver/raw", 1, {}};
    b.values = {one(R_HTTP_SERVER), raw, onoff, one(T_RIGHT), one(SC_VALID), one(0), one(CC_NONE), one(V13),
                one(MV_0), one(BY_IP), ca3, one(CFG_OK), one(SCEN_NORMAL)};
    add(b);
    // ---- a session requested with TLS (TlsMode::Client / TlsMode::Server passed to connect / addListener)
    //      on a transport whose TlsConfig is filled in but not switched on
    b = Block{"transport/tls-not-switched-on", 2, {}};
    b.values = {std::vector<int>{R_CLIENT_ASYNC, R_CLIENT_SYNC, R_SERVER}, std::vector<int>{K_OPENSSL, K_PLAINTEXT}, onoff,
                one(T_RIGHT), one(SC_VALID), one(0), one(CC_VALID), one(V13), one(MV_0), one(BY_IP), one(CA_RIGHT),
                std::vector<int>{CFG_NOT_ENABLED, CFG_NO_MODE}, one(SCEN_NORMAL)};
    add(b);
    // ---- the application writes and closes while the handshake is still running (connect()+send()+close(), or a
    //      listener whose onAccept sends and closes), against a peer that answers late (OpenSSL) or never (silent sink)
    b = Block{"transport/close-during-handshake", 10, {}};
    b.values = {std::vector<int>{R_CLIENT_ASYNC, R_SERVER}, std::vector<int>{K_OPENSSL, K_PLAINTEXT}, onoff, one(T_RIGHT),
                one(SC_VALID), one(0), one(CC_VALID), std::vector<int>{V12, V13}, one(MV_0), one(BY_IP), one(CA_RIGHT),
                one(CFG_OK), one(SCEN_CLOSE_IN_HANDSHAKE)};
    add(b);

    for (std::uint32_t i = 0; i < total; ++i)
      if (isCritical(decode(i))) critical.push_back(i);
    if (std::getenv("C07_PRINT_MATRIX"))
    {
      for (auto &blk : blocks) std::fprintf(stderr, "block %-20s base=%u size=%u\n", blk.name, blk.base, blk.size);
      std::fprintf(stderr, "total=%u critical=%zu\n", total, critical.size());
    }
  }
};

std::string describeCell(std::uint32_t idx, const Ctx &x)
{
  const Cell &c = x.cell;
  const bool early = x.early;
  const int garbageForm = x.garbageForm;
  pbt::Fmt f;
  f << "cell#" << idx;
  for (int d = 0; d < D_COUNT; ++d)
  {
    bool client = isClientRole(c[D_ROLE]);
    if ((d == D_TRUST || d == D_PEERREQ || d == D_BY) && !client) continue;
    if (d == D_SRVCA && client) continue;
    if (d == D_CFG && c[d] == CFG_OK) continue;
    if (d == D_SCEN && c[d] == SCEN_NORMAL) continue;
    f << " " << dimName(d) << "=" << valueName(d, c[d]);
  }
  f << " earlySend=" << (early ? 1 : 0);
  if (c[D_KIND] == K_GARBAGE) f << " garbageForm=" << garbageForm;
  if (c[D_SCEN] == SCEN_CLOSE_IN_HANDSHAKE)
    f << " burst=" << x.burst.size() << "x32B closeAfterUs=" << x.closeDelayUs << " peerAnswersAfterMs="
      << (c[D_KIND] == K_OPENSSL ? std::to_string(x.peerDelayMs) : std::string("never"));
  return f;
}

// ------------------------------------------------- the independent decision table
// Derived from the property text only (never from iora's behaviour):
//  * with verification enabled a client session may be admitted ONLY IF the server
//    proved possession of a certificate that chains to a configured trust anchor, is
//    within its validity period and - for connections made to a host name - is issued
//    for that name;
//  * a server that requires client certificates admits ONLY clients presenting a valid
//    one;
//  * no session below TLS 1.2, whatever the two sides' limits.
struct Verdict
{
  bool mustNotAdmit = false;
  std::string reason;        // structural reason (part of the signature)
  bool baseline = false;     // a cell in which a correct implementation is expected to admit (labels only)
};

Verdict decide(const Cell &c)
{
  Verdict v;
  const bool client = isClientRole(c[D_ROLE]);
  const bool verify = c[D_VERIFY] == 1;
  if (c[D_KIND] != K_OPENSSL)
  {
    // the peer never speaks TLS: it proves nothing. A server-role session that is
    // announced / delivers data would have to be a clear-text one; a verifying client
    // has nothing it could have verified.
    if (!client || verify)
    {
      v.mustNotAdmit = true;
      v.reason = "peer-never-spoke-tls";
    }
    return v;
  }
  if (c[D_CEIL] < V12)
  {
    v.mustNotAdmit = true; // any completed session would be below TLS 1.2
    v.reason = "session-below-tls12";
    return v;
  }
  if (client)
  {
    const int sc = c[D_SRVCERT], tr = c[D_TRUST];
    if (verify)
    {
      if (sc == SC_MISMATCH) v.reason = "server-without-private-key";
      else if (sc == SC_SELFSIGNED) v.reason = "self-signed-server-certificate";
      else if (tr == T_WRONG || tr == T_NONE) v.reason = "server-chain-not-anchored";
      else if (tr == T_WRONG_SYS_RIGHT) v.reason = "server-chain-to-unconfigured-anchor";
      else if (sc == SC_EXPIRED) v.reason = "expired-server-certificate";
      else if (sc == SC_NOTYET || sc == SC_NOTYET_FAR) v.reason = "not-yet-valid-server-certificate";
      else if (sc == SC_WRONGNAME && c[D_BY] == BY_NAME) v.reason = "hostname-not-verified";
      // dNSName SANs present and none of them is the host: not issued for that name, whatever the subject CN says
      // (RFC 6125 6.4.4 / RFC 9525). HttpClient checks no name at all: same shape as the wrong-name certificate there.
      else if (sc == SC_SAN_OTHER_CN && c[D_BY] == BY_NAME)
        v.reason = c[D_ROLE] == R_HTTP_CLIENT ? "hostname-not-verified" : "hostname-matched-by-cn-despite-san-for-other-names";
      v.mustNotAdmit = !v.reason.empty();
    }
    if (!v.mustNotAdmit)
    {
      // expected to work: possession provable, versions compatible, and the peer's own
      // client-certificate demand satisfiable
      bool versions = versionConst(c[D_CEIL]) >= std::max(minVersionConst(c[D_MINVER]), (int)TLS1_2_VERSION);
      bool peerHappy = c[D_PEERREQ] == 0 || c[D_CLICERT] == CC_VALID;
      v.baseline = sc != SC_MISMATCH && versions && peerHappy && c[D_CFG] == CFG_OK && c[D_SCEN] == SCEN_NORMAL &&
                   sc != SC_SAN_OTHER_CN && sc != SC_NOSAN_CN;
    }
    return v;
  }
  // server roles: the client certificate must chain to the CA the server was configured
  // with (cliCert "issuedByCaB" is a perfectly valid certificate for a server whose caFile
  // is CA B), be within its validity period, and exist at all
  if (verify)
  {
    const int cc = c[D_CLICERT];
    const bool byCaA = cc == CC_VALID || cc == CC_EXPIRED || cc == CC_NOTYET || cc == CC_NOTYET_FAR;
    const int issuer = byCaA ? CA_RIGHT : (cc == CC_UNTRUSTED ? CA_WRONG : CA_NONE);
    if (cc == CC_NONE) v.reason = "client-without-certificate";
    else if (cc == CC_SELFSIGNED) v.reason = "self-signed-client-certificate";
    else if (c[D_SRVCA] == CA_NONE || issuer != c[D_SRVCA]) v.reason = "client-chain-not-anchored";
    else if (cc == CC_EXPIRED) v.reason = "expired-client-certificate";
    else if (cc == CC_NOTYET || cc == CC_NOTYET_FAR) v.reason = "not-yet-valid-client-certificate";
    v.mustNotAdmit = !v.reason.empty();
  }
  if (!v.mustNotAdmit)
  {
    bool versions = versionConst(c[D_CEIL]) >= std::max(minVersionConst(c[D_MINVER]), (int)TLS1_2_VERSION);
    bool loadable = c[D_SRVCERT] == SC_VALID || c[D_SRVCERT] == SC_SELFSIGNED || c[D_SRVCERT] == SC_WRONGNAME;
    bool caOk = !verify || c[D_SRVCA] != CA_NONE;
    v.baseline = versions && loadable && caOk && c[D_CFG] == CFG_OK && c[D_SCEN] == SCEN_NORMAL;
  }
  return v;
}

struct Ev
{
  std::mutex mu;
  std::condition_variable cv;
  bool accepted = false, connected = false, closed = false;
  SessionId acceptedSid = 0;
  std::string closeMsg, dataIn;

  template <class P> bool waitFor(P pred, double seconds)
  {
    std::unique_lock<std::mutex> lk(mu);
    return cv.wait_for(lk, std::chrono::duration<double>(seconds), pred);
  }
};

void fillClientTls(const Cell &c, TransportConfig::TlsConfig &t)
{
  t.enabled = c[D_CFG] != CFG_NOT_ENABLED;
  t.defaultMode = c[D_CFG] == CFG_NO_MODE ? TlsMode::None : TlsMode::Client;
  t.verifyPeer = c[D_VERIFY] == 1;
  t.caFile = clientCaFile(c);
  if (const c07::Identity *id = clientIdentity(c[D_CLICERT]))
  {
    t.certFile = id->certFile;
    t.keyFile = id->keyFile;
  }
  t.minVersion = minVersionConst(c[D_MINVER]);
  // Downgrade probes: OpenSSL's own default security level already refuses TLS 1.0/1.1.
  // Lower it through the documented `ciphers` knob so that iora's floor is the only thing
  // between a peer capped below TLS 1.2 and a completed handshake.
  if (c[D_CEIL] < V12) t.ciphers = "DEFAULT:@SECLEVEL=0";
}

} // namespace

// ------------------------------------------------------- role: client transport
void c07::runClientTransport(Ctx &x)
{
  const Cell &c = x.cell;
  PeerConfig pc = peerConfigFor(x);
  pc.sendOnOpen = x.mk.peerApp;
  applyTrustEnv(systemStoreHasCaA(c)); // before any thread of this case exists
  Peer peer(pc);
  std::uint16_t port = peer.listen();
  if (!port)
  {
    x.obs.note = "peer could not listen";
    return;
  }
  peer.start();
  x.peerRan = true;

  TransportConfig cfg;
  cfg.protocol = Protocol::TCP;
  cfg.connectTimeout = std::chrono::milliseconds(15000);
  cfg.handshakeTimeout = std::chrono::milliseconds(15000);
  fillClientTls(c, cfg.clientTls);

  Ev ev;
  auto t = Transport::tcp(cfg);
  t->onConnect(
    [&ev](SessionId, const TransportAddress &)
    {
      std::lock_guard<std::mutex> g(ev.mu);
      ev.connected = true;
      ev.cv.notify_all();
    });
  t->onData(
    [&ev](SessionId, iora::core::BufferView d, std::chrono::steady_clock::time_point)
    {
      std::lock_guard<std::mutex> g(ev.mu);
      ev.dataIn.append(reinterpret_cast<const char *>(d.data()), d.size());
      ev.cv.notify_all();
    });
  t->onClose(
    [&ev](SessionId, const TransportErrorInfo &why)
    {
      std::lock_guard<std::mutex> g(ev.mu);
      ev.closed = true;
      ev.closeMsg = why.message;
      ev.cv.notify_all();
    });
  t->onError([](TransportError, const std::string &) {});
  auto sr = t->start();
  if (sr.isErr())
  {
    x.obs.startRefused = true;
    x.obs.startError = sr.error().message;
    x.obs.definite = true;
    t.reset();
    peer.stop();
    x.peer = peer.result();
    return;
  }
  const std::string host = c[D_BY] == BY_IP ? "127.0.0.1" : "localhost";
  SessionId sid = 0;
  bool haveSid = false;
  if (c[D_SCEN] == SCEN_CLOSE_IN_HANDSHAKE)
  {
    // connect(), write, close - without waiting for anything. What was written may be sent
    // encrypted (handshake done in time) or dropped, never in clear text.
    auto cr = t->connect(host, port, TlsMode::Client);
    if (cr.isOk())
    {
      sid = cr.value();
      for (const std::string &m : x.burst) t->send(sid, m.data(), m.size());
      if (x.closeDelayUs > 0) std::this_thread::sleep_for(std::chrono::microseconds(x.closeDelayUs));
      t->close(sid);
      x.obs.definite = ev.waitFor([&] { return ev.closed; }, kWait);
    }
    peer.waitFinished(3.0 + x.peerDelayMs / 1000.0); // let it read everything that was put on the wire
    t->stop();
    {
      std::lock_guard<std::mutex> g(ev.mu);
      x.obs.announced = ev.connected;
      x.obs.delivered = !ev.dataIn.empty();
      x.obs.appIn = ev.dataIn;
      x.obs.closed = ev.closed;
      x.obs.closeMsg = ev.closeMsg;
    }
    t.reset();
    peer.stop();
    x.peer = peer.result();
    return;
  }
  if (c[D_ROLE] == R_CLIENT_ASYNC)
  {
    auto cr = t->connect(host, port, TlsMode::Client);
    if (cr.isOk())
    {
      sid = cr.value();
      haveSid = true;
      if (x.early) t->send(sid, x.mk.early.data(), x.mk.early.size());
      x.obs.definite = ev.waitFor([&] { return ev.connected || ev.closed || !ev.dataIn.empty(); }, kWait);
      std::lock_guard<std::mutex> g(ev.mu);
      x.obs.announced = ev.connected;
    }
    else
      x.obs.note = "connect() refused: " + cr.error().message;
  }
  else
  {
    auto cr = t->connectSync(host, port, TlsMode::Client, std::chrono::milliseconds(15000));
    if (cr.isOk())
    {
      sid = cr.value();
      haveSid = true;
      x.obs.announced = true;
      x.obs.definite = true;
    }
    else
    {
      x.obs.closeMsg = cr.error().message;
      x.obs.definite = cr.error().code != TransportError::Timeout;
    }
  }
  if (x.obs.announced)
  {
    t->send(sid, x.mk.ioraApp.data(), x.mk.ioraApp.size());
    // run the exchange to its end: peer's bytes delivered (or close), our bytes at the peer
    ev.waitFor([&] { return ev.closed || contains(ev.dataIn, x.mk.peerApp); }, kWait);
    auto until = std::chrono::steady_clock::now() + std::chrono::seconds(5);
    while (!peer.finished() && !contains(peer.appInNow(), x.mk.ioraApp) && std::chrono::steady_clock::now() < until)
    {
      {
        std::lock_guard<std::mutex> g(ev.mu);
        if (ev.closed) break;
      }
      std::this_thread::sleep_for(std::chrono::microseconds(200));
    }
  }
  if (haveSid)
  {
    t->close(sid);
    if (x.obs.announced || c[D_ROLE] == R_CLIENT_ASYNC) ev.waitFor([&] { return ev.closed; }, 5.0);
  }
  t->stop();
  {
    std::lock_guard<std::mutex> g(ev.mu);
    x.obs.delivered = !ev.dataIn.empty();
    x.obs.appIn = ev.dataIn;
    x.obs.closed = ev.closed;
    if (x.obs.closeMsg.empty()) x.obs.closeMsg = ev.closeMsg;
  }
  t.reset();
  peer.stop();
  x.peer = peer.result();
}

// ------------------------------------------------------- role: server transport
void c07::runServerTransport(Ctx &x)
{
  const Cell &c = x.cell;
  TransportConfig cfg;
  cfg.protocol = Protocol::TCP;
  cfg.handshakeTimeout = std::chrono::milliseconds(15000);
  cfg.serverTls.enabled = c[D_CFG] != CFG_NOT_ENABLED;
  cfg.serverTls.defaultMode = c[D_CFG] == CFG_NO_MODE ? TlsMode::None : TlsMode::Server;
  const c07::Identity *id = serverIdentity(c[D_SRVCERT]);
  cfg.serverTls.certFile = id->certFile;
  cfg.serverTls.keyFile = id->keyFile;
  cfg.serverTls.verifyPeer = c[D_VERIFY] == 1;
  cfg.serverTls.caFile = serverCaFile(c);
  cfg.serverTls.minVersion = minVersionConst(c[D_MINVER]);
  if (c[D_CEIL] < V12) cfg.serverTls.ciphers = "DEFAULT:@SECLEVEL=0"; // see fillClientTls
  applyTrustEnv(false);

  // Sessions are keyed by the remote port reported at accept time: only the session
  // whose remote port is the source port of THIS case's peer counts. (iora listeners
  // set SO_REUSEPORT, so a stray connection from another process is conceivable.)
  struct Sess
  {
    std::uint16_t port = 0;
    bool connected = false, closed = false;
    std::string closeMsg, dataIn;
  };
  struct SrvEv
  {
    std::mutex mu;
    std::condition_variable cv;
    std::map<SessionId, Sess> sess;
  } ev;
  auto find = [&ev](std::uint16_t port) -> std::pair<SessionId, Sess *>
  {
    if (port)
      for (auto &kv : ev.sess)
        if (kv.second.port == port) return {kv.first, &kv.second};
    return {0, nullptr};
  };

  auto t = Transport::tcp(cfg);
  Transport *tp = t.get(); // never capture the owning pointer in the transport's own callbacks
  const bool scen = c[D_SCEN] == SCEN_CLOSE_IN_HANDSHAKE;
  const bool early = x.early && !scen;
  const std::string earlyBytes = x.mk.early;
  const std::vector<std::string> burst = x.burst;
  const bool closeInCallback = scen && x.closeDelayUs == 0;
  t->onAccept(
    [&ev, tp, early, earlyBytes, burst, closeInCallback](SessionId sid, const TransportAddress &peerAddr)
    {
      {
        std::lock_guard<std::mutex> g(ev.mu);
        ev.sess[sid].port = peerAddr.port;
        ev.cv.notify_all();
      }
      // a greeting written from onAccept precedes the handshake: it must be held back
      if (early) tp->send(sid, earlyBytes.data(), earlyBytes.size());
      for (const std::string &m : burst) tp->send(sid, m.data(), m.size());
      if (closeInCallback) tp->close(sid); // "send a notice and hang up" straight from onAccept
    });
  t->onConnect(
    [&ev](SessionId sid, const TransportAddress &)
    {
      std::lock_guard<std::mutex> g(ev.mu);
      ev.sess[sid].connected = true;
      ev.cv.notify_all();
    });
  t->onData(
    [&ev](SessionId sid, iora::core::BufferView d, std::chrono::steady_clock::time_point)
    {
      std::lock_guard<std::mutex> g(ev.mu);
      ev.sess[sid].dataIn.append(reinterpret_cast<const char *>(d.data()), d.size());
      ev.cv.notify_all();
    });
  t->onClose(
    [&ev](SessionId sid, const TransportErrorInfo &why)
    {
      std::lock_guard<std::mutex> g(ev.mu);
      ev.sess[sid].closed = true;
      ev.sess[sid].closeMsg = why.message;
      ev.cv.notify_all();
    });
  t->onError([](TransportError, const std::string &) {});
  auto sr = t->start();
  if (sr.isErr())
  {
    x.obs.startRefused = true;
    x.obs.startError = sr.error().message;
    x.obs.definite = true;
    return;
  }
  std::uint16_t port = 0;
  auto lr = t->addListener("127.0.0.1", 0, TlsMode::Server);
  if (lr.isOk()) port = t->getListenerAddress(lr.value()).port;
  if (!port)
  {
    // the transport refused the listener (e.g. TLS requested but not configured): a definite refusal
    x.obs.startRefused = true;
    x.obs.startError = lr.isErr() ? "addListener: " + lr.error().message : "addListener: no port";
    x.obs.definite = true;
    t->stop();
    return;
  }

  PeerConfig pc = peerConfigFor(x);
  pc.connectPort = port;
  pc.sendOnOpen = x.mk.peerApp;
  Peer peer(pc);
  peer.start();
  x.peerRan = true;

  auto waitFor = [&](auto pred, double seconds)
  {
    std::unique_lock<std::mutex> lk(ev.mu);
    return ev.cv.wait_for(lk, std::chrono::duration<double>(seconds),
                          [&]
                          {
                            auto s = find(peer.localPort());
                            return s.second && pred(*s.second);
                          });
  };
  if (scen)
  {
    // the application hangs up 0-5 ms after the accept, whatever the handshake is doing
    bool accepted = waitFor([](const Sess &) { return true; }, kWait);
    if (accepted && !closeInCallback)
    {
      std::this_thread::sleep_for(std::chrono::microseconds(x.closeDelayUs));
      SessionId s0 = 0;
      {
        std::lock_guard<std::mutex> g(ev.mu);
        s0 = find(peer.localPort()).first;
      }
      if (s0) t->close(s0);
    }
    x.obs.definite = accepted && waitFor([](const Sess &s) { return s.closed; }, kWait);
    peer.waitFinished(3.0 + x.peerDelayMs / 1000.0); // let it read everything that was put on the wire
    t->stop();
    {
      std::lock_guard<std::mutex> g(ev.mu);
      auto s = find(peer.localPort());
      if (s.second)
      {
        x.obs.announced = s.second->connected;
        x.obs.delivered = !s.second->dataIn.empty();
        x.obs.appIn = s.second->dataIn;
        x.obs.closed = s.second->closed;
        x.obs.closeMsg = s.second->closeMsg;
      }
    }
    t.reset();
    peer.stop();
    x.peer = peer.result();
    return;
  }
  // terminal: the accepted session was closed, or it was announced / delivered data
  x.obs.definite = waitFor([](const Sess &s) { return s.closed || s.connected || !s.dataIn.empty(); }, kWait);
  bool announced = false, gotData = false;
  SessionId sid = 0;
  {
    std::lock_guard<std::mutex> g(ev.mu);
    auto s = find(peer.localPort());
    if (s.second)
    {
      sid = s.first;
      announced = s.second->connected;
      gotData = !s.second->dataIn.empty();
    }
  }
  x.obs.announced = announced;
  if (announced || gotData) // the application considers the session usable: it talks
  {
    t->send(sid, x.mk.ioraApp.data(), x.mk.ioraApp.size());
    const std::string want = x.mk.peerApp;
    waitFor([&want](const Sess &s) { return s.closed || contains(s.dataIn, want); }, kWait);
    auto until = std::chrono::steady_clock::now() + std::chrono::seconds(5);
    while (!peer.finished() && !contains(peer.appInNow(), x.mk.ioraApp) && std::chrono::steady_clock::now() < until)
    {
      {
        std::lock_guard<std::mutex> g(ev.mu);
        if (ev.sess[sid].closed) break;
      }
      std::this_thread::sleep_for(std::chrono::microseconds(200));
    }
  }
  if (sid)
  {
    t->close(sid);
    waitFor([](const Sess &s) { return s.closed; }, 5.0);
  }
  t->stop();
  {
    std::lock_guard<std::mutex> g(ev.mu);
    auto s = find(peer.localPort());
    if (s.second)
    {
      x.obs.delivered = !s.second->dataIn.empty();
      x.obs.appIn = s.second->dataIn;
      x.obs.closed = s.second->closed;
      x.obs.closeMsg = s.second->closeMsg;
    }
    if (ev.sess.size() > 1) x.obs.note = "stray sessions ignored: " + std::to_string(ev.sess.size() - 1);
  }
  t.reset();
  peer.stop();
  x.peer = peer.result();
}

namespace
{

// ----------------------------------------------------------------- the oracle
void judge(Ctx &x, pbt::Case &c)
{
  const Cell &cell = x.cell;
  const Verdict v = decide(cell);
  const Observed &o = x.obs;
  const PeerResult &pr = x.peer;
  const std::string fam = roleFamily(cell[D_ROLE]);
  const bool client = isClientRole(cell[D_ROLE]);
  // a distinct failure shape: TLS was requested per call, but the TlsConfig behind it is not switched on
  const std::string shape = cell[D_CFG] != CFG_OK ? "/tls-config-not-switched-on"
                            : (cell[D_SCEN] == SCEN_CLOSE_IN_HANDSHAKE ? "/close-during-handshake" : "");

  pbt::Fmt seen;
  seen << "observed: startRefused=" << o.startRefused << " announced=" << o.announced << " delivered=" << o.delivered
       << " closed=" << o.closed << " closeMsg='" << o.closeMsg.substr(0, 120) << "' startError='"
       << o.startError.substr(0, 120) << "'; peer: tcp=" << pr.tcpEstablished << " handshakeDone=" << pr.handshakeDone
       << " version=" << c07::versionName(pr.version) << " sawCert=" << pr.sawPeerCert << " error='"
       << pr.handshakeError.substr(0, 120) << "' wireIn=" << pr.wireIn.size() << "B appIn=" << pr.appIn.size() << "B";
  const std::string obsText = seen;

  // 1. clear text on the wire: nothing the iora side wrote as application data may be
  //    readable in what the peer's socket received
  struct Needle
  {
    const std::string *raw;
    const char *what;
  } needles[] = {{&x.mk.early, "bytes sent before the handshake completed"}, {&x.mk.ioraApp, "application bytes"}};
  for (const std::string &m : x.burst)
    if (contains(pr.wireIn, m))
    {
      c.fail("C07/" + fam + "/cleartext-on-wire" + shape,
             "bytes the application wrote while the handshake was running went out in clear text when it closed the "
             "session; " + obsText);
      return;
    }
  for (auto &n : needles)
  {
    bool hit = contains(pr.wireIn, *n.raw) || contains(pr.wireIn, hexOf(*n.raw));
    if (hit)
    {
      c.fail("C07/" + fam + "/cleartext-on-wire" + shape,
             std::string("iora wrote ") + n.what + " in clear text on a session requested with TLS; " + obsText);
      return;
    }
  }
  // 2. clear text accepted: what a never-TLS peer wrote must not reach the application
  if (cell[D_KIND] != K_OPENSSL &&
      (o.delivered || contains(o.appIn, x.mk.peerRaw) || contains(o.appIn, hexOf(x.mk.peerRaw))))
  {
    c.fail("C07/" + fam + "/cleartext-accepted" + shape,
           "bytes written in clear text by a peer that never spoke TLS were delivered to the application; " + obsText);
    return;
  }
  // 3. protocol floor
  if (pr.handshakeDone && pr.version < TLS1_2_VERSION)
  {
    c.fail("C07/" + fam + "/negotiated-below-tls12",
           std::string("handshake completed at ") + c07::versionName(pr.version) + "; " + obsText);
    return;
  }
  if (pr.handshakeDone && minVersionConst(cell[D_MINVER]) > pr.version)
  {
    c.fail("C07/" + fam + "/negotiated-below-configured-minimum",
           std::string("handshake completed at ") + c07::versionName(pr.version) + " with minVersion=" +
             valueName(D_MINVER, cell[D_MINVER]) + "; " + obsText);
    return;
  }
  // 4. admission
  const bool admitted = o.announced || o.delivered;
  if (v.mustNotAdmit && admitted)
  {
    c.fail("C07/" + fam + "/admitted/" + v.reason + shape,
           std::string(client ? "client session admitted although it had to be refused ("
                              : "server admitted a client it had to refuse (") +
             v.reason + "): " + (o.announced ? "announced " : "") + (o.delivered ? "data-delivered " : "") + "; " + obsText);
    return;
  }

  // ---- bookkeeping (never a verdict)
  if (!o.definite)
  {
    c.label("outcome: not definite within bound (" + (o.note.empty() ? std::string("no terminal event") : o.note) + ")");
    c.inconclusive("C07: no terminal event within the wait bound");
    std::fprintf(stderr, "C07-INCONCLUSIVE %s | %s\n", c.description.c_str(), obsText.c_str());
    return;
  }
  std::string cls = o.startRefused ? "configuration refused at start" : (admitted ? "admitted" : "refused");
  c.label(std::string(v.mustNotAdmit ? "must-not-admit" : (v.baseline ? "baseline" : "free")) + " -> " + cls);
  if (v.mustNotAdmit) c.label("must-not-admit reason: " + v.reason);
  if (cell[D_SRVCERT] == SC_NOSAN_CN && isClientRole(cell[D_ROLE]) && cell[D_VERIFY] == 1 && cell[D_BY] == BY_NAME &&
      (cell[D_TRUST] == T_RIGHT || cell[D_TRUST] == T_SYS_RIGHT) && cell[D_CEIL] >= V12)
    c.label(std::string("control (no verdict): CN-only certificate without SAN, by host name, ") + valueName(D_ROLE, cell[D_ROLE]) +
            " -> " + cls);
  if (cell[D_SCEN] == SCEN_CLOSE_IN_HANDSHAKE)
    c.label(std::string("close-during-handshake: burst of ") + std::to_string(x.burst.size()) + ", peer " +
            (cell[D_KIND] == K_OPENSSL ? "answers late" : "never answers") + (pr.handshakeDone ? ", handshake completed first" : ""));
  c.label(std::string("role ") + valueName(D_ROLE, cell[D_ROLE]) + " / peer " + valueName(D_KIND, cell[D_KIND]));
  if (admitted && pr.handshakeDone) c.label(std::string("admitted session version ") + c07::versionName(pr.version));
  if (cell[D_KIND] == K_OPENSSL && cell[D_CEIL] < V12 && !pr.handshakeDone && pr.tcpEstablished)
    c.label("downgrade probe: peer capped below TLS1.2 did not complete");
  if (admitted && contains(pr.appIn, x.mk.ioraApp)) c.label("marker travelled inside TLS and was absent from the wire capture");
  if (admitted && contains(pr.appIn, hexOf(x.mk.ioraApp))) c.label("marker travelled inside TLS and was absent from the wire capture");
  if (x.early && admitted && contains(pr.appIn, x.mk.early)) c.label("early send was held back until the handshake completed");
  c.nontrivial(pbt::hash64(c.description.substr(0, c.description.find(' '))));
}

// ------------------------------------------------------------------ one case
void runCell(std::uint32_t idx, pbt::Src &src, pbt::Case &c)
{
  static bool once = []
  {
    iora::core::Logger::setLevel(iora::core::Logger::Level::Fatal);
    ::signal(SIGPIPE, SIG_IGN);
    Pki::get();
    return true;
  }();
  (void)once;
  Ctx x;
  x.cell = Matrix::get().decode(idx);
  std::uint64_t seed = (std::uint64_t)src.range(1, (std::int64_t)1 << 62);
  x.mk.early = marker32(seed);
  x.mk.ioraApp = marker32(seed);
  x.mk.peerApp = marker32(seed);
  x.mk.peerRaw = marker32(seed);
  x.early = src.coin();
  if (x.cell[D_KIND] == K_GARBAGE)
  {
    x.garbageForm = (int)src.range(0, 3);
    x.blob = src.blob(200);
  }
  if (x.cell[D_SCEN] == SCEN_CLOSE_IN_HANDSHAKE)
  {
    int n = (int)src.range(0, 3);
    for (int i = 0; i < n; ++i) x.burst.push_back(marker32(seed));
    x.closeDelayUs = (int)src.range(0, 5000);
    x.peerDelayMs = (int)src.range(0, 20);
  }
  c.describe(describeCell(idx, x));
  pbt::watchdog(90, "C07/case-did-not-finish");
  switch (x.cell[D_ROLE])
  {
  case R_CLIENT_ASYNC:
  case R_CLIENT_SYNC: runClientTransport(x); break;
  case R_SERVER: runServerTransport(x); break;
  case R_HTTP_CLIENT: runHttpClient(x); break;
  default: runHttpServer(x); break;
  }
  judge(x, c);
}

// -------------------------------------------------- deterministic enumeration
// The driver starts shard k of a property with `--seed VERIF_SEED*1000+k`; an
// enumerating property walks positions k, k+16, k+32, ... of its list, one per case.
// The position is passed through src.range(pos, pos) so that it is part of the
// recorded choice log; a replay (`--replay`, no enumeration context) reads it back
// from the log with the full range. Enumeration is not a random choice: no other
// state influences which cell a case executes.
constexpr long kShards = 16;

struct EnumCtx
{
  bool enumerating = false;
  long shard = 0;
  EnumCtx()
  {
    std::ifstream in("/proc/self/cmdline", std::ios::binary);
    std::string all((std::istreambuf_iterator<char>(in)), std::istreambuf_iterator<char>());
    std::vector<std::string> args;
    std::string cur;
    for (char ch : all)
    {
      if (ch == 0)
      {
        args.push_back(cur);
        cur.clear();
      }
      else
        cur += ch;
    }
    if (!cur.empty()) args.push_back(cur);
    bool replay = false, haveSeed = false;
    long seed = 0;
    for (std::size_t i = 0; i < args.size(); ++i)
    {
      if (args[i] == "--replay" || args[i] == "--regress") replay = true;
      if (args[i] == "--seed" && i + 1 < args.size())
      {
        seed = std::strtol(args[i + 1].c_str(), nullptr, 10);
        haveSeed = true;
      }
    }
    enumerating = haveSeed && !replay;
    shard = seed % 1000;
  }
};

void enumerate(pbt::Src &src, pbt::Case &c, const std::vector<std::uint32_t> *list, std::uint32_t n, long &counter,
               const char *tag)
{
  static EnumCtx ec;
  std::int64_t pos;
  if (ec.enumerating)
  {
    pos = ec.shard + kShards * counter;
    if (ec.shard >= kShards || pos >= (std::int64_t)n)
    {
      c.label(std::string(tag) + ": partition already complete (no-op case)");
      return;
    }
    ++counter;
    pos = src.range(pos, pos);
  }
  else
    pos = src.range(0, (std::int64_t)n - 1);
  runCell(list ? (*list)[(std::size_t)pos] : (std::uint32_t)pos, src, c);
  if (ec.enumerating && pos + kShards >= (std::int64_t)n && !c.failed())
    c.label(std::string(tag) + ": shard finished its partition of the enumeration");
}

} // namespace

PBT_PROPERTY(sample)
{
  // block by weight; inside the block every dimension is drawn on its own, with the
  // values that make a cell uninformative (peer capped below TLS 1.2: refused whatever
  // else the cell says; verification off) drawn less often than uniformly
  Matrix &m = Matrix::get();
  std::int64_t totalW = 0;
  for (auto &b : m.blocks) totalW += b.weight;
  std::int64_t r = src.range(0, totalW - 1);
  const Block *blk = &m.blocks.back();
  for (auto &b : m.blocks)
  {
    if (r < b.weight)
    {
      blk = &b;
      break;
    }
    r -= b.weight;
  }
  Cell cell{};
  for (int d = 0; d < D_COUNT; ++d)
  {
    auto &vs = blk->values[(std::size_t)d];
    std::vector<int> w(vs.size(), 4);
    for (std::size_t k = 0; k < vs.size(); ++k)
    {
      if (d == D_CEIL && vs[k] < V12) w[k] = 1;
      if (d == D_VERIFY && vs[k] == 0) w[k] = 2;
      if (d == D_MINVER && vs[k] != MV_0) w[k] = 2;
    }
    std::int64_t tw = 0;
    for (int x : w) tw += x;
    std::int64_t pick = vs.size() > 1 ? src.range(0, tw - 1) : 0;
    std::size_t k = 0;
    while (k + 1 < vs.size() && pick >= w[k]) pick -= w[k++];
    cell[(std::size_t)d] = vs[k];
  }
  runCell(m.encode(cell), src, c);
}

PBT_PROPERTY(critical)
{
  static long counter = 0;
  Matrix &m = Matrix::get();
  enumerate(src, c, &m.critical, (std::uint32_t)m.critical.size(), counter, "critical");
}

PBT_PROPERTY(walk)
{
  static long counter = 0;
  Matrix &m = Matrix::get();
  enumerate(src, c, nullptr, m.total, counter, "walk");
}

// ------------------------------------------------------------------- self test
// The independent peers against each other, no iora involved. Shows that the
// "never completes" observations of the matrix are attributable to iora: the peers
// really negotiate TLS 1.0 / 1.1, a forged key really cannot prove possession, bad
// certificates really are rejected by an OpenSSL verifier. A disagreement here is a
// defect of the harness or of the OpenSSL build, never of iora: it is recorded as
// inconclusive, not as a violation.
namespace
{
struct PeerPair
{
  PeerResult server, client;
};

PeerPair runPeers(PeerConfig sc, PeerConfig cc)
{
  sc.serverRole = true;
  cc.serverRole = false;
  sc.deadlineSeconds = cc.deadlineSeconds = 10;
  Peer srv(sc);
  cc.connectPort = srv.listen();
  srv.start();
  Peer cli(cc);
  cli.start();
  auto until = std::chrono::steady_clock::now() + std::chrono::seconds(8);
  while (std::chrono::steady_clock::now() < until)
  {
    if (srv.finished() || cli.finished()) break;
    if (!cc.sendOnOpen.empty() && contains(srv.appInNow(), cc.sendOnOpen) && contains(cli.appInNow(), sc.sendOnOpen)) break;
    std::this_thread::sleep_for(std::chrono::microseconds(300));
  }
  cli.stop();
  srv.stop();
  return PeerPair{srv.result(), cli.result()};
}
} // namespace

PBT_PROPERTY(selftest)
{
  ::signal(SIGPIPE, SIG_IGN);
  Pki &p = Pki::get();
  std::uint64_t seed = (std::uint64_t)src.range(1, (std::int64_t)1 << 62);
  const std::string m1 = marker32(seed), m2 = marker32(seed);
  int scenario = (int)src.range(0, 7);
  PeerConfig sc, cc;
  sc.cert = p.srvValid.cert;
  sc.key = p.srvValid.key;
  sc.sendOnOpen = m1;
  cc.sendOnOpen = m2;
  bool expectComplete = true;
  int expectVersion = TLS1_3_VERSION;
  std::string name;
  switch (scenario)
  {
  case 0:
    name = "peers negotiate TLS1.0";
    sc.maxVersion = TLS1_VERSION;
    expectVersion = TLS1_VERSION;
    break;
  case 1:
    name = "peers negotiate TLS1.1";
    cc.maxVersion = TLS1_1_VERSION;
    expectVersion = TLS1_1_VERSION;
    break;
  case 2:
    name = "peers negotiate TLS1.2 and TLS1.3";
    sc.maxVersion = src.coin() ? TLS1_2_VERSION : TLS1_3_VERSION;
    expectVersion = sc.maxVersion;
    break;
  case 3:
    name = "a forged key (certificate's public point, foreign private scalar) cannot complete a handshake";
    sc.key = p.srvForgedKey;
    sc.maxVersion = src.coin() ? TLS1_2_VERSION : TLS1_3_VERSION;
    expectComplete = false;
    break;
  case 4:
    name = "verifying client rejects expired / self-signed / foreign-CA / not-yet-valid server certificates";
    {
      int k = (int)src.range(0, 4);
      const c07::Identity &id =
        k == 0 ? p.srvExpired : (k == 1 ? p.srvSelfSigned : (k == 2 ? p.srvValid : (k == 3 ? p.srvNotYet : p.srvNotYetFar)));
      sc.cert = id.cert;
      sc.key = id.key;
      cc.requirePeerCert = true;
      cc.trustCa = k == 2 ? p.caB.cert : p.caA.cert;
    }
    expectComplete = false;
    break;
  case 5:
    name = "verifying client accepts the valid server certificate";
    cc.requirePeerCert = true;
    cc.trustCa = p.caA.cert;
    break;
  case 6:
    name = "server requiring client certificates rejects none / foreign-CA / expired / self-signed / not-yet-valid";
    {
      int k = (int)src.range(0, 5);
      const c07::Identity *id =
        k == 0 ? nullptr
               : (k == 1 ? &p.cliUntrusted
                         : (k == 2 ? &p.cliExpired : (k == 3 ? &p.cliSelfSigned : (k == 4 ? &p.cliNotYet : &p.cliNotYetFar))));
      if (id)
      {
        cc.cert = id->cert;
        cc.key = id->key;
      }
      sc.requirePeerCert = true;
      sc.trustCa = p.caA.cert;
      sc.maxVersion = TLS1_2_VERSION; // in TLS 1.2 the client sees the refusal inside its handshake
    }
    expectComplete = false;
    break;
  default:
    name = "server requiring client certificates accepts the valid one";
    cc.cert = p.cliValid.cert;
    cc.key = p.cliValid.key;
    sc.requirePeerCert = true;
    sc.trustCa = p.caA.cert;
    break;
  }
  c.describe("selftest scenario " + std::to_string(scenario) + ": " + name);
  pbt::watchdog(60, "C07/case-did-not-finish");
  PeerPair r = runPeers(sc, cc);
  bool completed = r.server.handshakeDone && r.client.handshakeDone;
  bool ok;
  if (expectComplete)
    ok = completed && r.client.version == expectVersion && contains(r.server.appIn, m2) && contains(r.client.appIn, m1) &&
         !contains(r.server.wireIn, m2) && !contains(r.client.wireIn, m1);
  else
    ok = !completed;
  if (ok)
  {
    c.label("selftest ok: " + name);
    c.nontrivial(pbt::hash64("selftest" + std::to_string(scenario)));
  }
  else
  {
    c.label("selftest FAILED (harness/OpenSSL build, not iora): " + name);
    c.inconclusive("C07 selftest failed: " + name);
  }
}

// ----------------------------------------------------------------- regressions
namespace
{
// scripted source for hand-written cells: seed 1, earlySend on, garbage form 3
struct FixedSrc : pbt::Src
{
  std::int64_t range(std::int64_t lo, std::int64_t hi) override { return lo == 0 && hi == 3 ? 3 : lo; }
  std::int64_t sized(std::int64_t lo, std::int64_t) override { return lo; }
  std::vector<pbt::Row> rows(std::size_t, std::size_t, std::int64_t, std::int64_t) override { return {}; }
  std::string blob(std::size_t) override { return std::string("\x01\x02\x03\x04", 4); }
};

Cell cellOf(int role, int kind, int verify, int trust, int srvCert, int peerReq, int cliCert, int ceil, int minVer, int by,
            int srvCa, int cfg = CFG_OK, int scen = SCEN_NORMAL)
{
  return Cell{role, kind, verify, trust, srvCert, peerReq, cliCert, ceil, minVer, by, srvCa, cfg, scen};
}

// run fixed cells until the first verdict
void runFixed(pbt::Case &c, std::initializer_list<Cell> cells)
{
  FixedSrc src;
  for (const Cell &cell : cells)
  {
    std::uint32_t idx = Matrix::get().encode(cell);
    if (idx == UINT32_MAX)
    {
      c.fail("harness/regression-cell-not-in-matrix", "a hand-written regression cell is outside the matrix");
      return;
    }
    runCell(idx, src, c);
    if (c.failed() || c.knownHit()) return;
  }
}
} // namespace

// S6: serverTls.verifyPeer set SSL_VERIFY_PEER without SSL_VERIFY_FAIL_IF_NO_PEER_CERT
PBT_REGRESSION(server_requiring_certs_refuses_client_without_one)
{
  runFixed(c, {cellOf(R_SERVER, K_OPENSSL, 1, T_RIGHT, SC_VALID, 0, CC_NONE, V13, MV_0, BY_IP, CA_RIGHT),
               cellOf(R_SERVER, K_OPENSSL, 1, T_RIGHT, SC_VALID, 0, CC_NONE, V12, MV_0, BY_IP, CA_RIGHT),
               cellOf(R_HTTP_SERVER, K_OPENSSL, 1, T_RIGHT, SC_VALID, 0, CC_NONE, V13, MV_0, BY_IP, CA_RIGHT)});
}
// S5 (transport): certificate for another name accepted on a connection made by host name
PBT_REGRESSION(transport_client_checks_host_name)
{
  runFixed(c, {cellOf(R_CLIENT_ASYNC, K_OPENSSL, 1, T_RIGHT, SC_WRONGNAME, 0, CC_NONE, V13, MV_0, BY_NAME, CA_RIGHT),
               cellOf(R_CLIENT_SYNC, K_OPENSSL, 1, T_RIGHT, SC_WRONGNAME, 0, CC_NONE, V12, MV_0, BY_NAME, CA_RIGHT)});
}
// HttpClient::ensureInitialized copied only verifyPeer: caFile was ignored, the system roots were used instead
PBT_REGRESSION(http_client_honours_configured_ca)
{
  runFixed(c, {cellOf(R_HTTP_CLIENT, K_OPENSSL, 1, T_WRONG_SYS_RIGHT, SC_VALID, 0, CC_NONE, V13, MV_0, BY_IP, CA_RIGHT)});
}
// S5 (HttpClient): the URL's host name is resolved before the transport sees it - known finding
PBT_REGRESSION(http_client_checks_host_name)
{
  runFixed(c, {cellOf(R_HTTP_CLIENT, K_OPENSSL, 1, T_SYS_RIGHT, SC_WRONGNAME, 0, CC_NONE, V13, MV_0, BY_NAME, CA_RIGHT)});
}
// connect(.., TlsMode::Client) / addListener(.., TlsMode::Server) on a transport whose TlsConfig is not switched
// on (enabled=false, or defaultMode left at None) silently produced clear-text sessions
PBT_REGRESSION(tls_requested_but_not_switched_on_fails_closed)
{
  runFixed(c, {cellOf(R_CLIENT_ASYNC, K_PLAINTEXT, 0, T_RIGHT, SC_VALID, 0, CC_VALID, V13, MV_0, BY_IP, CA_RIGHT, CFG_NOT_ENABLED),
               cellOf(R_CLIENT_SYNC, K_OPENSSL, 1, T_RIGHT, SC_VALID, 0, CC_VALID, V13, MV_0, BY_IP, CA_RIGHT, CFG_NO_MODE),
               cellOf(R_SERVER, K_PLAINTEXT, 0, T_RIGHT, SC_VALID, 0, CC_VALID, V13, MV_0, BY_IP, CA_RIGHT, CFG_NO_MODE),
               cellOf(R_SERVER, K_OPENSSL, 1, T_RIGHT, SC_VALID, 0, CC_VALID, V13, MV_0, BY_IP, CA_RIGHT, CFG_NOT_ENABLED)});
}
// "is within its validity period" has two ends: a correctly chained, correctly named certificate whose notBefore lies
// in the future (one day, ten years) must be refused by a verifying client and by a server requiring client certificates
PBT_REGRESSION(not_yet_valid_certificates_are_refused)
{
  runFixed(c, {cellOf(R_CLIENT_ASYNC, K_OPENSSL, 1, T_RIGHT, SC_NOTYET, 0, CC_NONE, V13, MV_0, BY_IP, CA_RIGHT),
               cellOf(R_CLIENT_SYNC, K_OPENSSL, 1, T_RIGHT, SC_NOTYET_FAR, 0, CC_NONE, V12, MV_0, BY_NAME, CA_RIGHT),
               cellOf(R_SERVER, K_OPENSSL, 1, T_RIGHT, SC_VALID, 0, CC_NOTYET, V13, MV_0, BY_IP, CA_RIGHT),
               cellOf(R_SERVER, K_OPENSSL, 1, T_RIGHT, SC_VALID, 0, CC_NOTYET_FAR, V12, MV_0, BY_IP, CA_RIGHT),
               cellOf(R_HTTP_CLIENT, K_OPENSSL, 1, T_RIGHT, SC_NOTYET, 0, CC_NONE, V13, MV_0, BY_IP, CA_RIGHT),
               cellOf(R_HTTP_SERVER, K_OPENSSL, 1, T_RIGHT, SC_VALID, 0, CC_NOTYET_FAR, V13, MV_0, BY_IP, CA_RIGHT)});
}
// connect()+send()+close() / onAccept: send()+close() while the handshake is still running: what was queued may be
// dropped or sent inside TLS, never flushed raw by the close (FixedSrc: 3 markers, immediate close, silent / prompt peer)
PBT_REGRESSION(close_during_handshake_never_flushes_clear_text)
{
  runFixed(c, {cellOf(R_CLIENT_ASYNC, K_PLAINTEXT, 0, T_RIGHT, SC_VALID, 0, CC_VALID, V13, MV_0, BY_IP, CA_RIGHT, CFG_OK, SCEN_CLOSE_IN_HANDSHAKE),
               cellOf(R_SERVER, K_PLAINTEXT, 0, T_RIGHT, SC_VALID, 0, CC_VALID, V13, MV_0, BY_IP, CA_RIGHT, CFG_OK, SCEN_CLOSE_IN_HANDSHAKE),
               cellOf(R_CLIENT_ASYNC, K_OPENSSL, 1, T_RIGHT, SC_VALID, 0, CC_VALID, V12, MV_0, BY_IP, CA_RIGHT, CFG_OK, SCEN_CLOSE_IN_HANDSHAKE),
               cellOf(R_SERVER, K_OPENSSL, 1, T_RIGHT, SC_VALID, 0, CC_VALID, V13, MV_0, BY_IP, CA_RIGHT, CFG_OK, SCEN_CLOSE_IN_HANDSHAKE)});
}
// RFC 6125 / 9525: when the certificate carries dNSName SANs the subject CN is not a name source. A right-CA, valid
// certificate with SAN = other hosts and CN = the connect name must be refused on a connection by host name.
PBT_REGRESSION(cn_is_ignored_when_san_names_other_hosts)
{
  runFixed(c, {cellOf(R_CLIENT_ASYNC, K_OPENSSL, 1, T_RIGHT, SC_SAN_OTHER_CN, 0, CC_NONE, V13, MV_0, BY_NAME, CA_RIGHT),
               cellOf(R_CLIENT_SYNC, K_OPENSSL, 1, T_RIGHT, SC_SAN_OTHER_CN, 0, CC_NONE, V12, MV_0, BY_NAME, CA_RIGHT),
               // control, no verdict: CN-only certificate without any SAN
               cellOf(R_CLIENT_ASYNC, K_OPENSSL, 1, T_RIGHT, SC_NOSAN_CN, 0, CC_NONE, V13, MV_0, BY_NAME, CA_RIGHT)});
}
// fixed points of the oracle that must hold on every tree (they pass before and after the fixes)
PBT_REGRESSION(authentication_fixed_points)
{
  runFixed(c, {
                // wrong CA, expired, self-signed, forged key: all four client APIs of the transport
                cellOf(R_CLIENT_ASYNC, K_OPENSSL, 1, T_WRONG, SC_VALID, 0, CC_NONE, V13, MV_0, BY_IP, CA_RIGHT),
                cellOf(R_CLIENT_SYNC, K_OPENSSL, 1, T_RIGHT, SC_EXPIRED, 0, CC_NONE, V12, MV_0, BY_IP, CA_RIGHT),
                cellOf(R_CLIENT_ASYNC, K_OPENSSL, 1, T_RIGHT, SC_SELFSIGNED, 0, CC_NONE, V13, MV_0, BY_NAME, CA_RIGHT),
                cellOf(R_CLIENT_SYNC, K_OPENSSL, 1, T_RIGHT, SC_MISMATCH, 0, CC_NONE, V13, MV_0, BY_IP, CA_RIGHT),
                cellOf(R_CLIENT_ASYNC, K_OPENSSL, 1, T_WRONG_SYS_RIGHT, SC_VALID, 0, CC_NONE, V13, MV_0, BY_IP, CA_RIGHT),
                // baseline that should be admitted (counted, never required)
                cellOf(R_CLIENT_ASYNC, K_OPENSSL, 1, T_RIGHT, SC_VALID, 0, CC_NONE, V13, MV_0, BY_NAME, CA_RIGHT),
                // downgrade probes
                cellOf(R_CLIENT_ASYNC, K_OPENSSL, 0, T_RIGHT, SC_VALID, 0, CC_NONE, V11, MV_10, BY_IP, CA_RIGHT),
                cellOf(R_SERVER, K_OPENSSL, 0, T_RIGHT, SC_VALID, 0, CC_NONE, V10, MV_10, BY_IP, CA_RIGHT),
                // server: foreign-CA and expired client certificates
                cellOf(R_SERVER, K_OPENSSL, 1, T_RIGHT, SC_VALID, 0, CC_UNTRUSTED, V13, MV_0, BY_IP, CA_RIGHT),
                cellOf(R_SERVER, K_OPENSSL, 1, T_RIGHT, SC_VALID, 0, CC_EXPIRED, V12, MV_0, BY_IP, CA_RIGHT),
                cellOf(R_SERVER, K_OPENSSL, 1, T_RIGHT, SC_VALID, 0, CC_VALID, V13, MV_0, BY_IP, CA_RIGHT),
                // never-TLS peers
                cellOf(R_CLIENT_ASYNC, K_PLAINTEXT, 0, T_RIGHT, SC_VALID, 0, CC_NONE, V13, MV_0, BY_IP, CA_RIGHT),
                cellOf(R_SERVER, K_GARBAGE, 0, T_RIGHT, SC_VALID, 0, CC_NONE, V13, MV_0, BY_IP, CA_RIGHT),
                cellOf(R_HTTP_CLIENT, K_PLAINTEXT, 0, T_RIGHT, SC_VALID, 0, CC_NONE, V13, MV_0, BY_IP, CA_RIGHT),
                cellOf(R_HTTP_SERVER, K_PLAINTEXT, 0, T_RIGHT, SC_VALID, 0, CC_NONE, V13, MV_0, BY_IP, CA_RIGHT),
              });
}


PBT_MAIN()
