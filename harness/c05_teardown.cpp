// C05 - "Stopping or destroying a transport never strands, crashes or races".
//
// Plan executor with real threads and the real TCP / UDP engines on loopback.
// One source, two builds: ASan+UBSan (unit c05_teardown) and TSan (unit c05_tsan).
//
// A plan = 1..3 start/stop cycles. Per cycle: a few established sessions (raw POSIX
// peers, some with a writer thread so that data keeps arriving), 1..4 actor threads
// with scripts over the public API (parked connectSync to a black hole / accepting /
// refusing target, parked receiveSync, setReadMode flush with data arriving, send,
// close, addListener, getStats, observe/unobserve, setSessionData, address getters,
// async connect) with seeded micro-delays, and ONE teardown actor:
//   stop() from outside | drop of the owning shared_ptr from outside | owner released
//   INSIDE a callback (onData / onClose / observer / cleanup) on the I/O thread |
//   stop() inside a callback (documented clean failure: std::logic_error), followed
//   by a stop from outside.
//
// Ownership discipline (what makes ASan/TSan verdicts sound):
//   * "owner" actors hold only a weak_ptr and promote it for the duration of each call
//     (the documented shared-ownership contract S-3);
//   * "borrower" actors model a higher layer that holds an ITransport& : their LAST
//     action is one parking call through a plain pointer. The destroyer starts the
//     destruction only after it has OBSERVED (through the befriended injector, under
//     syncMutex) that every borrower is either counted by the teardown handshake or
//     finished - so a report can never be caused by a call that had not entered yet.
//
// Oracle: every call returns (per-op monitor + pbt::watchdog, B = 30 s) with a definite
// result and without a foreign exception; operations issued after stop() returned fail;
// no callback on the engine's I/O thread observes the flag that is set after stop() /
// an outside destruction returned; guarded calls inside callbacks throw logic_error;
// no ASan/UBSan/TSan report.
#include "pbt.hpp"

#include "c02_fake_engine.hpp" // defines the befriended TransportEngineInjector (parked())
#include "c02_rawpeer.hpp"

#include <iora/core/logger.hpp>

#include <atomic>
#include <condition_variable>
#include <deque>
#include <map>
#include <memory>
#include <mutex>
#include <thread>

using namespace iora::network;
using Injector = iora::network::test::TransportEngineInjector;
using Clock = std::chrono::steady_clock;

namespace
{

thread_local bool tlsHarness = false; // true on every thread the harness created (and main)

} // namespace
// schedule perturbation (harness/c05_sched.cpp): linked into the ASan unit only
extern "C" void c05_sched_set(unsigned long seed, unsigned level) __attribute__((weak));
namespace
{
struct SchedScope
{
  SchedScope(unsigned long seed, unsigned level)
  {
    if (c05_sched_set) c05_sched_set(seed, level);
  }
  ~SchedScope()
  {
    if (c05_sched_set) c05_sched_set(0, 0);
  }
};

template <class F> std::thread spawn(F f)
{
  return std::thread(
    [f]() mutable
    {
      tlsHarness = true;
      f();
    });
}

void quietLogs()
{
  static bool once = [] {
    iora::core::Logger::setLevel(iora::core::Logger::Level::Fatal);
    return true;
  }();
  (void)once;
}

constexpr int kBoundSec = 30; // bounded-wait B for any single call

// ---- plan ----------------------------------------------------------------------
enum AK
{
  SyncBlackHole = 0, // connectSync to the black hole (parks)          [TCP]
  SyncListening,     // connectSync to an accepting raw listener
  SyncRefused,       // connectSync to a refusing port
  RecvSync,          // setReadMode(Sync) + receiveSync on the actor's own session (parks)
  Flush,             // setReadMode(Sync) ... setReadMode(Async) with data arriving
  SendOp,
  CloseOp,
  AddListenerOp,
  StatsOp,
  ObserveOp,
  ConnectAsync,
  SetDataOp,
  AddrOp,
  SleepOp,
  kAKMax
};
const char *akName(int k)
{
  static const char *n[] = {"connectSync(blackhole)", "connectSync(listening)", "connectSync(refused)", "receiveSync", "flush",
                            "send", "close", "addListener", "getStats", "observe", "connect", "setData", "getAddr", "sleep"};
  return k >= 0 && k < kAKMax ? n[k] : "?";
}
enum TK
{
  StopOutside = 0,
  DropOutside,
  ReleaseInCallback,
  StopInCallback,
};
const char *tkName(int k)
{
  static const char *n[] = {"stop-outside", "drop-outside", "release-in-callback", "stop-in-callback"};
  return n[k & 3];
}
enum CbKind
{
  CbData = 1,
  CbClose = 2,
  CbObserver = 4,
  CbCleanup = 8,
  CbAccept = 16,
  CbConnect = 32
};

struct AOp
{
  int kind{SleepOp};
  int a{0}, b{0};
  int delayUs{0};
};
struct ActorPlan
{
  bool borrower{false};
  std::vector<AOp> ops;
};
struct CyclePlan
{
  int nAccepted{1}, nConnected{0};
  int writerMask{1}; // bit i: session i has a raw writer thread
  std::vector<ActorPlan> actors;
  int tdKind{StopOutside};
  int tdDelayUs{500};
  int tdCallback{CbData};  // for ReleaseInCallback / StopInCallback: which callback
  bool tdQuiesce{false};   // ReleaseInCallback: wait for the actors first (true sole owner)
  int extraStoppers{0};    // further outside threads calling stop() at (nearly) the same instant
  int stopperSkewUs{0};    // ... each delayed by i * skew
  int parkAfterStop{0};    // last cycle, stop-outside: after stop() RETURNED, 1-2 plain-pointer callers park (long
                           // timeouts) and the owner is dropped parkDropDelayUs later
  int parkKinds{0};        // per late caller 2 bits: 0 receiveSync(unknown id) 1 receiveSync(drained id, 2nd call) 2 connectSync 3 receiveSync(unknown)
  int parkDropDelayUs{0};
  bool stopInDrain{false}; // a close/observer/cleanup callback fired by the outside stop()'s drain calls stop() itself
  int guardedInCb{0};      // 0 none, 1 connectSync, 2 receiveSync, 3 setReadMode, 4 addListener: tried inside a callback
};
struct Plan
{
  bool udp{false};
  bool edge{true}, hiRes{true}, batching{false};
  int cbDelayUs{0};   // sleep inside I/O-thread callbacks
  int holdFlushMs{0}; // sleep inside the onData callback when it runs on a flushing application thread
  int connectTimeoutMs{30000}; // engine-side connect timer (a pending timer <= 5 s delays ~TimerService by design)
  int schedLevel{0};           // ASan unit: probability (n/64) of a yield/usleep before each mutex lock
  unsigned long schedSeed{1};
  std::vector<CyclePlan> cycles;
};

std::string describe(const Plan &p)
{
  std::string s = p.udp ? "udp" : "tcp";
  s += pbt::Fmt() << " edge=" << p.edge << " hiRes=" << p.hiRes << " batch=" << p.batching << " cbDelayUs=" << p.cbDelayUs
                  << " holdFlushMs=" << p.holdFlushMs << " connTmo=" << p.connectTimeoutMs << " sched=" << p.schedLevel << "/" << p.schedSeed;
  int ci = 0;
  for (auto &cy : p.cycles)
  {
    s += pbt::Fmt() << " | cycle" << ci++ << ": sessions=" << cy.nAccepted << "acc+" << cy.nConnected << "conn writers=0x" << std::hex
                    << cy.writerMask << std::dec << " teardown=" << tkName(cy.tdKind) << "@" << cy.tdDelayUs << "us";
    if (cy.tdKind == ReleaseInCallback || cy.tdKind == StopInCallback) s += pbt::Fmt() << " cb=" << cy.tdCallback << (cy.tdQuiesce ? " quiesced" : "");
    if (cy.extraStoppers) s += pbt::Fmt() << " +" << cy.extraStoppers << "stoppers@" << cy.stopperSkewUs << "us";
    if (cy.stopInDrain) s += " stopInDrain";
    if (cy.parkAfterStop) s += pbt::Fmt() << " parkAfterStop=" << cy.parkAfterStop << "/kinds" << cy.parkKinds << " drop@" << cy.parkDropDelayUs << "us";
    if (cy.guardedInCb) s += pbt::Fmt() << " guardedInCb=" << cy.guardedInCb;
    int ai = 0;
    for (auto &a : cy.actors)
    {
      s += pbt::Fmt() << " actor" << ai++ << (a.borrower ? "(borrower)" : "") << ":";
      for (auto &o : a.ops) s += pbt::Fmt() << " " << akName(o.kind) << "+" << o.delayUs;
    }
  }
  return s;
}

// ---- shared state of one case (heap; outlives every callback) -----------------------
struct SessionInfo
{
  SessionId sid{0};
  int rawFd{-1};
  std::uint16_t ioraPort{0}; // UDP: where the raw side sends to
};

struct Ctx
{
  bool udp{false};
  int cbDelayUs{0};
  int holdFlushMs{0};

  std::mutex ownerMu;
  std::shared_ptr<Transport> owner; // THE owning reference of the application
  std::weak_ptr<Transport> weak;

  std::atomic<bool> dtorReturned{false};        // ~Transport returned (any thread)
  std::atomic<bool> dtorReturnedOutside{false}; // ... on an application thread: the I/O thread is gone
  std::atomic<bool> implGone{false};            // the callbacks (and thus Impl) were destroyed

  std::atomic<bool> stopped{false};          // set AFTER stop() returned to the teardown actor
  std::atomic<bool> outsideStopBegun{false}; // set BEFORE the teardown actor calls stop()/drops
  std::atomic<int> armedRelease{0};          // bitmask of CbKind allowed to release the owner
  std::atomic<int> armedStopInCb{0};         // bitmask of CbKind that should try stop()
  std::atomic<int> armedGuarded{0};          // 1..4: guarded call to try inside the next I/O callback
  std::atomic<bool> releasedInCb{false};
  std::atomic<bool> stopInCbTried{false};
  std::atomic<int> stopInCbResult{0}; // 1 logic_error, 2 returned, 3 other exception
  std::atomic<int> guardedResult{0};  // 1 logic_error, 2 returned, 3 other exception
  std::atomic<SessionId> guardedSid{0};
  std::uint16_t refusedPort{0};

  std::mutex failMu;
  std::string failSig, failWhat;
  void fail(const std::string &sig, const std::string &what)
  {
    std::lock_guard<std::mutex> lk(failMu);
    if (failSig.empty())
    {
      failSig = sig;
      failWhat = what;
    }
  }

  // accept announcements (setup pairing)
  std::mutex accMu;
  std::condition_variable accCv;
  std::vector<std::pair<SessionId, std::uint16_t>> accepts;

  std::atomic<std::uint64_t> cbOnIo{0}, cbOnApp{0}, closes{0};
  std::mutex closeMu;
  std::map<SessionId, int> closeCount; // global close notifications per id
  std::atomic<int> inflight[kAKMax];
  Ctx()
  {
    for (auto &x : inflight) x.store(0);
  }

  std::shared_ptr<Transport> lock() { return weak.lock(); }
};

// common prologue of every callback; returns false if the callback must do nothing more
void onCallback(Ctx *ctx, int kind, SessionId sid)
{
  if (tlsHarness)
  {
    // runs synchronously inside an application call (flush, sendAsync completion): the caller's own
    ctx->cbOnApp++;
    if (kind == CbData && ctx->holdFlushMs > 0) std::this_thread::sleep_for(std::chrono::milliseconds(ctx->holdFlushMs));
    return;
  }
  ctx->cbOnIo++;
  if (ctx->stopped.load() || ctx->dtorReturnedOutside.load())
  {
    ctx->fail("C05/callback-after-stop",
              pbt::Fmt() << "callback kind " << kind << " (sid " << sid << ") ran on the I/O thread after "
                         << (ctx->stopped.load() ? "stop() had returned" : "the destructor had returned") << " to a non-callback caller");
  }
  if (ctx->cbDelayUs > 0) std::this_thread::sleep_for(std::chrono::microseconds(ctx->cbDelayUs));

  // guarded blocking call attempted on the I/O thread: must throw std::logic_error
  int g = ctx->armedGuarded.load();
  if (g != 0 && ctx->armedGuarded.compare_exchange_strong(g, 0))
  {
    std::shared_ptr<Transport> sp = ctx->lock();
    if (sp)
    {
      bool stopRace = ctx->outsideStopBegun.load();
      int res = 2;
      try
      {
        char buf[8];
        std::size_t len = sizeof(buf);
        switch (g)
        {
        case 1: (void)sp->connectSync("127.0.0.1", ctx->refusedPort, TlsMode::None, std::chrono::milliseconds(50)); break;
        case 2: (void)sp->receiveSync(sid, buf, len, std::chrono::milliseconds(10)); break;
        case 3: (void)sp->setReadMode(sid, ReadMode::Sync); break;
        default: (void)sp->addListener("127.0.0.1", 0, TlsMode::None); break;
        }
      }
      catch (const std::logic_error &)
      {
        res = 1;
      }
      catch (...)
      {
        res = 3;
      }
      stopRace = stopRace || ctx->outsideStopBegun.load();
      ctx->guardedResult.store(res);
      // addListener's guard is conjoined with isRunning(): only judged without a racing stop
      if (res == 3 || (res == 2 && !(g == 4 && stopRace)))
        ctx->fail(pbt::Fmt() << "C05/guarded-call-in-callback/" << g,
                  pbt::Fmt() << "blocking call #" << g << " (1 connectSync 2 receiveSync 3 setReadMode 4 addListener) issued inside an "
                             << "I/O-thread callback " << (res == 2 ? "returned normally" : "threw something other than logic_error"));
    }
  }

  int s = ctx->armedStopInCb.load();
  if ((s & kind) && ctx->armedStopInCb.compare_exchange_strong(s, 0))
  {
    std::shared_ptr<Transport> sp = ctx->lock();
    if (sp)
    {
      bool race = ctx->outsideStopBegun.load();
      int res = 2;
      std::string exText;
      try
      {
        sp->stop();
      }
      catch (const std::logic_error &)
      {
        res = 1; // the documented clean failure
      }
      catch (const std::exception &e)
      {
        res = 3;
        exText = e.what();
      }
      catch (...)
      {
        res = 3;
        exText = "(not a std::exception)";
      }
      race = race || ctx->outsideStopBegun.load();
      ctx->stopInCbResult.store(res);
      if (res == 3)
        ctx->fail("C05/undocumented-exception-from-stop",
                  "stop() called inside an I/O-thread callback (kind " + std::to_string(kind) + (race ? ", while an outside stop() was in progress" : "") +
                    ") threw an exception other than the documented std::logic_error: " + exText);
      else if (res == 2 && !race)
        ctx->fail("C05/stop-in-callback",
                  "stop() inside an I/O-thread callback returned normally while the engine was running (must throw logic_error)");
    }
    ctx->stopInCbTried.store(true);
  }

  int r = ctx->armedRelease.load();
  if ((r & kind) && ctx->armedRelease.compare_exchange_strong(r, 0))
  {
    std::shared_ptr<Transport> take;
    {
      std::lock_guard<std::mutex> lk(ctx->ownerMu);
      take = std::move(ctx->owner);
      ctx->owner.reset();
    }
    ctx->releasedInCb.store(true);
    take.reset(); // possibly the LAST reference: ~Transport on the I/O thread (deferred self-destruct)
  }
}

struct Sentinel
{
  Ctx *ctx;
  explicit Sentinel(Ctx *c) : ctx(c) {}
  Sentinel(const Sentinel &) = delete;
  Sentinel &operator=(const Sentinel &) = delete;
  ~Sentinel() { ctx->implGone.store(true); }
};

// per-op monitor: which call of which actor is in flight since when
struct OpSlot
{
  std::atomic<int> kind{-1};
  std::atomic<long long> sinceMs{0};
};
long long nowMs() { return std::chrono::duration_cast<std::chrono::milliseconds>(Clock::now().time_since_epoch()).count(); }

struct Payload
{
  int dummy;
};

void runPlan(const Plan &plan, pbt::Case &c)
{
  quietLogs();
  tlsHarness = true;
  c.describe(describe(plan));
  pbt::watchdog(kBoundSec + 15, "C05/stranded-call");
  SchedScope sched(plan.schedSeed, static_cast<unsigned>(plan.schedLevel));
  if (c05_sched_set && plan.schedLevel) c.label("schedule perturbation on");

  auto ctxOwner = std::make_unique<Ctx>();
  Ctx *ctx = ctxOwner.get();
  ctx->udp = plan.udp;
  ctx->cbDelayUs = plan.cbDelayUs;
  ctx->holdFlushMs = plan.holdFlushMs;

  TransportConfig cfg;
  cfg.useEdgeTriggered = plan.edge;
  cfg.enableHighResolutionTimers = plan.hiRes;
  cfg.batching.enabled = plan.batching;
  cfg.connectTimeout = std::chrono::milliseconds(plan.connectTimeoutMs);
  cfg.gcInterval = std::chrono::seconds(1);

  c02raw::FdBag bag;
  c02raw::BlackHole hole;
  bool holeOpen = false;
  int refusedFd = -1;
  if (!plan.udp) refusedFd = bag.add(c02raw::tcpRefusedPort(ctx->refusedPort));
  else
  {
    int f = c02raw::udpBind(ctx->refusedPort);
    if (f >= 0) ::close(f);
  }
  (void)refusedFd;
  bool needHole = false;
  for (auto &cy : plan.cycles)
    for (auto &a : cy.actors)
      for (auto &o : a.ops)
        if (o.kind == SyncBlackHole) needHole = true;
  if (needHole && !plan.udp) holeOpen = hole.open();

  // ---- the transport, wrapped so that we learn when (and where) ~Transport returned ----
  {
    std::shared_ptr<Transport> inner = plan.udp ? Transport::udp(cfg) : Transport::tcp(cfg);
    Transport *raw = inner.get();
    std::shared_ptr<Transport> outer(raw,
                                     [inner, ctx](Transport *) mutable
                                     {
                                       inner.reset(); // the factory's (only) reference: runs ~Transport here
                                       if (tlsHarness) ctx->dtorReturnedOutside.store(true);
                                       ctx->dtorReturned.store(true);
                                     });
    inner.reset();
    ctx->owner = std::move(outer);
    ctx->weak = ctx->owner;
  }
  static Payload payload{0};
  {
    auto t = ctx->owner;
    auto sentinel = std::make_shared<Sentinel>(ctx);
    t->onAccept(
      [ctx](SessionId sid, const TransportAddress &a)
      {
        {
          std::lock_guard<std::mutex> lk(ctx->accMu);
          ctx->accepts.emplace_back(sid, a.port);
        }
        ctx->accCv.notify_all();
        onCallback(ctx, CbAccept, sid);
      });
    t->onConnect([ctx](SessionId sid, const TransportAddress &) { onCallback(ctx, CbConnect, sid); });
    t->onData([ctx](SessionId sid, iora::core::BufferView, std::chrono::steady_clock::time_point) { onCallback(ctx, CbData, sid); });
    t->onClose(
      [ctx](SessionId sid, const TransportErrorInfo &)
      {
        ctx->closes++;
        {
          std::lock_guard<std::mutex> lk(ctx->closeMu);
          ++ctx->closeCount[sid];
        }
        onCallback(ctx, CbClose, sid);
      });
    // the sentinel lives inside a callback object, i.e. inside Impl: its destructor
    // tells us that Impl (and every callback copy) is gone
    t->onError([ctx, sentinel](TransportError, const std::string &) { (void)sentinel; (void)ctx; });
  }

  // UDP: the raw peer sockets of accepted sessions live for the whole CASE, so after a
  // stop()/start() the same remote ip:port talks to the restarted engine again (the peer key
  // of a UDP "session" is the remote address - state kept across the restart would be hit)
  std::vector<int> carriedUdp;
  std::vector<SessionId> allSetupSids; // every session the setup of any cycle established
  std::uint64_t digest = plan.udp ? 11 : 5;
  bool anyNontrivial = false;
  bool destroyed = false;
  std::string inconclusive;

  for (std::size_t ci = 0; ci < plan.cycles.size() && !destroyed && inconclusive.empty(); ++ci)
  {
    const CyclePlan &cy = plan.cycles[ci];
    std::shared_ptr<Transport> t = ctx->lock();
    if (!t) break;
    ctx->stopped.store(false);
    ctx->outsideStopBegun.store(false);
    ctx->stopInCbTried.store(false);
    if (!t->start().isOk())
    {
      ctx->fail("C05/restart-failed", "start() failed in cycle " + std::to_string(ci));
      break;
    }
    auto lr = t->addListener("127.0.0.1", 0, TlsMode::None);
    std::uint16_t ioraPort = lr.isOk() ? t->getListenerAddress(lr.value()).port : 0;
    if (ioraPort == 0)
    {
      inconclusive = "listener did not bind";
      t->stop();
      break;
    }
    const ListenerId lid = lr.value();

    // ---- sessions -------------------------------------------------------------
    std::vector<SessionInfo> sessions;
    std::vector<int> cycleFds;
    {
      // announcements of earlier cycles must not pair with this cycle's peers
      std::lock_guard<std::mutex> lk(ctx->accMu);
      ctx->accepts.clear();
    }
    for (int i = 0; i < cy.nAccepted && inconclusive.empty(); ++i)
    {
      SessionInfo si;
      std::uint16_t myPort = 0;
      bool carried = false;
      if (!plan.udp)
      {
        si.rawFd = c02raw::tcpConnect(ioraPort, 10000);
        myPort = si.rawFd >= 0 ? c02raw::localPort(si.rawFd) : 0;
      }
      else
      {
        if (static_cast<std::size_t>(i) < carriedUdp.size())
        {
          // the SAME socket (same source port) that talked to the previous run
          si.rawFd = carriedUdp[static_cast<std::size_t>(i)];
          myPort = c02raw::localPort(si.rawFd);
          carried = true;
          if (ci > 0) c.label("udp peer socket reused across restart");
        }
        else
        {
          si.rawFd = bag.add(c02raw::udpBind(myPort));
          if (si.rawFd >= 0) carriedUdp.push_back(si.rawFd);
        }
        if (si.rawFd >= 0) c02raw::udpSendTo(si.rawFd, ioraPort, "hi", 2);
        si.ioraPort = ioraPort;
      }
      if (si.rawFd < 0)
      {
        inconclusive = "raw peer could not connect";
        break;
      }
      (void)carried;
      if (!plan.udp) cycleFds.push_back(si.rawFd); // UDP peers are closed with the case (bag)
      std::unique_lock<std::mutex> lk(ctx->accMu);
      bool ok = ctx->accCv.wait_for(lk, std::chrono::seconds(15),
                                    [&]
                                    {
                                      for (auto &p : ctx->accepts)
                                        if (p.second == myPort)
                                        {
                                          si.sid = p.first;
                                          return true;
                                        }
                                      return false;
                                    });
      if (!ok)
      {
        inconclusive = "accept not announced";
        break;
      }
      sessions.push_back(si);
    }
    // carried peers beyond this cycle's session count still say hello to the new run
    if (plan.udp)
      for (std::size_t j = static_cast<std::size_t>(cy.nAccepted); j < carriedUdp.size(); ++j)
        c02raw::udpSendTo(carriedUdp[j], ioraPort, "hi again", 8);
    for (int i = 0; i < cy.nConnected && inconclusive.empty(); ++i)
    {
      SessionInfo si;
      std::uint16_t port = 0;
      int lfd = plan.udp ? c02raw::udpBind(port) : c02raw::tcpListen(port, 8);
      if (lfd < 0)
      {
        inconclusive = "raw listener";
        break;
      }
      cycleFds.push_back(lfd);
      auto r = t->connectSync("127.0.0.1", port, TlsMode::None, std::chrono::milliseconds(10000));
      if (!r.isOk())
      {
        inconclusive = "setup connectSync failed";
        break;
      }
      si.sid = r.value();
      if (!plan.udp)
      {
        si.rawFd = c02raw::tcpAccept(lfd, 10000);
        if (si.rawFd < 0)
        {
          inconclusive = "raw accept";
          break;
        }
        cycleFds.push_back(si.rawFd);
      }
      else
      {
        si.rawFd = lfd;
        t->send(si.sid, "p", 1);
        char b[8];
        std::uint16_t from = 0;
        if (c02raw::udpRecvFrom(lfd, b, sizeof(b), 3000, &from) >= 0) si.ioraPort = from;
      }
      sessions.push_back(si);
    }
    if (!inconclusive.empty())
    {
      t->stop();
      for (int fd : cycleFds) ::close(fd);
      break;
    }
    // one observer + user data per session (callbacks for the release-in-callback kinds)
    for (auto &s : sessions)
    {
      t->observe(s.sid, [ctx](SessionId sid, const TransportErrorInfo &) { onCallback(ctx, CbObserver, sid); });
      SessionId sid = s.sid;
      t->setSessionData(s.sid, &payload, [ctx, sid](void *) { onCallback(ctx, CbCleanup, sid); });
    }
    // an extra raw listener for connectSync(listening)/connect ops of the actors
    std::uint16_t extraPort = 0;
    int extraLfd = plan.udp ? c02raw::udpBind(extraPort) : c02raw::tcpListen(extraPort, 128);
    if (extraLfd >= 0) cycleFds.push_back(extraLfd);

    // ---- raw writers: data keeps arriving ---------------------------------------
    std::atomic<bool> writersStop{false};
    std::vector<std::thread> writers;
    for (std::size_t i = 0; i < sessions.size(); ++i)
      if (cy.writerMask & (1 << i))
      {
        SessionInfo si = sessions[i];
        bool udp = plan.udp;
        writers.push_back(spawn(
          [si, udp, &writersStop]
          {
            // A FINITE stream (<= 150 small packets, one every >= 300 us): iora's read loops
            // run until EAGAIN, so a sender that outpaces a (deliberately slowed) callback
            // for ever would keep the I/O thread inside one read loop for ever and stop()
            // could not return - an overload the harness must not create. With a finite
            // stream the backlog is bounded by 150 callbacks whatever the machine load.
            char buf[64];
            std::memset(buf, 'd', sizeof(buf));
            for (int n = 0; n < 150 && !writersStop.load(); ++n)
            {
              if (!udp)
              {
                if (!c02raw::sendAll(si.rawFd, buf, sizeof(buf), 50)) std::this_thread::sleep_for(std::chrono::milliseconds(1));
              }
              else if (si.ioraPort)
                c02raw::udpSendTo(si.rawFd, si.ioraPort, buf, sizeof(buf));
              std::this_thread::sleep_for(std::chrono::microseconds(300));
            }
          }));
      }

    if (cy.guardedInCb) ctx->armedGuarded.store(cy.guardedInCb);

    // ---- actors ---------------------------------------------------------------
    const std::size_t nActors = cy.actors.size();
    std::vector<std::unique_ptr<OpSlot>> slots;
    for (std::size_t i = 0; i < nActors; ++i) slots.push_back(std::make_unique<OpSlot>());
    // borrower protocol: 0 init, 1 calling (through a plain pointer), 2 done
    std::vector<std::unique_ptr<std::atomic<int>>> bstate;
    for (std::size_t i = 0; i < nActors; ++i) bstate.push_back(std::make_unique<std::atomic<int>>(cy.actors[i].borrower ? 0 : 2));
    // owners still running (borrowers stay parked until the teardown wakes them, so a
    // "quiesced" teardown waits for the owners only)
    int nOwners = 0;
    for (auto &a : cy.actors)
      if (!a.borrower) ++nOwners;
    std::atomic<int> actorsRunning{nOwners};
    std::atomic<bool> go{false};
    std::vector<std::thread> actorThreads;
    const int timeouts[] = {40, 200, 800};
    // A borrower's final parking call gets a timeout far beyond B: the teardown handshake
    // is obliged to wake it (shuttingDown + notify for connectSync/flush, the drain's close or
    // the notify for receiveSync), so if it is still parked after B it was stranded - the
    // call's own timeout must not be what rescues it.
    const int kBorrowerTimeoutMs = 120000;

    for (std::size_t ai = 0; ai < nActors; ++ai)
    {
      actorThreads.push_back(spawn(
        [&, ai]
        {
          const ActorPlan &ap = cy.actors[ai];
          OpSlot &slot = *slots[ai];
          while (!go.load()) std::this_thread::yield();
          const bool haveOwn = ai < sessions.size();
          const SessionId ownSid = haveOwn ? sessions[ai].sid : 0;
          bool syncMode = false;
          for (std::size_t oi = 0; oi < ap.ops.size(); ++oi)
          {
            const AOp &op = ap.ops[oi];
            if (op.delayUs > 0) std::this_thread::sleep_for(std::chrono::microseconds(op.delayUs));
            const bool last = oi + 1 == ap.ops.size();
            const bool viaPlainPointer = ap.borrower && last; // the one parking call of a borrower
            std::shared_ptr<Transport> sp = ctx->lock();
            if (!sp) break; // destroyed: nothing more to call
            Transport *tp = sp.get();
            int kind = op.kind;
            if (plan.udp && kind == SyncBlackHole) kind = SyncListening;
            if (kind == SyncBlackHole && !holeOpen) kind = SyncRefused;
            if ((kind == RecvSync || kind == Flush) && !haveOwn) kind = StatsOp;
            SessionId anySid = sessions.empty() ? 0 : sessions[static_cast<std::size_t>(op.a) % sessions.size()].sid;
            if (viaPlainPointer)
            {
              // put the own session into Sync mode while still co-owning, then let go
              if (kind == RecvSync || kind == Flush) tp->setReadMode(ownSid, ReadMode::Sync), syncMode = true;
              if (kind == Flush) std::this_thread::sleep_for(std::chrono::milliseconds(2)); // let data accumulate
              bstate[ai]->store(1);
              sp.reset(); // from here on: a plain pointer, like a layer holding ITransport&
            }
            slot.sinceMs.store(nowMs());
            slot.kind.store(kind);
            ctx->inflight[kind]++;
            try
            {
              switch (kind)
              {
              case SyncBlackHole:
              {
                auto r = tp->connectSync("127.0.0.1", hole.port, TlsMode::None,
                                         std::chrono::milliseconds(viaPlainPointer ? kBorrowerTimeoutMs : timeouts[op.a % 3]));
                if (r.isOk() && !viaPlainPointer) tp->close(r.value()); // a borrower makes NO call after its parking call
                break;
              }
              case SyncListening:
              {
                auto r = tp->connectSync("127.0.0.1", extraPort, TlsMode::None, std::chrono::milliseconds(2000));
                if (r.isOk() && !viaPlainPointer && op.b % 2) tp->close(r.value());
                break;
              }
              case SyncRefused:
              {
                auto r = tp->connectSync("127.0.0.1", ctx->refusedPort, TlsMode::None, std::chrono::milliseconds(1000));
                if (r.isOk() && !viaPlainPointer) tp->close(r.value()); // (UDP: connect always succeeds)
                break;
              }
              case RecvSync:
              {
                if (!syncMode)
                {
                  tp->setReadMode(ownSid, ReadMode::Sync);
                  syncMode = true;
                }
                char buf[256];
                std::size_t len = sizeof(buf);
                (void)tp->receiveSync(ownSid, buf, len, std::chrono::milliseconds(viaPlainPointer ? kBorrowerTimeoutMs : timeouts[op.a % 3]));
                break;
              }
              case Flush:
              {
                if (!syncMode)
                {
                  tp->setReadMode(ownSid, ReadMode::Sync);
                  std::this_thread::sleep_for(std::chrono::microseconds(300 + op.a % 700));
                }
                (void)tp->setReadMode(ownSid, ReadMode::Async);
                syncMode = false;
                break;
              }
              case SendOp:
              {
                char buf[512];
                std::memset(buf, 's', sizeof(buf));
                if (op.b % 2) (void)tp->send(anySid, buf, 1 + static_cast<std::size_t>(op.a) % sizeof(buf));
                else tp->sendAsync(anySid, buf, 16, [ctx](SessionId, const SendResult &) { ctx->cbOnApp++; });
                break;
              }
              case CloseOp: (void)tp->close(anySid); break;
              case AddListenerOp:
                // single call, or a burst that spans the teardown (each call is a round trip
                // through the I/O thread's queue: one of them lands in the drain window)
                for (int n = op.b % 3 == 0 ? 40 : 1; n > 0; --n) (void)tp->addListener("127.0.0.1", 0, TlsMode::None);
                break;
              case StatsOp:
              {
                auto st = tp->getStats();
                (void)st;
                (void)tp->isRunning();
                break;
              }
              case ObserveOp:
              {
                ObserverId id = tp->observe(anySid, [ctx](SessionId sid, const TransportErrorInfo &) { onCallback(ctx, CbObserver, sid); });
                if (op.b % 2) (void)tp->unobserve(id);
                break;
              }
              case ConnectAsync:
              {
                auto r = op.a % 3 == 0 ? tp->connect("127.0.0.1", ctx->refusedPort, TlsMode::None)
                       : op.a % 3 == 1 ? tp->connect("127.0.0.1", extraPort, TlsMode::None)
                                       : tp->connect("not a host name", 9, TlsMode::None);
                (void)r;
                break;
              }
              case SetDataOp:
              {
                SessionId sid = anySid;
                tp->setSessionData(anySid, &payload, [ctx, sid](void *) { onCallback(ctx, CbCleanup, sid); });
                (void)tp->getSessionData(anySid);
                break;
              }
              case AddrOp:
                (void)tp->getLocalAddress(anySid);
                (void)tp->getRemoteAddress(anySid);
                (void)tp->getListenerAddress(lid);
                break;
              default: std::this_thread::sleep_for(std::chrono::microseconds(op.a % 2000)); break;
              }
            }
            catch (const std::exception &e)
            {
              ctx->fail(std::string("C05/exception-from-call/") + akName(kind), std::string("call threw on an application thread: ") + e.what());
            }
            ctx->inflight[kind]--;
            slot.kind.store(-1);
            if (viaPlainPointer)
            {
              bstate[ai]->store(2);
              break;
            }
          }
          if (ap.borrower) bstate[ai]->store(2);
          else actorsRunning--;
        }));
    }

    // ---- op monitor: names the stuck call before the watchdog fires ---------------------
    std::atomic<bool> monitorStop{false};
    std::thread monitor = spawn(
      [&]
      {
        while (!monitorStop.load())
        {
          std::this_thread::sleep_for(std::chrono::milliseconds(100));
          long long now = nowMs();
          for (std::size_t i = 0; i < slots.size(); ++i)
          {
            int k = slots[i]->kind.load();
            if (k >= 0 && now - slots[i]->sinceMs.load() > kBoundSec * 1000LL)
            {
              std::fprintf(stderr, "C05: actor %zu stuck in %s for more than %d s\n", i, akName(k), kBoundSec);
              pbt::watchdog(0.001, std::string("C05/stranded-call/") + akName(k));
              std::this_thread::sleep_for(std::chrono::seconds(5));
            }
          }
        }
      });

    // ---- teardown actor ---------------------------------------------------------
    std::atomic<int> observedMask{0};
    std::atomic<int> borrowersParked{-1};
    std::atomic<bool> concurrentStops{false};
    std::string tdNote;
    std::thread teardown = spawn(
      [&]
      {
        auto observeInflight = [&]
        {
          int m = 0;
          for (int k = 0; k < kAKMax; ++k)
            if (k != SleepOp && ctx->inflight[k].load() > 0) m |= 1 << k;
          observedMask.store(m);
        };
        auto allBorrowersParkedOrDone = [&]() -> bool
        {
          // see file header: states first, then the counters under syncMutex
          int calling = 0;
          for (auto &b : bstate)
          {
            int s = b->load();
            if (s == 0) return false;
            if (s == 1) ++calling;
          }
          if (calling == 0) return true;
          std::shared_ptr<Transport> sp = ctx->lock();
          if (!sp) return true;
          auto p = Injector::parked(*sp);
          // other (owner) actors never park when borrowers exist (generator invariant), so
          // total()==calling means: every borrower that is inside its call is counted
          return static_cast<int>(p.total()) == calling;
        };
        auto waitBorrowers = [&]
        {
          auto deadline = Clock::now() + std::chrono::seconds(kBoundSec);
          while (!allBorrowersParkedOrDone() && Clock::now() < deadline) std::this_thread::sleep_for(std::chrono::microseconds(200));
          bool ok = allBorrowersParkedOrDone();
          int calling = 0;
          for (auto &b : bstate)
            if (b->load() == 1) ++calling;
          borrowersParked.store(calling);
          return ok;
        };
        auto dropOutside = [&]
        {
          std::shared_ptr<Transport> take;
          {
            std::lock_guard<std::mutex> lk(ctx->ownerMu);
            take = std::move(ctx->owner);
            ctx->owner.reset();
          }
          take.reset();
        };
        // further outside threads that call stop() at (nearly) the same instant as the teardown
        // actor stops / drops. Each co-owns the transport for its call. A second stop() may
        // return at once or after the drain; it must return, and nothing may escape from it.
        std::atomic<bool> stoppersGo{false};
        auto launchStoppers = [&]() -> std::vector<std::thread>
        {
          std::vector<std::thread> xs;
          for (int i = 0; i < cy.extraStoppers; ++i)
            xs.push_back(spawn(
              [&, i]
              {
                std::shared_ptr<Transport> sp2 = ctx->lock();
                if (!sp2) return;
                while (!stoppersGo.load()) std::this_thread::yield();
                if (cy.stopperSkewUs > 0) std::this_thread::sleep_for(std::chrono::microseconds(cy.stopperSkewUs * (i + 1)));
                try
                {
                  sp2->stop();
                }
                catch (const std::exception &e)
                {
                  ctx->fail("C05/undocumented-exception-from-stop", std::string("stop() called concurrently with another stop() threw: ") + e.what());
                }
              }));
          return xs;
        };
        auto stopOutside = [&]
        {
          std::shared_ptr<Transport> sp = ctx->lock();
          if (!sp) return;
          std::vector<std::thread> xs = launchStoppers();
          if (cy.stopInDrain) ctx->armedStopInCb.store(CbClose | CbObserver | CbCleanup);
          observeInflight();
          ctx->outsideStopBegun.store(true);
          stoppersGo.store(true);
          try
          {
            sp->stop();
          }
          catch (const std::exception &e)
          {
            ctx->fail("C05/undocumented-exception-from-stop", std::string("stop() from an application thread threw: ") + e.what());
          }
          for (auto &x : xs) x.join();
          ctx->armedStopInCb.store(0);
          if (cy.extraStoppers) concurrentStops.store(true);
          // every stop() call has returned, so the one that performed the shutdown has too
          ctx->stopped.store(true);
          // operations issued after stop() returned must fail (cleanly)
          SessionId sid = sessions.empty() ? 1 : sessions[0].sid;
          try
          {
            if (sp->connect("127.0.0.1", ctx->refusedPort, TlsMode::None).isOk())
              ctx->fail("C05/op-succeeds-after-stop/connect", "connect() returned ok after stop() had returned");
            auto t0 = Clock::now();
            if (sp->connectSync("127.0.0.1", ctx->refusedPort, TlsMode::None, std::chrono::milliseconds(300)).isOk())
              ctx->fail("C05/op-succeeds-after-stop/connectSync", "connectSync() returned ok after stop() had returned");
            (void)t0;
            if (sp->send(sid, "x", 1)) ctx->fail("C05/op-succeeds-after-stop/send", "send() returned true after stop() had returned");
            if (sp->close(sid)) ctx->fail("C05/op-succeeds-after-stop/close", "close() returned true after stop() had returned");
            if (sp->addListener("127.0.0.1", 0, TlsMode::None).isOk())
              ctx->fail("C05/op-succeeds-after-stop/addListener", "addListener() returned ok after stop() had returned");
            if (sp->isRunning()) ctx->fail("C05/op-succeeds-after-stop/isRunning", "isRunning() is true after stop() had returned");
          }
          catch (const std::exception &e)
          {
            ctx->fail("C05/exception-after-stop", std::string("operation after stop threw: ") + e.what());
          }
        };

        while (!go.load()) std::this_thread::yield();
        std::this_thread::sleep_for(std::chrono::microseconds(cy.tdDelayUs));
        switch (cy.tdKind)
        {
        case StopOutside: stopOutside(); break;
        case DropOutside:
          if (!waitBorrowers())
          {
            tdNote = "borrowers did not park";
            // cannot destroy safely: degrade to a stop, destroy after the join
            stopOutside();
            break;
          }
          observeInflight();
          ctx->outsideStopBegun.store(true);
          {
            // stop() from outside racing the drop of the owning reference
            std::vector<std::thread> xs = launchStoppers();
            stoppersGo.store(true);
            dropOutside();
            for (auto &x : xs) x.join();
            if (cy.extraStoppers) concurrentStops.store(true);
          }
          break;
        case StopInCallback:
        {
          ctx->armedStopInCb.store(cy.tdCallback);
          // provoke callbacks: writers deliver data; closing a session gives close/observer/cleanup
          auto deadline = Clock::now() + std::chrono::milliseconds(300);
          if ((cy.tdCallback & (CbClose | CbObserver | CbCleanup)) && !sessions.empty())
            if (auto sp = ctx->lock()) sp->close(sessions.back().sid);
          while (!ctx->stopInCbTried.load() && Clock::now() < deadline) std::this_thread::sleep_for(std::chrono::microseconds(200));
          ctx->armedStopInCb.store(0);
          stopOutside();
          break;
        }
        case ReleaseInCallback:
        {
          if (cy.tdQuiesce)
          {
            auto deadline = Clock::now() + std::chrono::seconds(kBoundSec);
            while (actorsRunning.load() > 0 && Clock::now() < deadline) std::this_thread::sleep_for(std::chrono::microseconds(200));
          }
          if (!waitBorrowers())
          {
            tdNote = "borrowers did not park";
            stopOutside();
            break;
          }
          observeInflight();
          if (cy.tdQuiesce && (cy.tdCallback & CbData) && !sessions.empty())
            if (auto sp = ctx->lock()) sp->setReadMode(sessions[0].sid, ReadMode::Async);
          ctx->armedRelease.store(cy.tdCallback);
          if ((cy.tdCallback & (CbClose | CbObserver | CbCleanup)) && !sessions.empty())
            if (auto sp = ctx->lock()) sp->close(sessions.back().sid);
          auto deadline = Clock::now() + std::chrono::milliseconds(300);
          while (!ctx->releasedInCb.load() && Clock::now() < deadline) std::this_thread::sleep_for(std::chrono::microseconds(200));
          if (!ctx->releasedInCb.load())
          {
            // no such callback came: accept any callback kind, and kick every session
            ctx->armedRelease.store(CbData | CbClose | CbObserver | CbCleanup | CbAccept | CbConnect);
            if (auto sp = ctx->lock())
              for (auto &s : sessions) sp->close(s.sid);
            deadline = Clock::now() + std::chrono::milliseconds(300);
            while (!ctx->releasedInCb.load() && Clock::now() < deadline) std::this_thread::sleep_for(std::chrono::microseconds(200));
          }
          int r = ctx->armedRelease.exchange(0);
          if (!ctx->releasedInCb.load() && r != 0)
          {
            tdNote = "no callback to release in: dropped outside";
            ctx->outsideStopBegun.store(true);
            dropOutside();
          }
          break;
        }
        }
      });

    t.reset(); // main holds no reference while the cycle runs
    go.store(true);
    teardown.join();
    for (auto &th : actorThreads) th.join();
    monitorStop.store(true);
    monitor.join();
    writersStop.store(true);
    for (auto &w : writers) w.join();
    for (int fd : cycleFds) ::close(fd);
    ctx->armedGuarded.store(0);

    if (!tdNote.empty()) c.label("note: " + tdNote);
    if (concurrentStops.load()) c.label(std::string("concurrent stop() calls (") + tkName(cy.tdKind) + ")");
    if (cy.stopInDrain && ctx->stopInCbTried.load()) c.label("stop() tried inside a callback of an outside stop()'s drain");
    for (auto &s : sessions) allSetupSids.push_back(s.sid);
    if (borrowersParked.load() > 0) c.label("destruction began with " + std::to_string(borrowersParked.load()) + " borrower(s) parked (plain-pointer callers)");
    c.label(std::string("teardown ") + tkName(cy.tdKind) + (ctx->releasedInCb.load() ? " (released in callback)" : ""));
    if (cy.tdKind == StopInCallback) c.label("stop-in-callback result " + std::to_string(ctx->stopInCbResult.load()));
    if (cy.guardedInCb) c.label("guarded-in-callback result " + std::to_string(ctx->guardedResult.load()));
    int mask = observedMask.load();
    if (mask != 0)
    {
      anyNontrivial = true;
      digest = pbt::hashMix(digest, static_cast<std::uint64_t>(cy.tdKind) * 1000003u + static_cast<std::uint64_t>(mask) * 31u + ci);
      digest = pbt::hashMix(digest, static_cast<std::uint64_t>(cy.tdCallback * 2 + (cy.tdQuiesce ? 1 : 0)));
      for (int k = 0; k < kAKMax; ++k)
        if (mask & (1 << k)) c.label(std::string("in flight at teardown: ") + akName(k));
    }
    // ---- park AFTER stop() returned, then destroy -------------------------------------------------
    // The transport is stopped (no further close will ever come) but still owned. Callers that hold
    // only a reference (plain pointer) park with timeouts far above B; once every one of them is
    // counted by the teardown handshake (or has returned) the owner is dropped: the destructor's
    // already-stopped path is the ONLY thing that can end these calls within the bound.
    if (cy.parkAfterStop > 0 && cy.tdKind == StopOutside && ci + 1 == plan.cycles.size() && ctx->stopped.load())
    {
      std::shared_ptr<Transport> sp = ctx->lock();
      if (sp)
      {
        Transport *tp = sp.get();
        const int n = cy.parkAfterStop;
        std::vector<std::unique_ptr<std::atomic<int>>> st; // 1 calling, 2 done
        for (int i = 0; i < n; ++i) st.push_back(std::make_unique<std::atomic<int>>(0));
        std::vector<std::thread> late;
        const SessionId drained = sessions.empty() ? 424242 : sessions[0].sid;
        for (int i = 0; i < n; ++i)
          late.push_back(spawn(
            [&, i]
            {
              int kind = (cy.parkKinds >> (2 * i)) & 3;
              char buf[32];
              std::size_t len = sizeof(buf);
              try
              {
                // PRELIMINARY calls (state still 0: the gate cannot pass, `sp` keeps the object alive).
                // They are counted by the handshake for an instant each, which is why they must all be
                // over before the "final call" flag goes up.
                if (kind == 1)
                {
                  // a reader that comes back after it consumed the PeerClosed tombstone (bytes buffered
                  // in Sync mode before the stop are legitimately returned first: drain-before-EOF)
                  (void)tp->setReadMode(drained, ReadMode::Sync);
                  for (int k = 0; k < 200; ++k)
                  {
                    len = sizeof(buf);
                    auto r0 = tp->receiveSync(drained, buf, len, std::chrono::milliseconds(0));
                    if (!r0.isOk() && r0.error().code == TransportError::Timeout) break; // drained AND tombstone consumed
                  }
                  len = sizeof(buf);
                }
                // From here on: exactly ONE call, the parking one, and nothing after it touches the
                // transport. state==1 + "counted by parked()" therefore means: inside that call.
                st[static_cast<std::size_t>(i)]->store(1);
                if (kind == 2)
                {
                  auto r = tp->connectSync("127.0.0.1", ctx->refusedPort, TlsMode::None, std::chrono::milliseconds(120000));
                  if (r.isOk()) ctx->fail("C05/op-succeeds-after-stop/connectSync", "connectSync() returned ok on a stopped transport");
                }
                else if (kind == 1)
                {
                  (void)tp->receiveSync(drained, buf, len, std::chrono::milliseconds(120000));
                }
                else
                {
                  (void)tp->receiveSync(900000 + static_cast<SessionId>(i), buf, len, std::chrono::milliseconds(120000));
                }
              }
              catch (const std::exception &e)
              {
                ctx->fail("C05/exception-from-call/after-stop", std::string("parking call after stop() threw: ") + e.what());
              }
              st[static_cast<std::size_t>(i)]->store(2);
            }));
        // gate: every late caller is done or counted (no other thread uses the transport now)
        auto gate = [&]
        {
          int calling = 0;
          for (auto &x : st)
          {
            int v = x->load();
            if (v == 0) return false;
            if (v == 1) ++calling;
          }
          if (calling == 0) return true;
          return static_cast<int>(Injector::parked(*tp).total()) == calling;
        };
        auto deadline = Clock::now() + std::chrono::seconds(kBoundSec);
        while (!gate() && Clock::now() < deadline) std::this_thread::sleep_for(std::chrono::microseconds(200));
        int parkedNow = 0;
        for (auto &x : st)
          if (x->load() == 1) ++parkedNow;
        if (gate())
        {
          if (parkedNow) c.label("destroyed after stop() with " + std::to_string(parkedNow) + " call(s) parked since the stop");
          std::this_thread::sleep_for(std::chrono::microseconds(cy.parkDropDelayUs));
          // names the stranded call if the destructor (this thread) and the waiters hang
          std::atomic<bool> lateDone{false};
          std::thread strandMonitor = spawn(
            [&]
            {
              auto dl = Clock::now() + std::chrono::seconds(kBoundSec);
              while (!lateDone.load() && Clock::now() < dl) std::this_thread::sleep_for(std::chrono::milliseconds(20));
              if (!lateDone.load())
              {
                std::fprintf(stderr, "C05: destruction of a stopped transport with parked calls did not finish within %d s\n", kBoundSec);
                pbt::watchdog(0.001, "C05/stranded-call/parked-after-stop");
                std::this_thread::sleep_for(std::chrono::seconds(5));
              }
            });
          sp.reset();
          {
            std::shared_ptr<Transport> take;
            {
              std::lock_guard<std::mutex> lk(ctx->ownerMu);
              take = std::move(ctx->owner);
              ctx->owner.reset();
            }
            take.reset(); // ~Transport on this (application) thread: already-stopped teardown path
          }
          for (auto &th : late) th.join();
          lateDone.store(true);
          strandMonitor.join();
          anyNontrivial = anyNontrivial || parkedNow > 0;
          if (parkedNow > 0) digest = pbt::hashMix(digest, 0x5709u + static_cast<std::uint64_t>(cy.parkKinds) * 7u + static_cast<std::uint64_t>(n));
        }
        else
        {
          // cannot destroy safely; the callers end with the normal end-of-case destruction only if
          // they are parked - which is exactly what could not be established: give up loudly
          c.label("note: late callers did not park");
          sp.reset();
          {
            std::shared_ptr<Transport> take;
            {
              std::lock_guard<std::mutex> lk(ctx->ownerMu);
              take = std::move(ctx->owner);
              ctx->owner.reset();
            }
            take.reset();
          }
          for (auto &th : late) th.join();
        }
      }
    }
    {
      std::lock_guard<std::mutex> lk(ctx->ownerMu);
      destroyed = !ctx->owner;
    }
  }

  // ---- end of case: make sure the transport is gone and nothing of it still runs ----------
  {
    std::shared_ptr<Transport> take;
    {
      std::lock_guard<std::mutex> lk(ctx->ownerMu);
      take = std::move(ctx->owner);
      ctx->owner.reset();
    }
    take.reset();
  }
  {
    // the detached I/O thread of a self-destructed transport deletes Impl in its epilogue
    auto deadline = Clock::now() + std::chrono::seconds(kBoundSec);
    while (!ctx->implGone.load() && Clock::now() < deadline) std::this_thread::sleep_for(std::chrono::microseconds(200));
    if (!ctx->implGone.load())
    {
      // Impl still alive after B: the deferred self-destruct never ran (or a reference leaked)
      std::string sig = "C05/impl-never-destroyed";
      std::string what = pbt::Fmt() << "the transport's internal state was not destroyed within " << kBoundSec
                                    << " s after the last owning reference was released (dtorReturned=" << ctx->dtorReturned.load() << ")";
      c.failTimed(sig, what);
      // cannot free the context under a possibly running thread
      (void)ctxOwner.release();
      return;
    }
    // give the detached thread the few instructions it needs to leave its lambda
    std::this_thread::sleep_for(std::chrono::microseconds(300));
  }
  // the transport is gone (stop + destruction, or destruction alone): every session the
  // application had seen must have received exactly one close notification
  {
    std::lock_guard<std::mutex> lk(ctx->closeMu);
    for (auto sid : allSetupSids)
    {
      int n = ctx->closeCount.count(sid) ? ctx->closeCount[sid] : 0;
      if (n != 1)
        ctx->fail(n == 0 ? "C05/session-without-close" : "C05/session-closed-twice",
                  "session " + std::to_string(sid) + " received " + std::to_string(n) + " close notifications by the time the transport was destroyed");
    }
  }
  c.label("cycles=" + std::to_string(plan.cycles.size()));
  c.label(pbt::Fmt() << "io callbacks " << (ctx->cbOnIo.load() == 0 ? "0" : ctx->cbOnIo.load() < 10 ? "1-9" : ctx->cbOnIo.load() < 100 ? "10-99" : ">=100"));
  if (ctx->cbOnApp.load()) c.label("callbacks on application threads (flush/sendAsync) seen");
  if (!inconclusive.empty()) c.inconclusive(inconclusive);
  {
    std::lock_guard<std::mutex> lk(ctx->failMu);
    if (!ctx->failSig.empty()) c.fail(ctx->failSig, ctx->failWhat);
  }
  if (anyNontrivial && !c.failed()) c.nontrivial(digest);
}

// ---- generator ---------------------------------------------------------------------
Plan genPlan(pbt::Src &src, bool udp)
{
  Plan p;
  p.udp = udp;
  p.edge = src.coin(3, 4);
  p.hiRes = src.coin(3, 4);
  p.batching = src.coin(1, 5);
  p.cbDelayUs = src.oneOf<int>({0, 0, 30, 200});
  p.holdFlushMs = src.oneOf<int>({0, 0, 2, 15});
  p.connectTimeoutMs = src.oneOf<int>({150, 30000, 30000});
  p.schedLevel = src.oneOf<int>({0, 2, 5, 10});
  p.schedSeed = static_cast<unsigned long>(src.range(1, 1000000));
  int cycles = static_cast<int>(src.weighted({5, 3, 2})) + 1;
  for (int ci = 0; ci < cycles; ++ci)
  {
    CyclePlan cy;
    const bool lastCycle = ci + 1 == cycles;
    // destroying kinds end the case: only in the last cycle
    cy.tdKind = lastCycle ? static_cast<int>(src.weighted({3, 3, 4, 2})) : (src.coin(1, 4) ? StopInCallback : StopOutside);
    cy.tdDelayUs = static_cast<int>(src.oneOf<int>({0, 100, 400, 1500, 6000, 30000}) + src.range(0, 300));
    cy.tdCallback = src.oneOf<int>({CbData, CbClose, CbObserver, CbCleanup, CbData | CbClose});
    cy.tdQuiesce = src.coin(1, 2);
    cy.guardedInCb = src.coin(1, 4) ? static_cast<int>(src.range(1, 4)) : 0;
    if (cy.tdKind != ReleaseInCallback && src.coin(1, 3))
    {
      cy.extraStoppers = static_cast<int>(src.range(1, 2));
      cy.stopperSkewUs = src.oneOf<int>({0, 0, 20, 150});
    }
    if ((cy.tdKind == StopOutside || cy.tdKind == StopInCallback) && src.coin(1, 3)) cy.stopInDrain = true;
    if (lastCycle && cy.tdKind == StopOutside && src.coin(1, 2))
    {
      cy.parkAfterStop = static_cast<int>(src.range(1, 2));
      cy.parkKinds = static_cast<int>(src.range(0, 15));
      cy.parkDropDelayUs = src.oneOf<int>({0, 200, 3000, 20000});
    }
    cy.nAccepted = static_cast<int>(src.range(0, 2));
    cy.nConnected = static_cast<int>(src.range(cy.nAccepted == 0 ? 1 : 0, 2));
    cy.writerMask = static_cast<int>(src.range(0, 15));
    const bool destroying = cy.tdKind == DropOutside || cy.tdKind == ReleaseInCallback;
    const bool borrowMode = destroying && src.coin(1, 2);
    int nActors = static_cast<int>(src.range(1, 4));
    auto rows = src.rows(static_cast<std::size_t>(nActors) * 6, 4, 0, 9999);
    std::size_t ri = 0;
    const int nSessions = cy.nAccepted + cy.nConnected;
    for (int ai = 0; ai < nActors; ++ai)
    {
      ActorPlan ap;
      std::size_t nOps = rows.size() / static_cast<std::size_t>(nActors) + (static_cast<std::size_t>(ai) < rows.size() % static_cast<std::size_t>(nActors) ? 1 : 0);
      for (std::size_t k = 0; k < nOps && ri < rows.size(); ++k, ++ri)
      {
        auto &r = rows[ri];
        static const int wt[] = {SyncBlackHole, SyncBlackHole, SyncListening, SyncRefused, RecvSync, RecvSync, RecvSync, Flush, Flush,
                                 SendOp, SendOp, CloseOp, AddListenerOp, StatsOp, ObserveOp, ConnectAsync, ConnectAsync, SetDataOp, AddrOp, SleepOp};
        AOp o;
        o.kind = wt[static_cast<std::size_t>(r[0]) % (sizeof(wt) / sizeof(wt[0]))];
        o.a = static_cast<int>(r[1]);
        o.b = static_cast<int>(r[2]);
        o.delayUs = static_cast<int>(r[3] % 5 == 0 ? r[3] % 3000 : r[3] % 200);
        if (borrowMode)
        {
          // generator invariant: when borrowers exist, owners never park
          if (o.kind == SyncBlackHole || o.kind == SyncListening || o.kind == SyncRefused || o.kind == RecvSync || o.kind == Flush)
            o.kind = (r[1] % 2) ? SendOp : StatsOp;
        }
        ap.ops.push_back(o);
      }
      if (borrowMode && src.coin(2, 3))
      {
        // this actor is a borrower: its last op is ONE parking call through a plain pointer
        ap.borrower = true;
        AOp o;
        int pick = static_cast<int>(src.weighted({3, 3, 2}));
        o.kind = pick == 0 ? SyncBlackHole : pick == 1 ? RecvSync : Flush;
        if (udp && o.kind == SyncBlackHole) o.kind = RecvSync;
        if ((o.kind == RecvSync || o.kind == Flush) && ai >= nSessions) o.kind = udp ? SleepOp : SyncBlackHole;
        if (o.kind == SleepOp) ap.borrower = false;
        o.a = static_cast<int>(src.range(0, 2));
        o.delayUs = static_cast<int>(src.range(0, 300));
        ap.ops.push_back(o);
      }
      cy.actors.push_back(ap);
    }
    // a borrower parked in receiveSync needs silence on its session; a flusher needs data
    for (int ai = 0; ai < nActors && ai < nSessions; ++ai)
      if (cy.actors[static_cast<std::size_t>(ai)].borrower)
      {
        int k = cy.actors[static_cast<std::size_t>(ai)].ops.back().kind;
        if (k == RecvSync) cy.writerMask &= ~(1 << ai);
        if (k == Flush) cy.writerMask |= (1 << ai);
      }
    p.cycles.push_back(cy);
  }
  if (p.holdFlushMs == 0)
    for (auto &cy : p.cycles)
      for (auto &a : cy.actors)
        if (a.borrower && a.ops.back().kind == Flush) p.holdFlushMs = 15;
  return p;
}

} // namespace

PBT_PROPERTY(teardown_tcp)
{
  Plan p = genPlan(src, false);
  runPlan(p, c);
}
PBT_PROPERTY(teardown_udp)
{
  Plan p = genPlan(src, true);
  runPlan(p, c);
}

// ---- fixed cases ----------------------------------------------------------------------
// C05-1: stop() leaves the fd tags of the sessions it closed behind; after a restart a new
// connection that gets the same fd number is dispatched to the freed Session.
PBT_REGRESSION(restart_fd_reuse_tcp)
{
  Plan p;
  p.udp = false;
  for (int i = 0; i < 2; ++i)
  {
    CyclePlan cy;
    cy.nAccepted = 2;
    cy.nConnected = 1;
    cy.writerMask = 7;
    cy.tdKind = StopOutside;
    cy.tdDelayUs = 3000;
    ActorPlan a;
    a.ops = {{StatsOp, 0, 0, 100}, {SendOp, 0, 1, 100}};
    cy.actors = {a};
    p.cycles.push_back(cy);
  }
  runPlan(p, c);
}
// Restart with the SAME UDP peers: accepted sessions still open at stop(), start() again, new
// listener, the same raw sockets (same remote ip:port) send again. Any per-peer state the
// engine kept across the stop (e.g. _peerIndex entries) would resolve to a dead session id.
PBT_REGRESSION(restart_same_udp_peers)
{
  Plan p;
  p.udp = true;
  for (int i = 0; i < 3; ++i)
  {
    CyclePlan cy;
    cy.nAccepted = 2;
    cy.nConnected = i == 1 ? 1 : 0;
    cy.writerMask = 3;
    cy.tdKind = StopOutside;
    cy.tdDelayUs = 3000;
    ActorPlan a;
    a.ops = {{StatsOp, 0, 0, 100}, {SendOp, 0, 1, 100}, {AddrOp, 0, 0, 50}};
    cy.actors = {a};
    p.cycles.push_back(cy);
  }
  runPlan(p, c);
}
// stop() returned; THEN two callers park (receiveSync on an id that never existed / on a drained id
// after its PeerClosed was consumed) and the owner is dropped: only the destructor's already-stopped
// path can wake them
PBT_REGRESSION(park_after_stop_then_destroy_tcp)
{
  Plan p;
  p.udp = false;
  CyclePlan cy;
  cy.nAccepted = 1;
  cy.nConnected = 1;
  cy.writerMask = 0;
  cy.tdKind = StopOutside;
  cy.tdDelayUs = 1000;
  cy.parkAfterStop = 2;
  cy.parkKinds = 0 | (1 << 2);
  cy.parkDropDelayUs = 2000;
  ActorPlan a;
  a.ops = {{StatsOp, 0, 0, 100}};
  cy.actors = {a};
  p.cycles = {cy};
  runPlan(p, c);
}
PBT_REGRESSION(park_after_stop_then_destroy_udp)
{
  Plan p;
  p.udp = true;
  CyclePlan cy;
  cy.nAccepted = 1;
  cy.nConnected = 0;
  cy.writerMask = 0;
  cy.tdKind = StopOutside;
  cy.tdDelayUs = 1000;
  cy.parkAfterStop = 2;
  cy.parkKinds = 1 | (2 << 2);
  cy.parkDropDelayUs = 0;
  ActorPlan a;
  a.ops = {{StatsOp, 0, 0, 100}};
  cy.actors = {a};
  p.cycles = {cy};
  runPlan(p, c);
}
// two (three) application threads call stop() at the same instant
PBT_REGRESSION(concurrent_stop_tcp)
{
  Plan p;
  p.udp = false;
  for (int i = 0; i < 2; ++i)
  {
    CyclePlan cy;
    cy.nAccepted = 2;
    cy.nConnected = 1;
    cy.writerMask = 1;
    cy.tdKind = StopOutside;
    cy.tdDelayUs = 1500;
    cy.extraStoppers = i + 1;
    cy.stopperSkewUs = i == 0 ? 0 : 20;
    ActorPlan a;
    a.ops = {{StatsOp, 0, 0, 100}, {SendOp, 0, 1, 100}};
    cy.actors = {a};
    p.cycles.push_back(cy);
  }
  runPlan(p, c);
}
PBT_REGRESSION(concurrent_stop_udp)
{
  Plan p;
  p.udp = true;
  for (int i = 0; i < 2; ++i)
  {
    CyclePlan cy;
    cy.nAccepted = 2;
    cy.nConnected = 1;
    cy.writerMask = 1;
    cy.tdKind = StopOutside;
    cy.tdDelayUs = 1500;
    cy.extraStoppers = i + 1;
    ActorPlan a;
    a.ops = {{StatsOp, 0, 0, 100}, {SendOp, 0, 1, 100}};
    cy.actors = {a};
    p.cycles.push_back(cy);
  }
  runPlan(p, c);
}
// stop() inside onClose while that callback is fired by an outside stop()'s drain: _running is already
// false, so the documented logic_error guard does not apply - the nested call must simply return
PBT_REGRESSION(stop_in_onclose_during_outside_stop_tcp)
{
  Plan p;
  p.udp = false;
  CyclePlan cy;
  cy.nAccepted = 2;
  cy.nConnected = 1;
  cy.writerMask = 0;
  cy.tdKind = StopOutside;
  cy.tdDelayUs = 1000;
  cy.stopInDrain = true;
  ActorPlan a;
  a.ops = {{StatsOp, 0, 0, 100}};
  cy.actors = {a};
  p.cycles = {cy, cy};
  runPlan(p, c);
}
PBT_REGRESSION(stop_in_onclose_during_outside_stop_udp)
{
  Plan p;
  p.udp = true;
  CyclePlan cy;
  cy.nAccepted = 2;
  cy.nConnected = 1;
  cy.writerMask = 0;
  cy.tdKind = StopOutside;
  cy.tdDelayUs = 1000;
  cy.stopInDrain = true;
  ActorPlan a;
  a.ops = {{StatsOp, 0, 0, 100}};
  cy.actors = {a};
  p.cycles = {cy};
  runPlan(p, c);
}
// stop() from outside racing calls that consult the I/O-thread guard (connectSync/receiveSync/setReadMode)
PBT_REGRESSION(stop_vs_guarded_calls_tcp)
{
  Plan p;
  p.udp = false;
  CyclePlan cy;
  cy.nAccepted = 1;
  cy.nConnected = 0;
  cy.writerMask = 0;
  cy.tdKind = StopOutside;
  cy.tdDelayUs = 2000;
  ActorPlan a;
  for (int i = 0; i < 40; ++i) a.ops.push_back({RecvSync, 0, 0, 50});
  cy.actors = {a, a};
  cy.actors[1].ops.clear();
  for (int i = 0; i < 40; ++i) cy.actors[1].ops.push_back({SyncRefused, 0, 0, 50});
  p.cycles = {cy};
  runPlan(p, c);
}
PBT_REGRESSION(stop_vs_guarded_calls_udp)
{
  Plan p;
  p.udp = true;
  CyclePlan cy;
  cy.nAccepted = 1;
  cy.nConnected = 0;
  cy.writerMask = 0;
  cy.tdKind = StopOutside;
  cy.tdDelayUs = 2000;
  ActorPlan a;
  for (int i = 0; i < 40; ++i) a.ops.push_back({RecvSync, 0, 0, 50});
  cy.actors = {a};
  p.cycles = {cy};
  runPlan(p, c);
}
// C05-2: with batching enabled getStats() copies EventBatchProcessor::stats_ on the caller's
// thread while the I/O thread updates it without synchronisation (TSan unit).
PBT_REGRESSION(getstats_while_batching_tcp)
{
  Plan p;
  p.udp = false;
  p.batching = true;
  CyclePlan cy;
  cy.nAccepted = 1;
  cy.nConnected = 0;
  cy.writerMask = 1;
  cy.tdKind = StopOutside;
  cy.tdDelayUs = 20000;
  ActorPlan a;
  for (int i = 0; i < 60; ++i) a.ops.push_back({StatsOp, 0, 0, 200});
  cy.actors = {a};
  p.cycles = {cy};
  runPlan(p, c);
}
PBT_REGRESSION(getstats_while_batching_udp)
{
  Plan p;
  p.udp = true;
  p.batching = true;
  CyclePlan cy;
  cy.nAccepted = 1;
  cy.nConnected = 0;
  cy.writerMask = 1;
  cy.tdKind = StopOutside;
  cy.tdDelayUs = 20000;
  ActorPlan a;
  for (int i = 0; i < 60; ++i) a.ops.push_back({StatsOp, 0, 0, 200});
  cy.actors = {a};
  p.cycles = {cy};
  runPlan(p, c);
}
// sole owner released inside onData / onClose with nothing else running
PBT_REGRESSION(release_in_ondata_sole_owner_tcp)
{
  Plan p;
  CyclePlan cy;
  cy.nAccepted = 1;
  cy.nConnected = 1;
  cy.writerMask = 3;
  cy.tdKind = ReleaseInCallback;
  cy.tdCallback = CbData;
  cy.tdQuiesce = true;
  ActorPlan a;
  a.ops = {{StatsOp, 0, 0, 0}};
  cy.actors = {a};
  p.cycles = {cy};
  runPlan(p, c);
}
PBT_REGRESSION(release_in_onclose_sole_owner_udp)
{
  Plan p;
  p.udp = true;
  CyclePlan cy;
  cy.nAccepted = 1;
  cy.nConnected = 1;
  cy.writerMask = 0;
  cy.tdKind = ReleaseInCallback;
  cy.tdCallback = CbClose;
  cy.tdQuiesce = true;
  ActorPlan a;
  a.ops = {{StatsOp, 0, 0, 0}};
  cy.actors = {a};
  p.cycles = {cy};
  runPlan(p, c);
}
// destroy from outside while borrowers are parked in connectSync / receiveSync / flush
PBT_REGRESSION(drop_outside_with_parked_borrowers_tcp)
{
  Plan p;
  p.holdFlushMs = 15;
  CyclePlan cy;
  cy.nAccepted = 2;
  cy.nConnected = 0;
  cy.writerMask = 2;
  cy.tdKind = DropOutside;
  cy.tdDelayUs = 500;
  ActorPlan r, f, b;
  r.borrower = f.borrower = b.borrower = true;
  r.ops = {{RecvSync, 2, 0, 0}};
  f.ops = {{Flush, 0, 0, 0}};
  b.ops = {{SyncBlackHole, 2, 0, 0}};
  cy.actors = {r, f, b};
  p.cycles = {cy};
  runPlan(p, c);
}

PBT_MAIN()
