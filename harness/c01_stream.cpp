// C01 - TCP/TLS sessions deliver sent bytes exactly once and in order.
//
// A real Transport::tcp(cfg) on loopback talks to an independent raw peer (plain POSIX socket or
// OpenSSL, harness/common/c01_rawpeer.hpp). The engine's socket I/O goes through the link-time
// interposer (harness/c01_interpose_net.cpp), which executes the plan's kernel fault script
// (short writes, EAGAIN on writes, short reads).
//
//   stream : plain TCP plans   { role, direction, ET/LT, batching, socket buffers, ioReadChunk,
//            maxWriteQueue, 1-4 sender threads with payload lists, peer read/write scripts,
//            kernel fault scripts, early end (peer FIN / peer RST / app close), sends before the
//            session is announced }
//   tls    : the same plans over TLS 1.2 / 1.3 against an OpenSSL peer
//   cuts   : one connection, payloads <= 64 B, EVERY cut position / EAGAIN / pass of the first
//            and of the second engine write is enumerated (exhaustive sub-tier)
//
// Oracle (from the property text):
//   * the bytes read by the raw peer parse as a concatenation of WHOLE payloads, each at most
//     once, each sender thread's payloads in that thread's order (the last one may be cut only
//     where the stream itself ends);
//   * session still open and peer still reading  => every accepted payload arrives completely
//     (bounded wait: no progress for kStallMs with the fault script exhausted = stall);
//   * session ended early (peer FIN/RST, app close, back-pressure close) => prefix of such a
//     concatenation AND onClose delivered;
//   * reverse direction: concatenation of the onData buffers is a prefix of what the raw peer
//     wrote; equal while the session stays open, and equal at a graceful peer FIN.
// "Accepted" = Transport::send()/sendAsync()/sendSync() reported success (the command was queued;
// that is the API's documented convention) on a session that had not been reported closed.
#include "c01_interpose_net.hpp"
#include "c01_rawpeer.hpp"
#include "pbt.hpp"

#include <iora/core/logger.hpp>
#include <iora/network/transport_impl.hpp>

#include <atomic>
#include <condition_variable>
#include <csignal>
#include <cstdlib>
#include <map>
#include <memory>
#include <mutex>
#include <thread>

#include <linux/sockios.h>
#include <sys/ioctl.h>

namespace net = iora::network;
using rawpeer::Clock;
using rawpeer::msSince;

namespace
{

constexpr int kStallMs = 6000;   // no progress at all for this long = stall (cases take ~5-50 ms: >= 100x)
constexpr int kDrainAfterCloseMs = 1500; // after onClose the peer reads on for at most this long (any prefix will do)
constexpr int kCaseCapMs = 30000; // a case that is still moving after this long is abandoned as inconclusive
constexpr int kSliceMs = 50;     // largest slice of silence one observation may contribute to a stall verdict
constexpr int kQuietMs = 250;    // after this much silence the data oracle is evaluated early (a wrong byte needs no waiting)
constexpr int kSetupMs = 10000;  // connection establishment bound (inconclusive beyond)
constexpr std::size_t kMaxTotal = 1536 * 1024;

// ------------------------------------------------------------------ deterministic content
inline std::uint64_t splitmix(std::uint64_t &x)
{
  x += 0x9E3779B97F4A7C15ULL;
  std::uint64_t z = x;
  z = (z ^ (z >> 30)) * 0xBF58476D1CE4E5B9ULL;
  z = (z ^ (z >> 27)) * 0x94D049BB133111EBULL;
  return z ^ (z >> 31);
}
void fillBytes(std::uint8_t *p, std::size_t n, std::uint64_t seed)
{
  std::uint64_t x = seed;
  std::size_t i = 0;
  while (i + 8 <= n)
  {
    std::uint64_t v = splitmix(x);
    std::memcpy(p + i, &v, 8);
    i += 8;
  }
  if (i < n)
  {
    std::uint64_t v = splitmix(x);
    std::memcpy(p + i, &v, n - i);
  }
}
// payload (thread t, index i): every byte is a function of (salt, t, i, offset); the first byte
// carries the thread number in its two top bits so that a stream position is attributable
void makePayload(std::vector<std::uint8_t> &out, std::uint32_t salt, unsigned t, unsigned i, std::size_t len)
{
  out.resize(len);
  fillBytes(out.data(), len, (std::uint64_t(salt) << 32) ^ (std::uint64_t(t + 1) << 24) ^ (std::uint64_t(i) + 1) * 0x100000001B3ULL);
  if (len) out[0] = static_cast<std::uint8_t>((t << 6) | (out[0] & 0x3f));
}

// ------------------------------------------------------------------------------ plan
struct SendOp
{
  std::uint32_t len = 1;
  std::uint32_t pauseUs = 0;
  int api = 0; // 0 send(BufferView) 1 sendAsync 2 sendSync 3 send(ptr,len)
};
struct IoStep
{
  std::uint32_t size = 1;
  std::uint32_t pauseUs = 0;
};
enum Role { Connector = 0, Listener = 1 };
enum Dir { I2P = 0, P2I = 1, Both = 2 };
enum End { EndNone = 0, EndPeerFin = 1, EndPeerRst = 2, EndAppClose = 3 };

struct Plan
{
  bool tls = false;
  int tlsMax = 0;
  int role = Connector;
  int dir = I2P;
  bool et = true;
  bool batching = false;
  bool hires = true;
  int sndBuf = 0, rcvBuf = 0, peerRcvBuf = 0, peerSndBuf = 0;
  std::size_t readChunk = 65536;
  std::size_t maxWq = 1024;
  std::uint32_t salt = 0;
  std::vector<std::vector<SendOp>> threads;
  std::vector<IoStep> peerReads;
  std::vector<IoStep> peerWrites; // chunks of the reverse stream
  std::uint32_t peerStartDelayUs = 0;
  std::vector<c01net::Step> wrFaults, rdFaults;
  int end = EndNone;
  int endFrac = 0;       // 0..8 : fraction of the planned bytes after which a peer end happens
  unsigned endAfterSends = 0; // app close after thread 0 issued this many sends
  unsigned earlySends = 0;    // thread-0 sends issued before the session is announced / from the callback
  bool syncRead = false;      // peer->iora bytes are read through ReadMode::Sync + receiveSync() polling instead of onData
  std::uint32_t syncBuf = 4096;   // buffer handed to receiveSync
  std::uint32_t syncTimeoutMs = 1; // its (short) timeout: many timed-out calls between arrivals

  std::size_t totalI2P() const
  {
    std::size_t n = 0;
    for (auto &t : threads)
      for (auto &s : t) n += s.len;
    return n;
  }
  std::size_t payloads() const
  {
    std::size_t n = 0;
    for (auto &t : threads) n += t.size();
    return n;
  }
  std::size_t totalP2I() const
  {
    std::size_t n = 0;
    for (auto &w : peerWrites) n += w.size;
    return n;
  }
};

std::string stepStr(const c01net::Step &s)
{
  switch (s.act)
  {
  case c01net::PASS: return "p";
  case c01net::CUT_ABS: return "c" + std::to_string(s.n);
  case c01net::CUT_END: return "e" + std::to_string(s.n);
  default: return "A";
  }
}

std::string describe(const Plan &p)
{
  pbt::Fmt f;
  f << (p.tls ? (p.tlsMax ? "TLS1.2 " : "TLS1.3 ") : "TCP ") << (p.role == Connector ? "iora=connector" : "iora=listener")
    << " dir=" << (p.dir == I2P ? "iora->peer" : p.dir == P2I ? "peer->iora" : "both") << (p.et ? " ET" : " LT")
    << (p.batching ? " batching" : "") << (p.hires ? "" : " noHiresTimers") << " sndbuf=" << p.sndBuf << " rcvbuf=" << p.rcvBuf
    << " peerRcv=" << p.peerRcvBuf << " readChunk=" << p.readChunk << " maxWq=" << p.maxWq << " salt=" << p.salt;
  f << " threads=[";
  for (std::size_t t = 0; t < p.threads.size(); ++t)
  {
    f << (t ? " | " : "");
    for (std::size_t i = 0; i < p.threads[t].size(); ++i)
    {
      if (i >= 12)
      {
        f << " ..(" << p.threads[t].size() << ")";
        break;
      }
      f << (i ? "," : "") << p.threads[t][i].len;
      if (p.threads[t][i].pauseUs) f << "+" << p.threads[t][i].pauseUs << "us";
    }
  }
  f << "] earlySends=" << p.earlySends << " peerDelay=" << p.peerStartDelayUs << "us peerReads=[";
  for (std::size_t i = 0; i < p.peerReads.size(); ++i)
    f << (i ? "," : "") << p.peerReads[i].size << "/" << p.peerReads[i].pauseUs;
  f << "] peerWrites=[";
  for (std::size_t i = 0; i < p.peerWrites.size(); ++i)
  {
    if (i >= 12)
    {
      f << "..(" << p.peerWrites.size() << ")";
      break;
    }
    f << (i ? "," : "") << p.peerWrites[i].size << "/" << p.peerWrites[i].pauseUs;
  }
  f << "] wrFaults=[";
  for (std::size_t i = 0; i < p.wrFaults.size(); ++i) f << (i ? "," : "") << stepStr(p.wrFaults[i]);
  f << "] rdFaults=[";
  for (std::size_t i = 0; i < p.rdFaults.size(); ++i) f << (i ? "," : "") << stepStr(p.rdFaults[i]);
  f << "]";
  if (p.syncRead) f << " syncRead(buf=" << p.syncBuf << ",timeout=" << p.syncTimeoutMs << "ms)";
  f << " end=" << (p.end == EndNone ? "none" : p.end == EndPeerFin ? "peerFIN" : p.end == EndPeerRst ? "peerRST" : "appClose");
  if (p.end == EndPeerFin || p.end == EndPeerRst) f << "@" << p.endFrac << "/8";
  if (p.end == EndAppClose) f << "@send" << p.endAfterSends;
  return f.str();
}

c01net::Step drawStep(const pbt::Row &r, bool allowAgain)
{
  // r = [kind, n]
  c01net::Step s;
  int k = static_cast<int>(r[0] % 10);
  std::uint32_t n = static_cast<std::uint32_t>(r[1]);
  static const std::uint32_t small[] = {1, 2, 3, 7, 8, 63, 64, 511, 1024, 4095};
  if (k < 3)
    s.act = c01net::PASS;
  else if (k < 6)
  {
    s.act = c01net::CUT_ABS;
    s.n = (n % 3 == 0) ? small[(n / 3) % 10] : 1 + n % 70000;
  }
  else if (k < 8)
  {
    s.act = c01net::CUT_END;
    s.n = (n % 2 == 0) ? small[(n / 2) % 10] : 1 + n % 5000;
  }
  else
    s.act = allowAgain ? c01net::AGAIN : c01net::CUT_ABS, s.n = 1 + n % 9;
  return s;
}

Plan drawPlan(pbt::Src &src, bool tls)
{
  Plan p;
  p.tls = tls;
  if (tls) p.tlsMax = src.coin(1, 3) ? TLS1_2_VERSION : 0;
  p.role = static_cast<int>(src.range(0, 1));
  p.dir = static_cast<int>(src.weighted({6, 2, 3}));
  p.et = !src.coin(1, 3);
  p.batching = src.coin(1, 4);
  p.hires = !src.coin(1, 6);
  p.sndBuf = src.oneOf<int>({0, 4096, 16384});
  p.rcvBuf = src.oneOf<int>({0, 4096, 16384});
  p.peerRcvBuf = src.oneOf<int>({0, 0, 2048, 8192});
  p.peerSndBuf = src.oneOf<int>({0, 4096});
  p.readChunk = src.oneOf<std::size_t>({1, 7, 512, 65536, 65536});
  p.maxWq = src.oneOf<std::size_t>({1024, 1024, 1024, 1024, 1024, 8, 2, 1});
  p.salt = static_cast<std::uint32_t>(src.range(0, 0x7fffffff));
  if (tls)
  {
    // a receive buffer far below one TLS record (16 KiB) makes the kernel fall back to zero-window
    // probing with second-long back-off: nothing to learn about the engine, only slow
    if (p.rcvBuf && p.rcvBuf < 16384) p.rcvBuf = 32768;
    if (p.peerRcvBuf && p.peerRcvBuf < 32768) p.peerRcvBuf = 32768;
  }

  const bool wantI2P = p.dir != P2I;
  const bool wantP2I = p.dir != I2P;
  const std::size_t bigBase = static_cast<std::size_t>(p.sndBuf ? p.sndBuf : 65536);
  const std::size_t big = std::min<std::size_t>(3 * bigBase, 1 << 20);

  std::size_t nThreads = wantI2P ? 1 + src.weighted({6, 2, 1, 1}) : 0;
  std::size_t total = 0;
  // a receive buffer of a few KiB makes the loopback stack fall back to zero-window probing with
  // 200 ms .. seconds of back-off once much data is queued: keep such plans small (they still give
  // real partial writes and real EAGAIN at once), the large transfers use the larger buffers
  const std::size_t totalCap = p.peerRcvBuf == 2048 ? 96 * 1024 : kMaxTotal;
  for (std::size_t t = 0; t < nThreads; ++t)
  {
    auto rows = src.rows(64 / nThreads, 4, 0, (1 << 20) - 1);
    std::vector<SendOp> ops;
    for (auto &r : rows)
    {
      SendOp o;
      std::uint32_t v = static_cast<std::uint32_t>(r[1]);
      switch (r[0] % 8)
      {
      case 0: o.len = 1; break;
      case 1:
      case 2: o.len = 1 + v % 64; break;
      case 3:
      case 4: o.len = 65 + v % 4032; break;
      case 5: o.len = 4097 + v % 61440; break;
      case 6: o.len = static_cast<std::uint32_t>(big / 3 + v % (big - big / 3 + 1)); break;
      default: o.len = static_cast<std::uint32_t>(bigBase - 2 + v % 5); break; // around the socket buffer size
      }
      if (total + o.len > totalCap) o.len = 1 + v % 64;
      total += o.len;
      static const std::uint32_t pz[] = {0, 0, 0, 0, 0, 20, 100, 500};
      o.pauseUs = pz[r[2] % 8];
      o.api = static_cast<int>(r[3] % 4);
      ops.push_back(o);
    }
    p.threads.push_back(std::move(ops));
  }
  // peer read script (also used as the "keeps reading" behaviour in P2I-only plans)
  {
    auto rows = src.rows(16, 2, 0, 1 << 16);
    static const std::uint32_t sz[] = {1, 7, 100, 1024, 4096, 16384, 65536, 65536};
    static const std::uint32_t pz[] = {0, 0, 0, 0, 50, 200, 1000, 4000};
    for (auto &r : rows) p.peerReads.push_back(IoStep{sz[r[0] % 8], pz[r[1] % 8]});
  }
  p.peerStartDelayUs = src.oneOf<std::uint32_t>({0, 0, 0, 500, 3000, 10000});
  if (wantP2I)
  {
    auto rows = src.rows(24, 3, 0, 1 << 20);
    std::size_t cap = p.readChunk == 1 ? 3000 : p.readChunk == 7 ? 20000 : p.rcvBuf == 4096 ? 96 * 1024 : 400 * 1024;
    std::size_t tot = 0;
    for (auto &r : rows)
    {
      IoStep w;
      std::uint32_t v = static_cast<std::uint32_t>(r[1]);
      switch (r[0] % 7)
      {
      case 0: w.size = 1; break;
      case 1: w.size = 1 + v % 16; break;
      case 2: w.size = 17 + v % 1500; break;
      case 3: w.size = static_cast<std::uint32_t>(p.readChunk - 1 + v % 3); break; // around ioReadChunk
      case 4: w.size = 4096 + v % 12288; break;
      case 5: w.size = 16384 + v % 114688; break;
      default: w.size = static_cast<std::uint32_t>(2 * p.readChunk + v % 5); break;
      }
      if (w.size == 0) w.size = 1;
      if (tot + w.size > cap) w.size = 1 + v % 7;
      if (tot + w.size > cap) break;
      tot += w.size;
      static const std::uint32_t pz[] = {0, 0, 0, 0, 30, 150, 600, 2000};
      w.pauseUs = pz[r[2] % 8];
      p.peerWrites.push_back(w);
    }
    if (p.peerWrites.empty()) p.peerWrites.push_back(IoStep{1 + static_cast<std::uint32_t>(p.salt % 97), 0});
  }
  for (auto &r : src.rows(24, 2, 0, 1 << 20)) p.wrFaults.push_back(drawStep(r, true));
  for (auto &r : src.rows(24, 2, 0, 1 << 20)) p.rdFaults.push_back(drawStep(r, false));
  p.end = static_cast<int>(src.weighted({12, 2, 2, 2}));
  p.endFrac = static_cast<int>(src.range(0, 8));
  if (p.end == EndAppClose && !wantI2P) p.end = EndNone;
  std::size_t n0 = p.threads.empty() ? 0 : p.threads[0].size();
  p.endAfterSends = static_cast<unsigned>(src.range(0, static_cast<std::int64_t>(n0)));
  p.earlySends = src.coin(1, 3) ? static_cast<unsigned>(src.range(0, static_cast<std::int64_t>(std::min<std::size_t>(n0, 4)))) : 0;
  p.syncRead = wantP2I && src.coin(1, 4);
  p.syncBuf = src.oneOf<std::uint32_t>({1, 7, 512, 4096, 65536});
  p.syncTimeoutMs = src.oneOf<std::uint32_t>({0, 1, 1, 3});
  if (p.syncRead)
  {
    // receiveSync() erases the copied prefix of its buffer on every call: tiny read buffers are
    // quadratic in the backlog, so keep the reverse stream small for them
    std::size_t cap = p.syncBuf == 1 ? 3000 : p.syncBuf == 7 ? 20000 : 400 * 1024, tot = 0;
    std::size_t keep = 0;
    while (keep < p.peerWrites.size() && tot + p.peerWrites[keep].size <= cap) tot += p.peerWrites[keep++].size;
    if (keep == 0 && !p.peerWrites.empty())
    {
      p.peerWrites[0].size = static_cast<std::uint32_t>(std::min<std::size_t>(p.peerWrites[0].size, cap));
      keep = 1;
    }
    p.peerWrites.resize(keep);
  }
  return p;
}

// ------------------------------------------------------------------- shared callback state
struct Shared
{
  std::mutex mu;
  std::condition_variable cv;
  bool haveSid = false;
  net::SessionId sid = 0;
  bool announced = false; // onConnect / onAccept for our session
  bool closed = false;
  int closeCode = -1;
  std::string closeMsg;
  std::vector<std::uint8_t> D; // concatenation of the onData buffers of our session
  std::size_t otherData = 0;
  std::size_t accepts = 0, connects = 0, closes = 0;
  std::atomic<int> expectPeerPort{-1}; // listener role: source port of the raw peer's connection (-1: any)
  std::atomic<unsigned> foreign{0};    // connections that are not the raw peer's (some other process hit our ephemeral port)
  std::atomic<std::uint64_t> ticks{0};
  std::function<void(net::SessionId)> onAnnounce; // runs on the I/O thread
};

// ----------------------------------------------------------------------- the raw peer
// One thread multiplexes reading and writing so that the same loop serves plain and TLS peers.
struct Peer
{
  // configuration
  const Plan *plan = nullptr;
  int fd = -1;
  rawpeer::TlsPeer *tls = nullptr;
  std::vector<std::uint8_t> W;  // what the peer writes
  std::size_t endRead = 0, endWrite = 0; // thresholds of a peer-initiated end
  Shared *sh = nullptr;
  // state (written by the peer thread; read by others only after join or through atomics)
  std::vector<std::uint8_t> R;
  std::mutex rMu; // R is appended by the peer thread and snapshotted by the main thread
  std::atomic<std::size_t> nRead{0}, nWritten{0};
  std::atomic<std::size_t> nOffered{0}; // bytes of W handed to send()/SSL_write so far (>= nWritten)
  std::atomic<bool> eof{false}, rdErr{false}, wrErr{false}, tlsCorrupt{false}, finSent{false}, rstDone{false};
  std::atomic<bool> stop{false};
  std::atomic<bool> readEnabled{true};
  std::atomic<bool> lastReadBlocked{false}; // the last read attempt found nothing (peer has drained what was there)
  std::atomic<bool> writeInFlight{false};   // a blocked TLS write is waiting to be repeated
  std::atomic<int> fdPub{-1};               // fd for read-only queue-length queries by the main thread
  int rdErrno = 0;
  std::string tlsErr;

  int rd(void *buf, std::size_t n)
  {
    if (!tls)
    {
      ssize_t r;
      do r = ::recv(fd, buf, n, MSG_DONTWAIT);
      while (r < 0 && errno == EINTR);
      if (r > 0) return static_cast<int>(r);
      if (r == 0) return 0;
      if (errno == EAGAIN || errno == EWOULDBLOCK) return -2;
      rdErrno = errno;
      return -1;
    }
    ERR_clear_error();
    int r = SSL_read(tls->ssl, buf, static_cast<int>(n));
    if (r > 0) return r;
    int e = SSL_get_error(tls->ssl, r);
    if (e == SSL_ERROR_WANT_READ || e == SSL_ERROR_WANT_WRITE) return -2;
    if (e == SSL_ERROR_ZERO_RETURN) return 0;
    unsigned long q = ERR_peek_error();
    if (e == SSL_ERROR_SSL)
    {
      int reason = ERR_GET_REASON(q);
      if (reason == SSL_R_UNEXPECTED_EOF_WHILE_READING) return 0;
      char b[200];
      ERR_error_string_n(q, b, sizeof b);
      tlsErr = b;
      if (reason < 1000) tlsCorrupt = true; // not an alert sent by the other side: the wire bytes are not valid TLS
      return -1;
    }
    if (e == SSL_ERROR_SYSCALL && r == 0) return 0;
    rdErrno = errno;
    return -1;
  }
  int wr(const void *buf, std::size_t n)
  {
    if (!tls)
    {
      ssize_t r;
      do r = ::send(fd, buf, n, MSG_DONTWAIT | MSG_NOSIGNAL);
      while (r < 0 && errno == EINTR);
      if (r >= 0) return static_cast<int>(r);
      if (errno == EAGAIN || errno == EWOULDBLOCK) return -2;
      return -1;
    }
    ERR_clear_error();
    int r = SSL_write(tls->ssl, buf, static_cast<int>(n));
    if (r > 0) return r;
    int e = SSL_get_error(tls->ssl, r);
    if (e == SSL_ERROR_WANT_READ || e == SSL_ERROR_WANT_WRITE) return -2;
    return -1;
  }

  void run()
  {
    const Plan &p = *plan;
    fdPub.store(fd, std::memory_order_release);
    if (p.peerStartDelayUs) std::this_thread::sleep_for(std::chrono::microseconds(p.peerStartDelayUs));
    std::vector<std::uint8_t> buf(1 << 16);
    std::size_t rdStep = 0, smallReads = 0;
    std::int64_t pauseBudgetUs = 25000;
    auto now = Clock::now();
    auto nextRead = now, nextWrite = now;
    std::size_t wChunk = 0, wOff = 0; // current chunk of W, offset of its start
    std::size_t wDoneInChunk = 0;
    std::size_t wLen = 0; // length handed to the last blocked TLS write (must be repeated unchanged)
    bool writeEnabled = !W.empty();
    bool endDone = false;
    while (!stop.load(std::memory_order_acquire))
    {
      bool progressed = false;
      now = Clock::now();
      // ---- peer-initiated early end
      if (!endDone && (p.end == EndPeerFin || p.end == EndPeerRst) && nRead.load() >= endRead &&
          nWritten.load() >= endWrite && wLen == 0)
      {
        endDone = true;
        writeEnabled = false;
        if (p.end == EndPeerRst)
        {
          fdPub.store(-1, std::memory_order_release);
          rstDone = true;
          rawpeer::reset(fd);
          fd = -1;
          notify();
          return;
        }
        if (tls) tls->closeNotify();
        rawpeer::fin(fd);
        finSent = true;
        notify();
      }
      // ---- read
      if (readEnabled.load() && now >= nextRead)
      {
        std::size_t want = 65536;
        std::uint32_t pause = 0;
        if (!p.peerReads.empty())
        {
          const IoStep &st = p.peerReads[rdStep % p.peerReads.size()];
          want = st.size;
          pause = st.pauseUs;
          if (want < 1024 && smallReads >= 300) want = 65536; // bounded number of tiny reads per case
        }
        int r = rd(buf.data(), std::min(want, buf.size()));
        lastReadBlocked.store(r == -2, std::memory_order_release);
        if (r > 0)
        {
          {
            std::lock_guard<std::mutex> g(rMu);
            R.insert(R.end(), buf.begin(), buf.begin() + r);
          }
          nRead.store(R.size(), std::memory_order_release);
          ++rdStep;
          if (want < 1024) ++smallReads;
          if (pause && pauseBudgetUs > 0)
          {
            pauseBudgetUs -= pause;
            nextRead = now + std::chrono::microseconds(pause);
          }
          progressed = true;
          notify();
        }
        else if (r == 0)
        {
          eof = true;
          readEnabled = false;
          notify();
        }
        else if (r == -1)
        {
          rdErr = true;
          readEnabled = false;
          notify();
        }
      }
      // ---- write
      if (writeEnabled && now >= nextWrite)
      {
        const IoStep &ch = p.peerWrites[wChunk];
        std::size_t left = ch.size - wDoneInChunk;
        std::size_t n = wLen ? wLen : left;
        nOffered.store(std::max(nOffered.load(), wOff + wDoneInChunk + n), std::memory_order_release);
        int r = wr(W.data() + wOff + wDoneInChunk, n);
        if (r > 0)
        {
          wLen = 0;
          wDoneInChunk += static_cast<std::size_t>(r);
          nWritten.fetch_add(static_cast<std::size_t>(r), std::memory_order_release);
          progressed = true;
          if (wDoneInChunk >= ch.size)
          {
            wOff += ch.size;
            wDoneInChunk = 0;
            ++wChunk;
            if (ch.pauseUs && pauseBudgetUs > 0)
            {
              pauseBudgetUs -= ch.pauseUs;
              nextWrite = now + std::chrono::microseconds(ch.pauseUs);
            }
            if (wChunk >= p.peerWrites.size()) writeEnabled = false;
          }
          notify();
        }
        else if (r == -2)
        {
          if (tls) wLen = n; // OpenSSL wants the identical call repeated
        }
        else
        {
          wrErr = true;
          writeEnabled = false;
          wLen = 0;
          notify();
        }
        writeInFlight.store(wLen != 0, std::memory_order_release);
      }
      if (!readEnabled.load() && !writeEnabled && (eof.load() || rdErr.load()))
      {
        // nothing left to do; wait for the stop flag
        std::this_thread::sleep_for(std::chrono::milliseconds(1));
        continue;
      }
      if (!progressed)
      {
        now = Clock::now();
        int waitMs = 5;
        short ev = 0;
        if (readEnabled.load())
        {
          if (now >= nextRead) ev |= POLLIN;
          else waitMs = std::min<int>(waitMs, 1);
        }
        if (writeEnabled)
        {
          if (now >= nextWrite) ev |= POLLOUT;
          else waitMs = std::min<int>(waitMs, 1);
        }
        if (ev)
        {
          pollfd pf{fd, ev, 0};
          ::poll(&pf, 1, waitMs);
        }
        else
        {
          auto until = std::min(readEnabled.load() ? nextRead : nextWrite, writeEnabled ? nextWrite : nextRead);
          auto d = std::chrono::duration_cast<std::chrono::microseconds>(until - now).count();
          std::this_thread::sleep_for(std::chrono::microseconds(std::max<std::int64_t>(20, std::min<std::int64_t>(d, 1000))));
        }
      }
    }
  }
  void notify()
  {
    sh->ticks.fetch_add(1, std::memory_order_relaxed);
    sh->cv.notify_all();
  }
};

// ----------------------------------------------------------------------- stream parsing
struct Accepted
{
  std::vector<std::vector<std::pair<unsigned, std::size_t>>> perThread; // (index, len) in issue order
};

// Parse R as a concatenation of whole accepted payloads; returns false + why on a violation.
// `consumed[t]` = number of thread t's accepted payloads completely present; `tailCut` = true
// when R ends inside a payload.
bool parseStream(const std::vector<std::uint8_t> &R, const Plan &p, const Accepted &acc, std::vector<std::size_t> &consumed,
                 bool &tailCut, std::string &why)
{
  consumed.assign(acc.perThread.size(), 0);
  tailCut = false;
  std::vector<std::uint8_t> pay;
  std::size_t pos = 0;
  while (pos < R.size())
  {
    unsigned t = R[pos] >> 6;
    if (t >= acc.perThread.size() || consumed[t] >= acc.perThread[t].size())
    {
      // unattributable start byte: say what would have been legal here
      pbt::Fmt f;
      f << "stream offset " << pos << ": byte 0x" << pbt::hex(std::string_view(reinterpret_cast<const char *>(&R[pos]), 1))
        << " does not start any outstanding payload (it names sender " << t << ", which has "
        << (t < acc.perThread.size() ? std::to_string(acc.perThread[t].size() - consumed[t]) : std::string("no"))
        << " payloads outstanding); received " << R.size() << " bytes";
      why = f.str();
      return false;
    }
    auto [idx, len] = acc.perThread[t][consumed[t]];
    makePayload(pay, p.salt, t, idx, len);
    std::size_t n = std::min(len, R.size() - pos);
    if (std::memcmp(pay.data(), R.data() + pos, n) != 0)
    {
      std::size_t k = 0;
      while (k < n && pay[k] == R[pos + k]) ++k;
      pbt::Fmt f;
      f << "stream offset " << pos + k << " (byte " << k << " of payload #" << idx << " of sender " << t << ", length " << len
        << "): expected " << pbt::hex(std::string_view(reinterpret_cast<const char *>(pay.data() + k), std::min<std::size_t>(8, len - k)))
        << " received " << pbt::hex(std::string_view(reinterpret_cast<const char *>(R.data() + pos + k), std::min<std::size_t>(8, R.size() - pos - k)))
        << "; received " << R.size() << " bytes in total";
      // classify: does the received data continue somewhere else in the same payload (skip / repeat)?
      if (k < n)
      {
        std::size_t probe = std::min<std::size_t>(6, R.size() - pos - k);
        if (probe >= 4)
          for (std::size_t o = 0; o + probe <= len; ++o)
            if (o != k && std::memcmp(pay.data() + o, R.data() + pos + k, probe) == 0)
            {
              f << " [the received bytes match offset " << o << " of the same payload: " << (o > k ? "bytes skipped" : "bytes repeated") << "]";
              break;
            }
      }
      why = f.str();
      return false;
    }
    pos += n;
    if (n < len) tailCut = true;
    else ++consumed[t];
  }
  return true;
}

// ---------------------------------------------------------------------------- TLS files
struct TlsMaterial
{
  rawpeer::SelfSigned cert;
  bool ok = false;
  std::string dir;
  TlsMaterial()
  {
    const char *tmp = std::getenv("TMPDIR");
    std::string base = (tmp && *tmp) ? tmp : "/tmp";
    std::string tpl = base + "/c01tls-XXXXXX";
    std::vector<char> b(tpl.begin(), tpl.end());
    b.push_back(0);
    if (!::mkdtemp(b.data())) return;
    dir = b.data();
    ok = cert.generate() && cert.writeFiles(dir, "srv");
  }
  ~TlsMaterial()
  {
    if (!cert.certFile.empty()) ::unlink(cert.certFile.c_str());
    if (!cert.keyFile.empty()) ::unlink(cert.keyFile.c_str());
    cert.certFile.clear();
    cert.keyFile.clear();
    if (!dir.empty()) ::rmdir(dir.c_str());
  }
};
TlsMaterial &tlsMaterial()
{
  static TlsMaterial m;
  return m;
}

void oncePerProcess()
{
  static bool done = false;
  if (done) return;
  done = true;
  std::signal(SIGPIPE, SIG_IGN);
  iora::core::Logger::setLevel(iora::core::Logger::Level::Fatal);
}

const char *codeName(int c)
{
  static const char *n[] = {"None", "Socket", "Resolve", "Bind", "Listen", "Accept", "Connect", "TLSHandshake", "TLSIO",
                            "PeerClosed", "WriteBackpressure", "Config", "GCClosed", "Cancelled", "Timeout", "BufferOverflow",
                            "ShuttingDown", "Unknown"};
  return (c >= 0 && c < 18) ? n[c] : "?";
}

net::TransportConfig makeConfig(const Plan &p)
{
  net::TransportConfig cfg;
  cfg.useEdgeTriggered = p.et;
  cfg.batching.enabled = p.batching;
  cfg.soSndBuf = p.sndBuf;
  cfg.soRcvBuf = p.rcvBuf;
  cfg.ioReadChunk = p.readChunk;
  cfg.maxWriteQueue = p.maxWq;
  cfg.enableHighResolutionTimers = p.hires;
  cfg.closeOnBackpressure = true; // the property is stated for the default policy
  if (p.tls)
  {
    if (p.role == Connector)
    {
      cfg.clientTls.enabled = true;
      cfg.clientTls.defaultMode = net::TlsMode::Client;
      cfg.clientTls.verifyPeer = false;
    }
    else
    {
      cfg.serverTls.enabled = true;
      cfg.serverTls.defaultMode = net::TlsMode::Server;
      cfg.serverTls.certFile = tlsMaterial().cert.certFile;
      cfg.serverTls.keyFile = tlsMaterial().cert.keyFile;
    }
  }
  return cfg;
}


// Accept the raw peer's end of OUR connection on lfd: the accepted socket's remote port must be
// the local port of the engine's session. A connection from anywhere else (another process that
// hit the ephemeral port) is reset and ignored.
int acceptOwn(int lfd, net::Transport &t, net::SessionId sid, Shared &sh, int timeoutMs)
{
  auto t0 = Clock::now();
  while (msSince(t0) < timeoutMs)
  {
    int fd = rawpeer::tcpAccept(lfd, timeoutMs - static_cast<int>(msSince(t0)));
    if (fd < 0) return -1;
    std::uint16_t rp = rawpeer::remotePort(fd), lp = 0;
    while (msSince(t0) < timeoutMs)
    {
      auto la = t.getLocalAddress(sid);
      if (la.port)
      {
        lp = la.port;
        break;
      }
      {
        std::lock_guard<std::mutex> lk(sh.mu);
        if (sh.closed) break; // session already gone again (e.g. back-pressure close): cannot be verified any more
      }
      std::this_thread::sleep_for(std::chrono::microseconds(200));
    }
    if (lp == 0 || lp == rp) return fd;
    sh.foreign.fetch_add(1);
    rawpeer::reset(fd);
  }
  return -1;
}

// ------------------------------------------------------------------------- execution
void runPlan(const Plan &p, pbt::Case &c)
{
  oncePerProcess();
  c.describe(describe(p));
  pbt::watchdog(150, "C01/case-hung");
  struct SlowLog
  {
    Clock::time_point t0 = Clock::now();
    const Plan &p;
    ~SlowLog()
    {
      static const char *e = std::getenv("C01_SLOW_MS");
      if (e && msSince(t0) > std::atoi(e)) std::fprintf(stderr, "SLOW %lld ms: %s\n", (long long)msSince(t0), describe(p).c_str());
    }
  } slowLog{Clock::now(), p};
  // debugging aid: C01_HANG_GDB=<seconds> dumps all thread stacks with gdb when a case takes that long
  struct HangDump
  {
    std::thread th;
    std::mutex m;
    std::condition_variable cv;
    bool done = false;
    HangDump()
    {
      const char *e = std::getenv("C01_HANG_GDB");
      if (!e) return;
      int secs = std::atoi(e);
      th = std::thread([this, secs] {
        std::unique_lock<std::mutex> lk(m);
        if (cv.wait_for(lk, std::chrono::seconds(secs), [this] { return done; })) return;
        char cmd[512];
        std::snprintf(cmd, sizeof cmd, "gdb -p %d -batch -ex 'thread apply all bt 25' > /tmp/c01_hang_%d.txt 2>&1", (int)getpid(), (int)getpid());
        int rc = std::system(cmd);
        (void)rc;
      });
    }
    ~HangDump()
    {
      {
        std::lock_guard<std::mutex> lk(m);
        done = true;
      }
      cv.notify_all();
      if (th.joinable()) th.join();
    }
  } hangDump;
  if (p.tls && !tlsMaterial().ok)
  {
    c.inconclusive("could not create TLS material");
    return;
  }

  c01net::reset();
  c01net::harnessThread(true);
  c01net::arm(true);
  c01net::setStreamWriteScript(p.wrFaults);
  c01net::setStreamReadScript(p.rdFaults);

  auto sh = std::make_shared<Shared>();
  const bool wantI2P = p.dir != P2I;

  // the reverse stream
  Peer peer;
  peer.plan = &p;
  peer.sh = sh.get();
  peer.W.resize(p.totalP2I());
  fillBytes(peer.W.data(), peer.W.size(), (std::uint64_t(p.salt) << 20) ^ 0xC01C01C01ULL);
  const std::size_t planned = p.totalI2P();
  if (p.end == EndPeerFin || p.end == EndPeerRst)
  {
    peer.endRead = planned * static_cast<std::size_t>(p.endFrac) / 8;
    peer.endWrite = peer.W.size() * static_cast<std::size_t>(p.endFrac) / 8;
  }

  // ---- early sends of sender 0 (before the session is announced / from inside the callback)
  Accepted acc;
  acc.perThread.resize(p.threads.size());
  std::mutex accMu; // acc.perThread[0] is touched by the callback thread and sender 0 (never concurrently, but keep TSan-clean)
  std::atomic<unsigned> sent0{0};

  auto t = net::Transport::tcp(makeConfig(p));
  std::weak_ptr<net::Transport> wt = t;
  auto doSend = [&p, &acc, &accMu, wt](unsigned th, unsigned idx, net::SessionId sid, std::vector<std::uint8_t> &buf,
                                       bool onIoThread = false) {
    auto tp = wt.lock();
    if (!tp) return;
    const SendOp &o = p.threads[th][idx];
    makePayload(buf, p.salt, th, idx, o.len);
    bool ok = false;
    switch (onIoThread && o.api == 2 ? 0 : o.api)
    {
    case 0: ok = tp->send(sid, iora::core::BufferView{buf.data(), buf.size()}); break;
    case 1:
      tp->sendAsync(sid, iora::core::BufferView{buf.data(), buf.size()},
                    [&ok](net::SessionId, const net::SendResult &r) { ok = r.isOk(); });
      break;
    case 2: // sendSync (must not be called on the I/O thread: it throws there by contract)
      ok = tp->sendSync(sid, iora::core::BufferView{buf.data(), buf.size()}).isOk();
      break;
    default: ok = tp->send(sid, buf.data(), buf.size()); break;
    }
    if (ok)
    {
      std::lock_guard<std::mutex> lk(accMu);
      acc.perThread[th].push_back({idx, o.len});
    }
  };

  t->onAccept([sh](net::SessionId sid, const net::TransportAddress &a) {
    std::function<void(net::SessionId)> f;
    {
      int exp = sh->expectPeerPort.load();
      if (exp >= 0 && a.port != exp)
      {
        sh->foreign.fetch_add(1); // not the raw peer's connection
        return;
      }
      std::lock_guard<std::mutex> lk(sh->mu);
      ++sh->accepts;
      if (!sh->haveSid)
      {
        sh->haveSid = true;
        sh->sid = sid;
        f = sh->onAnnounce;
      }
    }
    if (f) f(sid);
    {
      std::lock_guard<std::mutex> lk(sh->mu);
      if (sh->sid == sid) sh->announced = true;
    }
    sh->ticks.fetch_add(1);
    sh->cv.notify_all();
  });
  t->onConnect([sh](net::SessionId sid, const net::TransportAddress &) {
    {
      std::lock_guard<std::mutex> lk(sh->mu);
      ++sh->connects;
      if (sh->haveSid && sh->sid == sid) sh->announced = true;
    }
    sh->ticks.fetch_add(1);
    sh->cv.notify_all();
  });
  t->onData([sh](net::SessionId sid, iora::core::BufferView d, std::chrono::steady_clock::time_point) {
    {
      std::lock_guard<std::mutex> lk(sh->mu);
      if (sh->haveSid && sh->sid == sid) sh->D.insert(sh->D.end(), d.data(), d.data() + d.size());
      else sh->otherData += d.size();
    }
    sh->ticks.fetch_add(1);
    sh->cv.notify_all();
  });
  t->onClose([sh](net::SessionId sid, const net::TransportErrorInfo &why) {
    {
      std::lock_guard<std::mutex> lk(sh->mu);
      ++sh->closes;
      if (sh->haveSid && sh->sid == sid && !sh->closed)
      {
        sh->closed = true;
        sh->closeCode = static_cast<int>(why.code);
        sh->closeMsg = why.message;
      }
    }
    sh->ticks.fetch_add(1);
    sh->cv.notify_all();
  });
  t->onError([](net::TransportError, const std::string &) {});

  auto st = t->start();
  if (st.isErr())
  {
    c.inconclusive("transport start failed");
    return;
  }

  // ---- establish the connection
  int lfd = -1;
  std::uint16_t port = 0;
  net::SessionId sid = 0;
  std::vector<std::uint8_t> earlyBuf;
  const unsigned early = wantI2P && !p.threads.empty() ? std::min<unsigned>(p.earlySends, static_cast<unsigned>(p.threads[0].size())) : 0;
  auto teardown = [&](bool peerAlive) {
    if (peerAlive && peer.fd >= 0)
    {
      rawpeer::reset(peer.fd);
      peer.fd = -1;
    }
    if (lfd >= 0) ::close(lfd);
    lfd = -1;
    t->stop();
    t.reset();
    c01net::arm(false);
  };

  if (p.role == Connector)
  {
    lfd = rawpeer::tcpListen(port, 16, p.peerRcvBuf, p.peerSndBuf);
    if (lfd < 0)
    {
      c.inconclusive("raw listener could not be created");
      teardown(false);
      return;
    }
    auto cr = t->connect("127.0.0.1", port, p.tls ? net::TlsMode::Client : net::TlsMode::None);
    if (cr.isErr())
    {
      c.inconclusive("connect() refused");
      teardown(false);
      return;
    }
    sid = cr.value();
    {
      std::lock_guard<std::mutex> lk(sh->mu);
      sh->haveSid = true;
      sh->sid = sid;
    }
    // sends issued before onConnect
    for (unsigned i = 0; i < early; ++i)
    {
      doSend(0, i, sid, earlyBuf);
      sent0.fetch_add(1);
    }
    peer.fd = acceptOwn(lfd, *t, sid, *sh, kSetupMs);
    if (peer.fd < 0)
    {
      c.inconclusive("raw peer did not get the connection");
      teardown(false);
      return;
    }
  }
  else
  {
    auto lr = t->addListener("127.0.0.1", 0, p.tls ? net::TlsMode::Server : net::TlsMode::None);
    if (lr.isErr())
    {
      c.inconclusive("addListener failed");
      teardown(false);
      return;
    }
    auto la = t->getListenerAddress(lr.value());
    if (la.port == 0)
    {
      c.inconclusive("listener address unknown");
      teardown(false);
      return;
    }
    if (early)
    {
      // sends issued from inside onAccept (for TLS: while the handshake is still running)
      std::lock_guard<std::mutex> lk(sh->mu);
      sh->onAnnounce = [&, early](net::SessionId s) {
        std::vector<std::uint8_t> b;
        for (unsigned i = 0; i < early; ++i)
        {
          doSend(0, i, s, b, true);
          sent0.fetch_add(1);
        }
      };
    }
    peer.fd = rawpeer::tcpConnectFrom(la.port, p.peerRcvBuf, p.peerSndBuf, [&](std::uint16_t lp) { sh->expectPeerPort.store(lp); });
    if (peer.fd < 0)
    {
      c.inconclusive("raw peer could not connect");
      teardown(false);
      return;
    }
  }

  // TLS handshake of the raw peer (runs in the peer thread's context below for plain sockets
  // nothing is needed). The engine side progresses on its own I/O thread meanwhile.
  rawpeer::TlsPeer tlsPeer;
  bool hsFailed = false;
  if (p.tls)
  {
    bool server = p.role == Connector;
    if (!tlsPeer.init(server, server ? &tlsMaterial().cert : nullptr, p.tlsMax))
    {
      c.inconclusive("OpenSSL peer context could not be created");
      teardown(true);
      return;
    }
    if (!tlsPeer.handshake(peer.fd, server, kStallMs))
      hsFailed = true;
    else
      peer.tls = &tlsPeer;
  }

  // wait until the session is known (listener role) - bounded, inconclusive beyond
  if (!hsFailed)
  {
    std::unique_lock<std::mutex> lk(sh->mu);
    bool ok = sh->cv.wait_for(lk, std::chrono::milliseconds(kSetupMs), [&] { return sh->haveSid || sh->closed; });
    if (!ok)
    {
      lk.unlock();
      c.inconclusive("session was not announced within the setup bound");
      teardown(true);
      return;
    }
    sid = sh->sid;
  }
  if (hsFailed)
  {
    // An independent OpenSSL peer could not complete the handshake. With a protocol error this
    // means the engine put bytes on the wire that are not a TLS handshake.
    int reason = ERR_GET_REASON(tlsPeer.lastErrCode);
    bool corrupt = tlsPeer.lastSslError == SSL_ERROR_SSL && reason < 1000 && reason != SSL_R_UNEXPECTED_EOF_WHILE_READING;
    // handshake timed out while the peer was waiting for bytes from the engine, nothing is in
    // flight in either direction and the session is not reported closed: the engine owes the step
    bool owed = false;
    if (tlsPeer.lastWant == SSL_ERROR_WANT_READ)
    {
      int oq = -1, iq = -1, eiq = -1;
      int efd = c01net::lastEngineStreamFd();
      bool closedNow;
      {
        std::lock_guard<std::mutex> lk(sh->mu);
        closedNow = sh->closed;
      }
      if (!closedNow && efd >= 0 && ::ioctl(efd, SIOCOUTQ, &oq) == 0 && ::ioctl(peer.fd, FIONREAD, &iq) == 0 && ::ioctl(efd, FIONREAD, &eiq) == 0)
        owed = (oq == 0 && iq == 0);
      (void)eiq;
    }
    std::string e = tlsPeer.err;
    teardown(true);
    if (corrupt)
      c.fail("C01/tls-wire-corrupt", "the OpenSSL peer rejected the engine's handshake bytes: " + e);
    else if (owed)
      c.failTimed("C01/tls-handshake-stall", "the OpenSSL peer waited " + std::to_string(kStallMs) +
                                               " ms for handshake bytes from the engine; nothing was in flight and the session was not reported closed");
    else
      c.inconclusive("TLS handshake did not complete: " + e);
    return;
  }

  // ---- optional: read the reverse stream through Sync mode + receiveSync() with short timeouts.
  // The mode is switched before the raw peer writes its first byte (its thread starts below), so
  // every byte goes through the sync buffer; the same exact-stream oracle applies to what the
  // polling reader collects. Single waiter (contract), never on the I/O thread (contract).
  std::atomic<bool> readerStop{false};
  std::thread reader;
  const bool useSync = p.syncRead && p.dir != I2P && t->setReadMode(sid, net::ReadMode::Sync);
  if (useSync)
  {
    reader = std::thread([&, sid] {
      c01net::harnessThread(true);
      std::vector<std::uint8_t> b(p.syncBuf ? p.syncBuf : 1);
      for (;;)
      {
        std::size_t len = b.size();
        auto r = t->receiveSync(sid, b.data(), len, std::chrono::milliseconds(p.syncTimeoutMs));
        if (r.isOk())
        {
          {
            std::lock_guard<std::mutex> lk(sh->mu);
            sh->D.insert(sh->D.end(), b.begin(), b.begin() + static_cast<std::ptrdiff_t>(r.value()));
          }
          sh->ticks.fetch_add(1);
          sh->cv.notify_all();
        }
        else if (r.error().code == net::TransportError::Timeout)
        {
          if (readerStop.load()) break;
          if (p.syncTimeoutMs == 0) std::this_thread::sleep_for(std::chrono::microseconds(50));
        }
        else
          break; // PeerClosed after the drain, ShuttingDown, ...
      }
    });
  }

  // ---- run: peer thread + sender threads
  std::thread peerThread([&peer] {
    c01net::harnessThread(true);
    peer.run();
  });
  std::vector<std::thread> senders;
  std::atomic<unsigned> sendersDone{0};
  std::atomic<bool> appClosed{false};
  for (unsigned th = 0; th < p.threads.size(); ++th)
  {
    senders.emplace_back([&, th] {
      c01net::harnessThread(true);
      std::vector<std::uint8_t> buf;
      unsigned first = th == 0 ? early : 0;
      if (th == 0 && p.role == Listener && early)
      {
        // the callback issues the early sends; wait until it has done so
        std::unique_lock<std::mutex> lk(sh->mu);
        sh->cv.wait_for(lk, std::chrono::milliseconds(kSetupMs), [&] { return sh->announced || sh->closed; });
      }
      for (unsigned i = first; i < p.threads[th].size(); ++i)
      {
        if (th == 0 && p.end == EndAppClose && !appClosed.load() && sent0.load() >= p.endAfterSends)
        {
          appClosed = true;
          t->close(sid);
        }
        if (p.threads[th][i].pauseUs) std::this_thread::sleep_for(std::chrono::microseconds(p.threads[th][i].pauseUs));
        doSend(th, i, sid, buf);
        if (th == 0) sent0.fetch_add(1);
      }
      if (th == 0 && p.end == EndAppClose && !appClosed.load())
      {
        appClosed = true;
        t->close(sid);
      }
      sendersDone.fetch_add(1);
      sh->ticks.fetch_add(1);
      sh->cv.notify_all();
    });
  }
  if (p.threads.empty() && p.end == EndAppClose) { /* excluded by the generator */ }

  // ---- wait for completion or stall
  // A stall verdict needs more than silence: the kernel itself can be slow (zero-window probing
  // with tiny buffers backs off to seconds). The stall clock therefore only runs while the
  // silence is attributable to the ENGINE:
  //   iora->peer: bytes are missing at the peer although nothing is in flight - the engine's
  //               socket send queue is empty (SIOCOUTQ == 0, so the socket is writable) and the
  //               peer has drained its socket (FIONREAD == 0, last read attempt would block);
  //   peer->iora: unread bytes sit in the engine's socket (FIONREAD > 0), or everything the
  //               peer wrote has been read by the engine (peer's SIOCOUTQ == 0, engine's
  //               FIONREAD == 0) and still was not delivered;
  //   wire ended (peer FIN/RST seen or sent) but no onClose.
  // Any other silence (bytes in flight, peer pausing, peer draining after a reported close)
  // resets the clock; a case that exceeds kCaseCapMs that way is inconclusive, never a failure.
  enum class Outcome { Done, Stall, NoCloseAfterEnd, DataEarly, TooSlow } outcome = Outcome::Done;
  std::string stallWhat;
  {
    auto sockOutq = [](int fd) -> long {
      int v = 0;
      if (fd < 0 || ::ioctl(fd, SIOCOUTQ, &v) != 0) return -1;
      return v;
    };
    auto sockInq = [](int fd) -> long {
      int v = 0;
      if (fd < 0 || ::ioctl(fd, FIONREAD, &v) != 0) return -1;
      return v;
    };
    const auto waitStart = Clock::now();
    auto lastProgress = waitStart;
    // Quiet time is only counted in slices the observer itself witnessed (<= kSliceMs per loop
    // iteration): if the whole process or VM is frozen for seconds, the wall clock jumps but no
    // thread - including the engine's - had a chance to run, and that must not count as a stall.
    auto lastIter = waitStart;
    std::int64_t quietObservedMs = 0;
    std::uint64_t lastTicks = ~0ULL, lastAct = ~0ULL;
    bool quietChecked = false;
    bool closedSeen = false;
    Clock::time_point closedAt{};
    std::unique_lock<std::mutex> lk(sh->mu);
    for (;;)
    {
      const auto now0 = Clock::now();
      bool sendersFinished = sendersDone.load() == p.threads.size();
      std::size_t accTotal = 0;
      if (sendersFinished)
      {
        std::lock_guard<std::mutex> g(accMu);
        for (auto &v : acc.perThread)
          for (auto &e : v) accTotal += e.second;
      }
      const bool peerEnded = peer.rstDone.load() || peer.eof.load() || peer.rdErr.load();
      const bool wireEnded = peerEnded || peer.finSent.load();
      bool done = false;
      if (sh->closed)
      {
        // reported closed: the peer still drains what the kernel holds, but any prefix is as good
        // as another for the oracle - do not wait long for a slow kernel (tiny buffers)
        if (!closedSeen)
        {
          closedSeen = true;
          closedAt = now0;
        }
        done = sendersFinished && (peerEnded || msSince(closedAt) > kDrainAfterCloseMs);
      }
      else if (wireEnded)
        done = false; // the session ended on the wire: onClose has to follow
      else
      {
        bool i2pDone = sendersFinished && peer.nRead.load() >= accTotal;
        bool p2iDone = sh->D.size() >= peer.W.size() && peer.nWritten.load() >= peer.W.size();
        done = i2pDone && p2iDone;
      }
      if (done) break;
      std::uint64_t tk = sh->ticks.load(), act = c01net::activity();
      auto now = Clock::now();
      // ---- who owes the next step?
      bool engineOwes = false;
      std::string owes;
      if (!sh->closed && wireEnded)
      {
        engineOwes = true;
        owes = "the connection ended on the wire, onClose is owed";
      }
      else if (!sh->closed && sendersFinished)
      {
        const int efd = c01net::lastEngineStreamFd();
        const int pfd = peer.rstDone.load() ? -1 : peer.fdPub.load();
        if (peer.nRead.load() < accTotal)
        {
          long oq = sockOutq(efd), iq = sockInq(pfd);
          if (oq == 0 && iq == 0 && peer.lastReadBlocked.load())
          {
            engineOwes = true;
            owes = "bytes are missing at the peer, the engine's socket send queue is empty and the peer has drained its socket";
          }
        }
        if (!engineOwes && sh->D.size() < peer.nWritten.load())
        {
          long eiq = sockInq(efd), poq = sockOutq(pfd);
          if (eiq > 0)
          {
            engineOwes = true;
            owes = std::to_string(eiq) + " unread bytes wait in the engine's socket";
          }
          else if (eiq == 0 && poq == 0 && !peer.writeInFlight.load())
          {
            engineOwes = true;
            owes = "the engine has read everything the peer wrote but has not delivered it";
          }
        }
      }
      {
        std::int64_t dt = std::chrono::duration_cast<std::chrono::milliseconds>(now - lastIter).count();
        lastIter = now;
        quietObservedMs += std::min<std::int64_t>(dt, kSliceMs);
      }
      if (tk != lastTicks || act != lastAct || !engineOwes)
      {
        if (tk != lastTicks || act != lastAct) quietChecked = false;
        lastTicks = tk;
        lastAct = act;
        lastProgress = now;
        quietObservedMs = 0;
        if (msSince(waitStart) > kCaseCapMs)
        {
          outcome = Outcome::TooSlow;
          break;
        }
      }
      else if (quietObservedMs > kStallMs)
      {
        pbt::Fmt f;
        f << "no engine activity for " << kStallMs << " ms although " << owes << ": peer read " << peer.nRead.load() << " of " << accTotal
          << " accepted bytes, onData delivered " << sh->D.size() << " of " << peer.nWritten.load() << " bytes written by the peer, session open, fault script left: "
          << c01net::streamWriteScriptLeft() << " write / " << c01net::streamReadScriptLeft() << " read steps";
        stallWhat = f.str();
        outcome = wireEnded ? Outcome::NoCloseAfterEnd : Outcome::Stall;
        if (std::getenv("C01_STALL_GDB"))
        {
          // debugging aid: stacks of all threads at the moment of the verdict
          c01net::Counters k = c01net::counters();
          std::fprintf(stderr, "STALL pid=%d %s | wrCalls=%llu rdCalls=%llu rdAgainReal=%llu rdBytes=%llu wrBytes=%llu efd=%d\n  %s\n", (int)getpid(), stallWhat.c_str(),
                       (unsigned long long)k.wrCalls, (unsigned long long)k.rdCalls, (unsigned long long)k.rdAgainReal, (unsigned long long)k.rdBytes,
                       (unsigned long long)k.wrBytes, c01net::lastEngineStreamFd(), describe(p).c_str());
          char cmd[512];
          std::snprintf(cmd, sizeof cmd, "gdb -p %d -batch -ex 'thread apply all bt 30' > /tmp/c01_stall_%d.txt 2>&1", (int)getpid(), (int)getpid());
          lk.unlock();
          int rc = std::system(cmd);
          (void)rc;
          lk.lock();
        }
        break;
      }
      if (!quietChecked && sendersFinished && msSince(lastProgress) > kQuietMs)
      {
        // nothing moves: look at the data now - a wrong, missing-in-the-middle or repeated byte is
        // a data-oracle failure at once and needs no bounded wait
        quietChecked = true;
        std::vector<std::uint8_t> snap;
        {
          std::lock_guard<std::mutex> g(peer.rMu);
          snap = peer.R;
        }
        std::vector<std::size_t> cons;
        bool tc = false;
        std::string w;
        bool bad;
        {
          std::lock_guard<std::mutex> g(accMu);
          bad = !parseStream(snap, p, acc, cons, tc, w);
        }
        std::size_t off = std::max(peer.nWritten.load(), peer.nOffered.load());
        if (!bad && (sh->D.size() > off || (!sh->D.empty() && std::memcmp(sh->D.data(), peer.W.data(), sh->D.size()) != 0))) bad = true;
        if (bad)
        {
          outcome = Outcome::DataEarly;
          break;
        }
      }
      {
        static const char *dbg = std::getenv("C01_HANG_GDB");
        static thread_local Clock::time_point lastDbg;
        if (dbg && msSince(slowLog.t0) > 15000 && msSince(lastDbg) > 3000)
        {
          lastDbg = Clock::now();
          c01net::Counters k = c01net::counters();
          std::fprintf(stderr,
                       "DBG pid=%d t=%lldms sinceProgress=%lldms owes=[%s] ticks=%llu act=%llu nRead=%zu accTotal=%zu sendersFinished=%d D=%zu W=%zu nWritten=%zu closed=%d eof=%d rdErr=%d fin=%d rst=%d wrCalls=%llu wrAgainReal=%llu wrBytes=%llu rdCalls=%llu scriptLeft=%zu/%zu\n",
                       (int)getpid(), (long long)msSince(slowLog.t0), (long long)msSince(lastProgress), owes.c_str(), (unsigned long long)tk, (unsigned long long)act,
                       peer.nRead.load(), accTotal, (int)sendersFinished, sh->D.size(), peer.W.size(), peer.nWritten.load(), (int)sh->closed,
                       (int)peer.eof.load(), (int)peer.rdErr.load(), (int)peer.finSent.load(), (int)peer.rstDone.load(), (unsigned long long)k.wrCalls,
                       (unsigned long long)k.wrAgainReal, (unsigned long long)k.wrBytes, (unsigned long long)k.rdCalls, c01net::streamWriteScriptLeft(),
                       c01net::streamReadScriptLeft());
        }
      }
      sh->cv.wait_for(lk, std::chrono::milliseconds(engineOwes ? 20 : 5));
    }
  }

  // ---- snapshot, then tear down
  for (auto &s : senders) s.join();
  if (reader.joinable())
  {
    readerStop = true; // an open session: stop at the next timeout; a closed one: the reader drains and ends with PeerClosed
    reader.join();
  }
  peer.stop = true;
  peerThread.join();
  bool closed;
  int closeCode;
  std::string closeMsg;
  std::vector<std::uint8_t> D;
  std::size_t otherData, accepts, connects;
  {
    std::lock_guard<std::mutex> lk(sh->mu);
    closed = sh->closed;
    closeCode = sh->closeCode;
    closeMsg = sh->closeMsg;
    D = sh->D;
    otherData = sh->otherData;
    accepts = sh->accepts;
    connects = sh->connects;
  }
  c01net::Counters cnt = c01net::counters();
  peer.tls = nullptr;
  tlsPeer.destroy();
  teardown(true);

  // ---- labels
  c.label(p.role == Connector ? "role: iora connects" : "role: iora listens");
  c.label(p.dir == I2P ? "dir: iora->peer" : p.dir == P2I ? "dir: peer->iora" : "dir: both");
  c.label(p.et ? "edge-triggered" : "level-triggered");
  if (p.batching) c.label("batching on");
  c.label("sender threads: " + std::to_string(p.threads.size()));
  if (cnt.wrShortReal) c.label("real partial write seen");
  if (cnt.wrAgainReal) c.label("real EAGAIN on write seen");
  if (cnt.wrCutInj) c.label("injected short write");
  if (cnt.wrAgainInj) c.label("injected EAGAIN on write");
  if (cnt.rdCutInj) c.label("injected short read");
  if (cnt.unexpected) c.label("engine used writev/sendmsg/recvmsg on its socket");
  if (p.tls && cnt.viaReadWrite == 0) c.label("TLS: BIO traffic not seen by the interposer");
  if (p.tls && cnt.wrAgainInj) c.label("TLS: WANT_WRITE forced (EAGAIN under SSL)");
  if (useSync) c.label("peer->iora read through Sync mode + receiveSync polling");
  if (early) c.label(p.role == Connector ? "sends before onConnect" : (p.tls ? "sends from onAccept during TLS handshake" : "sends from onAccept"));
  if (closed) c.label(std::string("closed: ") + codeName(closeCode));
  if (p.end != EndNone) c.label(p.end == EndPeerFin ? "early end: peer FIN" : p.end == EndPeerRst ? "early end: peer RST" : "early end: app close");

  // ---- oracle (data oracles first: they are sound whatever the timing)
  if (peer.tlsCorrupt.load())
  {
    c.fail("C01/tls-wire-corrupt", "the OpenSSL peer could not decode the engine's records: " + peer.tlsErr);
    return;
  }
  if (sh->foreign.load()) c.label("foreign connection on an ephemeral port ignored");
  if (otherData && sh->foreign.load() == 0)
  {
    c.fail("C01/data-on-foreign-session", "onData delivered " + std::to_string(otherData) + " bytes on a session id that is not the only session of this transport");
    return;
  }
  std::vector<std::size_t> consumed;
  bool tailCut = false;
  std::string why;
  if (!parseStream(peer.R, p, acc, consumed, tailCut, why))
  {
    c.fail("C01/stream-mismatch", why + (closed ? std::string(" (session closed: ") + codeName(closeCode) + ")" : " (session open)"));
    return;
  }
  // reverse direction
  std::size_t written = peer.nWritten.load();
  // a blocked TLS write may already have put complete records on the wire: bound by what was offered
  const std::size_t offered = std::max(written, peer.nOffered.load());
  if (D.size() > offered || (!D.empty() && std::memcmp(D.data(), peer.W.data(), D.size()) != 0))
  {
    std::size_t k = 0;
    while (k < D.size() && k < offered && D[k] == peer.W[k]) ++k;
    pbt::Fmt f;
    f << "onData stream differs from what the raw peer wrote at offset " << k << " (delivered " << D.size() << ", written " << written << ")";
    c.fail("C01/rx-mismatch", f.str());
    return;
  }
  if (outcome == Outcome::TooSlow)
  {
    c.inconclusive("kernel-level slowness: the case was still moving after the case time cap");
    return;
  }
  if (outcome == Outcome::Stall)
  {
    c.failTimed("C01/stall", stallWhat);
    return;
  }
  if (outcome == Outcome::NoCloseAfterEnd)
  {
    c.failTimed("C01/ended-without-onclose", stallWhat);
    return;
  }
  bool complete = !tailCut;
  for (std::size_t th = 0; th < acc.perThread.size(); ++th)
    if (consumed[th] != acc.perThread[th].size()) complete = false;
  if (!closed)
  {
    // the wait loop only ends with an open session when everything has arrived
    if (!complete)
    {
      c.fail("C01/incomplete-while-open", "session open, peer finished reading, but not every accepted payload arrived completely");
      return;
    }
  }
  // reverse direction (prefix relation checked above)
  if (!closed && D.size() != written)
  {
    c.fail("C01/rx-incomplete-while-open", "session open but onData delivered fewer bytes than the peer wrote");
    return;
  }
  if (closed && p.end == EndPeerFin && peer.finSent.load() && closeCode == static_cast<int>(net::TransportError::PeerClosed) &&
      D.size() != written)
  {
    pbt::Fmt f;
    f << "peer wrote " << written << " bytes and then half-closed gracefully; the session was closed as PeerClosed after delivering only "
      << D.size() << " bytes";
    c.fail("C01/rx-lost-before-fin", f.str());
    return;
  }
  (void)accepts;
  (void)connects;
  c.label(complete ? "outcome: complete delivery" : "outcome: prefix + close");
  std::uint64_t faults = cnt.wrShortReal + cnt.wrAgainReal + cnt.wrCutInj + cnt.wrAgainInj;
  if (faults >= 1 && p.payloads() >= 2) c.nontrivial(pbt::hash64(describe(p)));
}



// ------------------------------------------------------------- sequence of connections
// 2-4 consecutive raw-peer connections to ONE listening transport, so that the engine's fd numbers
// are reused from one session to the next. Connection k ends by peer FIN / peer RST / app close;
// on connection k+1 the PEER speaks first while the application issues no command at all in
// between (or, in the variant, the application sends first). Per connection the oracle is the one
// of runPlan: reverse stream equals what the peer wrote, forward payloads arrive exactly, an end
// on the wire is followed by onClose, and bytes that are never delivered while nothing is in
// flight are a stall (bounded wait, observed slices, engine-attributable by queue lengths).
struct SeqConn
{
  std::vector<std::uint32_t> peerChunks; // written by the peer, in this order
  bool appFirst = false;                 // the application sends its first payload before the peer writes
  std::vector<std::uint32_t> appPayloads;
  int end = EndPeerFin;
  std::uint32_t gapUs = 0; // pause before the next connection
};
struct SeqPlan
{
  bool et = true, batching = true, hires = true;
  std::size_t readChunk = 65536;
  std::uint32_t salt = 0;
  std::vector<SeqConn> conns;
  std::vector<c01net::Step> rdFaults;
};

std::string describe(const SeqPlan &p)
{
  pbt::Fmt f;
  f << "seq: TCP iora=listener " << (p.et ? "ET" : "LT") << (p.batching ? " batching" : "") << (p.hires ? "" : " noHiresTimers") << " readChunk=" << p.readChunk
    << " salt=" << p.salt << " conns=[";
  for (std::size_t k = 0; k < p.conns.size(); ++k)
  {
    const SeqConn &cn = p.conns[k];
    f << (k ? " ; " : "") << (cn.appFirst ? "app-first " : "peer-first ") << "peer{";
    for (std::size_t i = 0; i < cn.peerChunks.size(); ++i) f << (i ? "," : "") << cn.peerChunks[i];
    f << "} app{";
    for (std::size_t i = 0; i < cn.appPayloads.size(); ++i) f << (i ? "," : "") << cn.appPayloads[i];
    f << "} end=" << (cn.end == EndPeerFin ? "peerFIN" : cn.end == EndPeerRst ? "peerRST" : "appClose") << " gap=" << cn.gapUs << "us";
  }
  f << "] rdFaults=[";
  for (std::size_t i = 0; i < p.rdFaults.size(); ++i) f << (i ? "," : "") << stepStr(p.rdFaults[i]);
  f << "]";
  return f.str();
}

SeqPlan drawSeq(pbt::Src &src)
{
  SeqPlan p;
  p.et = !src.coin(1, 3);
  p.batching = src.coin(1, 2);
  p.hires = !src.coin(1, 6);
  p.readChunk = src.oneOf<std::size_t>({7, 512, 65536, 65536});
  p.salt = static_cast<std::uint32_t>(src.range(0, 0x7fffffff));
  std::size_t n = static_cast<std::size_t>(src.range(2, 4));
  for (std::size_t k = 0; k < n; ++k)
  {
    SeqConn cn;
    cn.appFirst = src.coin(1, 4);
    cn.end = static_cast<int>(src.oneOf<int>({EndPeerFin, EndPeerFin, EndPeerRst, EndPeerRst, EndAppClose}));
    cn.gapUs = src.oneOf<std::uint32_t>({0, 0, 300, 2500});
    std::size_t cap = p.readChunk == 7 ? 4000 : 40000, tot = 0;
    for (auto &r : src.rows(5, 1, 0, 1 << 20))
    {
      static const std::uint32_t mod[] = {1, 16, 1500, 20000};
      std::uint32_t sz = 1 + static_cast<std::uint32_t>(r[0] >> 2) % mod[r[0] & 3];
      if (tot + sz > cap) sz = 1 + sz % 7;
      tot += sz;
      cn.peerChunks.push_back(sz);
    }
    if (cn.peerChunks.empty()) cn.peerChunks.push_back(1 + p.salt % 300);
    for (auto &r : src.rows(3, 1, 0, 1 << 20)) cn.appPayloads.push_back(1 + static_cast<std::uint32_t>(r[0]) % 5000);
    if (cn.appFirst && cn.appPayloads.empty()) cn.appPayloads.push_back(17);
    p.conns.push_back(std::move(cn));
  }
  for (auto &r : src.rows(8, 2, 0, 1 << 20)) p.rdFaults.push_back(drawStep(r, false));
  return p;
}

void runSeq(const SeqPlan &p, pbt::Case &c)
{
  oncePerProcess();
  c.describe(describe(p));
  pbt::watchdog(150, "C01/case-hung");
  c01net::reset();
  c01net::harnessThread(true);
  c01net::arm(true);
  c01net::setStreamReadScript(p.rdFaults);

  struct St
  {
    std::mutex mu;
    std::condition_variable cv;
    std::atomic<int> expectPort{-1};
    std::map<net::SessionId, std::vector<std::uint8_t>> D;
    std::map<net::SessionId, int> closed; // sid -> close code
    std::vector<std::pair<net::SessionId, std::uint16_t>> accepts; // (sid, remote port)
    unsigned foreign = 0;
    std::uint64_t ticks = 0;
  };
  auto st = std::make_shared<St>();
  net::TransportConfig cfg;
  cfg.useEdgeTriggered = p.et;
  cfg.batching.enabled = p.batching;
  cfg.ioReadChunk = p.readChunk;
  cfg.enableHighResolutionTimers = p.hires;
  auto t = net::Transport::tcp(cfg);
  t->onAccept([st](net::SessionId sid, const net::TransportAddress &a) {
    std::lock_guard<std::mutex> lk(st->mu);
    st->accepts.emplace_back(sid, a.port);
    ++st->ticks;
    st->cv.notify_all();
  });
  t->onData([st](net::SessionId sid, iora::core::BufferView d, std::chrono::steady_clock::time_point) {
    std::lock_guard<std::mutex> lk(st->mu);
    auto &v = st->D[sid];
    v.insert(v.end(), d.data(), d.data() + d.size());
    ++st->ticks;
    st->cv.notify_all();
  });
  t->onClose([st](net::SessionId sid, const net::TransportErrorInfo &why) {
    std::lock_guard<std::mutex> lk(st->mu);
    st->closed.emplace(sid, static_cast<int>(why.code));
    ++st->ticks;
    st->cv.notify_all();
  });
  t->onError([](net::TransportError, const std::string &) {});
  if (t->start().isErr())
  {
    c.inconclusive("transport start failed");
    return;
  }
  int fd = -1;
  auto teardown = [&] {
    if (fd >= 0) rawpeer::reset(fd);
    fd = -1;
    t->stop();
    t.reset();
    c01net::arm(false);
  };
  auto lr = t->addListener("127.0.0.1", 0, net::TlsMode::None);
  std::uint16_t port = lr.isOk() ? t->getListenerAddress(lr.value()).port : 0;
  if (!port)
  {
    c.inconclusive("addListener failed");
    teardown();
    return;
  }
  auto sockOutq = [](int f) -> long {
    int v = 0;
    if (f < 0 || ::ioctl(f, SIOCOUTQ, &v) != 0) return -1;
    return v;
  };
  auto sockInq = [](int f) -> long {
    int v = 0;
    if (f < 0 || ::ioctl(f, FIONREAD, &v) != 0) return -1;
    return v;
  };
  // wait until done(); the stall clock runs only in observed slices while owes() names a step the
  // engine owes. 0 = done, 1 = stall (what filled), 2 = too slow (inconclusive)
  auto waitEngine = [&](const std::function<bool()> &done, const std::function<std::string()> &owes, std::string &what) -> int {
    auto t0 = Clock::now(), lastIter = t0;
    std::int64_t quiet = 0;
    std::uint64_t lastTicks = ~0ULL, lastAct = ~0ULL;
    std::unique_lock<std::mutex> lk(st->mu);
    for (;;)
    {
      if (done()) return 0;
      auto now = Clock::now();
      std::int64_t dt = std::chrono::duration_cast<std::chrono::milliseconds>(now - lastIter).count();
      lastIter = now;
      std::uint64_t act = c01net::activity();
      std::string o = owes();
      if (st->ticks != lastTicks || act != lastAct || o.empty())
      {
        lastTicks = st->ticks;
        lastAct = act;
        quiet = 0;
        if (msSince(t0) > kCaseCapMs) return 2;
      }
      else
      {
        quiet += std::min<std::int64_t>(dt, kSliceMs);
        if (quiet > kStallMs)
        {
          what = o;
          return 1;
        }
      }
      st->cv.wait_for(lk, std::chrono::milliseconds(o.empty() ? 5 : 20));
    }
  };

  std::vector<std::uint8_t> W, pay, got;
  int lastEfd = -1;
  bool fdReused = false, peerFirstAfterPeerEnd = false;
  int prevEnd = -1;
  for (std::size_t k = 0; k < p.conns.size() && !c.failed(); ++k)
  {
    const SeqConn &cn = p.conns[k];
    pbt::Fmt where;
    where << "connection " << k + 1 << " of " << p.conns.size() << ": ";
    // Only accepts announced AFTER this connection was started can be this connection: after an
    // RST there is no TIME_WAIT, so the kernel may hand the raw peer the very same source port
    // again and an earlier session of this case would match by port.
    std::size_t firstAccept;
    {
      std::lock_guard<std::mutex> lk(st->mu);
      firstAccept = st->accepts.size();
    }
    fd = rawpeer::tcpConnectFrom(port, 0, 0, [&](std::uint16_t lp) { st->expectPort.store(lp); });
    if (fd < 0)
    {
      c.inconclusive("raw peer could not connect");
      break;
    }
    const int myPort = st->expectPort.load();
    net::SessionId sid = 0;
    {
      std::unique_lock<std::mutex> lk(st->mu);
      bool ok = st->cv.wait_for(lk, std::chrono::milliseconds(kSetupMs), [&] {
        for (std::size_t i = firstAccept; i < st->accepts.size(); ++i)
          if (st->accepts[i].second == myPort) return true;
        return false;
      });
      if (!ok)
      {
        lk.unlock();
        c.inconclusive("connection was not announced within the setup bound");
        break;
      }
      for (std::size_t i = firstAccept; i < st->accepts.size(); ++i)
        if (st->accepts[i].second == myPort)
        {
          sid = st->accepts[i].first;
          break;
        }
    }
    const int efd = c01net::lastEngineStreamFd();
    if (lastEfd >= 0 && efd == lastEfd) fdReused = true;
    lastEfd = efd;
    if (!cn.appFirst && k > 0 && (prevEnd == EndPeerFin || prevEnd == EndPeerRst)) peerFirstAfterPeerEnd = true;

    // ---- forward payload helper
    std::size_t appIdx = 0;
    auto doApp = [&](std::size_t idx) -> bool {
      makePayload(pay, p.salt, static_cast<unsigned>(k & 3), static_cast<unsigned>(idx), cn.appPayloads[idx]);
      if (!t->send(sid, iora::core::BufferView{pay.data(), pay.size()})) return true; // not accepted: nothing owed
      got.assign(pay.size(), 0);
      std::size_t have = 0;
      std::int64_t quiet = 0;
      while (have < pay.size())
      {
        int r = rawpeer::readSome(fd, got.data() + have, pay.size() - have, kSliceMs);
        if (r > 0)
        {
          have += static_cast<std::size_t>(r);
          quiet = 0;
          continue;
        }
        if (r != rawpeer::RP_TIMEOUT) break; // EOF / reset: the session ended, prefix rule
        bool closedNow;
        {
          std::lock_guard<std::mutex> lk(st->mu);
          closedNow = st->closed.count(sid) != 0;
        }
        if (closedNow) break;
        if (sockOutq(efd) == 0 && sockInq(fd) == 0) quiet += kSliceMs;
        else quiet = 0;
        if (quiet > kStallMs)
        {
          pbt::Fmt f;
          f << where.str() << "payload " << idx << " of " << pay.size() << " bytes: the peer received " << have << " bytes and nothing more for " << kStallMs
            << " ms although nothing is in flight; session open";
          c.failTimed("C01/stall", f.str());
          return false;
        }
      }
      if (have && std::memcmp(got.data(), pay.data(), have) != 0)
      {
        c.fail("C01/stream-mismatch", where.str() + "the peer received bytes that differ from payload " + std::to_string(idx));
        return false;
      }
      return true;
    };
    if (cn.appFirst && !cn.appPayloads.empty())
    {
      if (!doApp(appIdx++)) break;
    }
    // ---- the peer writes its chunks (small enough to fit the socket buffers without a reader)
    std::size_t total = 0;
    for (auto x : cn.peerChunks) total += x;
    W.resize(total);
    fillBytes(W.data(), W.size(), (std::uint64_t(p.salt) << 20) ^ (0x5E0ULL + k));
    std::size_t off = 0;
    bool wrOk = true;
    for (auto x : cn.peerChunks)
    {
      std::size_t done = 0;
      while (done < x)
      {
        int w = rawpeer::writeSome(fd, W.data() + off + done, x - done, 2000);
        if (w <= 0)
        {
          wrOk = false;
          break;
        }
        done += static_cast<std::size_t>(w);
      }
      off += done;
      if (!wrOk) break;
    }
    const std::size_t written = off;
    // ---- everything the peer wrote must be delivered on THIS session
    {
      std::string what;
      int rc = waitEngine([&] { return st->D[sid].size() >= written || st->closed.count(sid); },
                          [&]() -> std::string {
                            long eiq = sockInq(efd), poq = sockOutq(fd);
                            if (eiq > 0) return std::to_string(eiq) + " unread bytes wait in the engine's socket";
                            if (eiq == 0 && poq == 0) return "the engine has read everything the peer wrote but has not delivered it";
                            return "";
                          },
                          what);
      std::vector<std::uint8_t> D;
      bool closedNow;
      {
        std::lock_guard<std::mutex> lk(st->mu);
        D = st->D[sid];
        closedNow = st->closed.count(sid) != 0;
      }
      if (D.size() > written || (!D.empty() && std::memcmp(D.data(), W.data(), D.size()) != 0))
      {
        c.fail("C01/rx-mismatch", where.str() + "onData delivered " + std::to_string(D.size()) + " bytes that are not a prefix of the " + std::to_string(written) + " bytes the peer wrote");
        break;
      }
      if (rc == 2)
      {
        c.inconclusive("kernel-level slowness: the case was still moving after the case time cap");
        break;
      }
      if (rc == 1)
      {
        pbt::Fmt f;
        f << where.str() << (cn.appFirst ? "" : "the peer spoke first, no command was issued on this connection; ") << "no engine activity for " << kStallMs << " ms although " << what
          << ": onData delivered " << D.size() << " of " << written << " bytes written by the peer, session open (no onClose)"
          << (k > 0 ? std::string(", previous connection ended by ") + (prevEnd == EndPeerFin ? "peer FIN" : prevEnd == EndPeerRst ? "peer RST" : "app close") : std::string())
          << ", engine fd " << efd << (fdReused ? " (number reused)" : "");
        c.failTimed("C01/stall", f.str());
        break;
      }
      if (closedNow && D.size() < written) c.label("seq: session closed before everything was delivered");
    }
    // ---- remaining forward payloads
    bool ok = true;
    while (ok && appIdx < cn.appPayloads.size()) ok = doApp(appIdx++);
    if (!ok) break;
    // ---- end of this connection
    if (cn.end == EndPeerFin) rawpeer::fin(fd);
    else if (cn.end == EndPeerRst)
    {
      rawpeer::reset(fd);
      fd = -1;
    }
    else
      t->close(sid);
    {
      std::string what;
      int rc = waitEngine([&] { return st->closed.count(sid) != 0; },
                          [&]() -> std::string { return cn.end == EndAppClose ? "" : "the connection ended on the wire, onClose is owed"; }, what);
      if (rc == 1)
      {
        c.failTimed("C01/ended-without-onclose", where.str() + "the peer ended the connection (" + (cn.end == EndPeerFin ? "FIN" : "RST") + ") and no onClose followed for " +
                                                  std::to_string(kStallMs) + " ms");
        break;
      }
      if (rc == 2)
      {
        c.inconclusive("onClose did not arrive in time after close()");
        break;
      }
    }
    if (fd >= 0)
    {
      // the engine has closed: the peer sees the end (bounded, no verdict), then gives the fd back
      char b[256];
      auto t0 = Clock::now();
      while (msSince(t0) < kDrainAfterCloseMs)
      {
        int r = rawpeer::readSome(fd, b, sizeof b, 50);
        if (r == 0 || r == rawpeer::RP_ERROR) break;
      }
      rawpeer::reset(fd);
      fd = -1;
    }
    prevEnd = cn.end;
    if (cn.gapUs) std::this_thread::sleep_for(std::chrono::microseconds(cn.gapUs));
  }
  // data on a session nobody opened
  bool strayData = false;
  {
    std::lock_guard<std::mutex> lk(st->mu);
    for (auto &kv : st->D)
    {
      bool known = false;
      for (auto &a : st->accepts)
        if (a.first == kv.first) known = true;
      if (!known && !kv.second.empty()) strayData = true;
    }
  }
  c01net::Counters cnt = c01net::counters();
  teardown();
  if (strayData && !c.failed()) c.fail("C01/data-on-foreign-session", "onData on a session id that was never announced");
  c.label("seq: connections " + std::to_string(p.conns.size()));
  c.label(p.et ? "edge-triggered" : "level-triggered");
  if (p.batching) c.label("batching on");
  if (fdReused) c.label("seq: engine fd number reused by the next session");
  if (peerFirstAfterPeerEnd) c.label("seq: peer spoke first after a peer-initiated close, no command in between");
  if (cnt.rdCutInj) c.label("injected short read");
}

// ------------------------------------------------------------------ exhaustive cut tier
// One plain-TCP connection; for two payloads of l1 and l2 bytes (<= 64) EVERY behaviour of the
// first and of the second engine write is enumerated: pass, EAGAIN, cut after k bytes for every
// k. The second write is whatever the engine issues second (the retry of the first payload's
// remainder, or the second payload). Then the same for the first and second engine read of an
// (l1+l2)-byte message written by the peer. Each sub-case is judged by exact equality.
struct CutsPlan
{
  int role = Connector;
  bool et = true, batching = false;
  unsigned l1 = 1, l2 = 1;
  std::uint32_t gapUs = 0;
  std::uint32_t salt = 0;
  std::size_t readChunk = 65536;
};

std::string describe(const CutsPlan &p, std::size_t nsub)
{
  pbt::Fmt f;
  f << "cuts: TCP " << (p.role == Connector ? "iora=connector" : "iora=listener") << (p.et ? " ET" : " LT") << (p.batching ? " batching" : "")
    << " l1=" << p.l1 << " l2=" << p.l2 << " gap=" << p.gapUs << "us readChunk=" << p.readChunk << " salt=" << p.salt << " sub-cases=" << nsub;
  return f.str();
}

void runCuts(const CutsPlan &p, pbt::Case &c)
{
  oncePerProcess();
  pbt::watchdog(240, "C01/case-hung");
  std::vector<c01net::Step> A1{{c01net::PASS, 0}, {c01net::AGAIN, 0}}, A2 = A1, B{{c01net::PASS, 0}};
  for (unsigned k = 1; k < p.l1; ++k) A1.push_back({c01net::CUT_ABS, k});
  for (unsigned k = 1; k < std::max(p.l1, p.l2); ++k) A2.push_back({c01net::CUT_ABS, k});
  for (unsigned k = 1; k < p.l1 + p.l2; ++k) B.push_back({c01net::CUT_ABS, k});
  const std::size_t nsub = A1.size() * A2.size() + B.size() * B.size();
  c.describe(describe(p, nsub));

  c01net::reset();
  c01net::harnessThread(true);
  c01net::arm(true);
  auto sh = std::make_shared<Shared>();
  net::TransportConfig cfg;
  cfg.useEdgeTriggered = p.et;
  cfg.batching.enabled = p.batching;
  cfg.ioReadChunk = p.readChunk;
  auto t = net::Transport::tcp(cfg);
  t->onAccept([sh](net::SessionId sid, const net::TransportAddress &a) {
    int exp = sh->expectPeerPort.load();
    if (exp >= 0 && a.port != exp)
    {
      sh->foreign.fetch_add(1);
      return;
    }
    std::lock_guard<std::mutex> lk(sh->mu);
    if (!sh->haveSid)
    {
      sh->haveSid = true;
      sh->sid = sid;
    }
    sh->cv.notify_all();
  });
  t->onConnect([sh](net::SessionId, const net::TransportAddress &) {
    std::lock_guard<std::mutex> lk(sh->mu);
    sh->announced = true;
    sh->cv.notify_all();
  });
  t->onData([sh](net::SessionId sid, iora::core::BufferView d, std::chrono::steady_clock::time_point) {
    std::lock_guard<std::mutex> lk(sh->mu);
    if (sh->haveSid && sh->sid == sid) sh->D.insert(sh->D.end(), d.data(), d.data() + d.size());
    else sh->otherData += d.size();
    sh->cv.notify_all();
  });
  t->onClose([sh](net::SessionId sid, const net::TransportErrorInfo &why) {
    std::lock_guard<std::mutex> lk(sh->mu);
    if (sh->haveSid && sh->sid == sid)
    {
      sh->closed = true;
      sh->closeCode = static_cast<int>(why.code);
    }
    sh->cv.notify_all();
  });
  if (t->start().isErr())
  {
    c.inconclusive("transport start failed");
    return;
  }
  int lfd = -1, fd = -1;
  auto teardown = [&] {
    if (fd >= 0) rawpeer::reset(fd);
    if (lfd >= 0) ::close(lfd);
    t->stop();
    t.reset();
    c01net::arm(false);
  };
  net::SessionId sid = 0;
  if (p.role == Connector)
  {
    std::uint16_t port = 0;
    lfd = rawpeer::tcpListen(port);
    auto cr = lfd >= 0 ? t->connect("127.0.0.1", port, net::TlsMode::None) : net::ConnectResult::err({});
    if (cr.isErr())
    {
      c.inconclusive("connection setup failed");
      teardown();
      return;
    }
    sid = cr.value();
    {
      std::lock_guard<std::mutex> lk(sh->mu);
      sh->haveSid = true;
      sh->sid = sid;
    }
    fd = acceptOwn(lfd, *t, sid, *sh, kSetupMs);
  }
  else
  {
    auto lr = t->addListener("127.0.0.1", 0, net::TlsMode::None);
    std::uint16_t port = lr.isOk() ? t->getListenerAddress(lr.value()).port : 0;
    fd = port ? rawpeer::tcpConnectFrom(port, 0, 0, [&](std::uint16_t lp) { sh->expectPeerPort.store(lp); }) : -1;
  }
  bool ready = false;
  if (fd >= 0)
  {
    std::unique_lock<std::mutex> lk(sh->mu);
    ready = sh->cv.wait_for(lk, std::chrono::milliseconds(kSetupMs), [&] { return sh->haveSid && (p.role == Listener || sh->announced); });
    sid = sh->sid;
  }
  if (!ready)
  {
    c.inconclusive("connection setup failed");
    teardown();
    return;
  }

  std::vector<std::uint8_t> p1, p2, got, exp;
  std::size_t sub = 0;
  auto stepName = [](const c01net::Step &s) { return stepStr(s); };
  bool bad = false;
  // ---- writes
  for (std::size_t a = 0; a < A1.size() && !bad; ++a)
    for (std::size_t b = 0; b < A2.size() && !bad; ++b, ++sub)
    {
      makePayload(p1, p.salt, 0, static_cast<unsigned>(2 * sub), p.l1);
      makePayload(p2, p.salt, 1, static_cast<unsigned>(2 * sub + 1), p.l2);
      c01net::setStreamWriteScript({A1[a], A2[b]});
      bool ok1 = t->send(sid, iora::core::BufferView{p1.data(), p1.size()});
      if (p.gapUs) std::this_thread::sleep_for(std::chrono::microseconds(p.gapUs));
      bool ok2 = t->send(sid, iora::core::BufferView{p2.data(), p2.size()});
      exp.clear();
      if (ok1) exp.insert(exp.end(), p1.begin(), p1.end());
      if (ok2) exp.insert(exp.end(), p2.begin(), p2.end());
      got.assign(exp.size(), 0);
      std::size_t have = 0;
      int r = 1;
      int quietSlices = 0; // only slices in which poll() really waited and saw nothing count (see runPlan)
      while (have < exp.size())
      {
        r = rawpeer::readSome(fd, got.data() + have, exp.size() - have, kSliceMs);
        if (r > 0)
        {
          have += static_cast<std::size_t>(r);
          quietSlices = 0;
        }
        else if (r == rawpeer::RP_TIMEOUT)
        {
          ++quietSlices;
          if (have && quietSlices * kSliceMs > kQuietMs && std::memcmp(got.data(), exp.data(), have) != 0) break; // wrong byte: no need to wait
          if (quietSlices * kSliceMs > kStallMs) break;
        }
        else
          break;
      }
      pbt::Fmt f;
      f << "sub-case " << sub << ": payloads of " << p.l1 << " and " << p.l2 << " bytes, first engine write -> " << stepName(A1[a])
        << ", second engine write -> " << stepName(A2[b]) << " (p=pass, A=EAGAIN, cN=cut after N bytes): ";
      bool closed;
      {
        std::lock_guard<std::mutex> lk(sh->mu);
        closed = sh->closed;
      }
      if (have && std::memcmp(got.data(), exp.data(), have) != 0)
      {
        std::size_t k = 0;
        while (k < have && got[k] == exp[k]) ++k;
        f << "peer received a different byte at offset " << k << " of " << exp.size() << " (expected "
          << pbt::hex(std::string_view(reinterpret_cast<const char *>(exp.data() + k), std::min<std::size_t>(8, exp.size() - k))) << ", got "
          << pbt::hex(std::string_view(reinterpret_cast<const char *>(got.data() + k), std::min<std::size_t>(8, have - k))) << ")";
        c.fail("C01/cuts/stream-mismatch", f.str());
        bad = true;
      }
      else if (have < exp.size())
      {
        if (closed || r == 0 || r == rawpeer::RP_ERROR)
        {
          c.label("cuts: session closed during the enumeration");
          bad = true; // prefix + close is admissible; nothing more can be enumerated on this connection
        }
        else
        {
          f << "peer received only " << have << " of " << exp.size() << " bytes and nothing more for " << kStallMs << " ms; session open";
          c.failTimed("C01/cuts/stall", f.str());
          bad = true;
        }
      }
    }
  // ---- reads
  const std::size_t m = p.l1 + p.l2;
  for (std::size_t a = 0; a < B.size() && !bad; ++a)
    for (std::size_t b = 0; b < B.size() && !bad; ++b, ++sub)
    {
      std::vector<std::uint8_t> msg(m);
      fillBytes(msg.data(), m, (std::uint64_t(p.salt) << 24) ^ sub);
      std::size_t before;
      {
        std::lock_guard<std::mutex> lk(sh->mu);
        before = sh->D.size();
      }
      c01net::setStreamReadScript({B[a], B[b]});
      std::size_t off = 0;
      while (off < m)
      {
        int w = rawpeer::writeSome(fd, msg.data() + off, m - off, kSetupMs);
        if (w <= 0) break;
        off += static_cast<std::size_t>(w);
      }
      pbt::Fmt f;
      f << "sub-case " << sub << ": peer wrote " << m << " bytes, first engine read -> " << stepName(B[a]) << ", second engine read -> "
        << stepName(B[b]) << ": ";
      if (off < m)
      {
        c.label("cuts: peer could not write");
        bad = true;
        break;
      }
      std::unique_lock<std::mutex> lk(sh->mu);
      bool okw = false;
      for (int slices = 0; slices * kSliceMs <= kStallMs; ++slices)
      {
        std::size_t was = sh->D.size();
        okw = sh->cv.wait_for(lk, std::chrono::milliseconds(kSliceMs), [&] { return sh->D.size() >= before + m || sh->closed; });
        if (okw) break;
        if (sh->D.size() != was) slices = 0; // progress
      }
      std::size_t have = sh->D.size() - before;
      if (have > m || (have && std::memcmp(sh->D.data() + before, msg.data(), std::min(have, m)) != 0))
      {
        f << "onData delivered " << have << " bytes that differ from what the peer wrote";
        lk.unlock();
        c.fail("C01/cuts/rx-mismatch", f.str());
        bad = true;
      }
      else if (have < m)
      {
        if (sh->closed)
        {
          lk.unlock();
          c.label("cuts: session closed during the enumeration");
        }
        else
        {
          (void)okw;
          f << "onData delivered only " << have << " of " << m << " bytes within " << kStallMs << " ms; session open";
          lk.unlock();
          c.failTimed("C01/cuts/rx-stall", f.str());
        }
        bad = true;
      }
      if (!bad && sh->D.size() > (1u << 20))
      {
        // keep the buffer small (lk is still held here)
        sh->D.clear();
      }
    }
  std::size_t other;
  {
    std::lock_guard<std::mutex> lk(sh->mu);
    other = sh->otherData;
  }
  teardown();
  if (other && sh->foreign.load() == 0 && !c.failed()) c.fail("C01/data-on-foreign-session", "onData on an unknown session id");
  c.label(p.role == Connector ? "role: iora connects" : "role: iora listens");
  c.label(p.et ? "edge-triggered" : "level-triggered");
  if (p.batching) c.label("batching on");
  c.label(nsub <= 100 ? "cuts: <=100 sub-cases" : nsub <= 1000 ? "cuts: 101..1000 sub-cases" : "cuts: >1000 sub-cases");
  if (!bad && p.l1 + p.l2 >= 3) c.nontrivial(pbt::hash64(describe(p, nsub)));
  if (!bad) c.label("cuts: enumeration complete");
}

} // namespace

PBT_PROPERTY(stream)
{
  if (src.coin(1, 6))
  {
    SeqPlan sp = drawSeq(src);
    runSeq(sp, c);
    return;
  }
  Plan p = drawPlan(src, false);
  runPlan(p, c);
}

PBT_PROPERTY(tls)
{
  Plan p = drawPlan(src, true);
  runPlan(p, c);
}

PBT_PROPERTY(cuts)
{
  CutsPlan p;
  p.role = static_cast<int>(src.range(0, 1));
  p.et = !src.coin(1, 3);
  p.batching = src.coin(1, 4);
  p.l1 = static_cast<unsigned>(src.sized(1, 64));
  p.l2 = static_cast<unsigned>(src.sized(1, 64));
  p.gapUs = src.oneOf<std::uint32_t>({0, 0, 300});
  p.readChunk = src.oneOf<std::size_t>({1, 7, 65536, 65536});
  p.salt = static_cast<std::uint32_t>(src.range(0, 0x7fffffff));
  runCuts(p, c);
}

// ------------------------------------------------------------------ fixed regression plans
PBT_REGRESSION(interposer_selftest)
{
  std::string why;
  if (!c01net::selfTest(why)) c.fail("harness/interposer-not-effective", why);
}

namespace
{
Plan basePlan()
{
  Plan p;
  p.salt = 20260925;
  p.peerReads = {IoStep{7, 0}, IoStep{4096, 50}, IoStep{1, 0}, IoStep{65536, 0}};
  return p;
}
} // namespace

// every write of a 5-byte and a 3-byte payload is cut or refused, then a payload larger than the
// socket buffers follows (real partial writes): the requeue offset and the re-arm path
PBT_REGRESSION(partial_write_requeue_small_then_large)
{
  Plan p = basePlan();
  p.sndBuf = 4096;
  p.peerRcvBuf = 2048;
  p.threads = {{SendOp{5, 0, 0}, SendOp{3, 0, 3}, SendOp{200000, 0, 1}, SendOp{1, 0, 0}, SendOp{64, 0, 2}}};
  p.wrFaults = {{c01net::CUT_ABS, 2}, {c01net::AGAIN, 0}, {c01net::CUT_ABS, 1}, {c01net::CUT_END, 1}, {c01net::AGAIN, 0}, {c01net::CUT_ABS, 1}, {c01net::CUT_ABS, 4095}};
  runPlan(p, c);
}

PBT_REGRESSION(level_triggered_batching_listener_both_directions)
{
  Plan p = basePlan();
  p.role = Listener;
  p.dir = Both;
  p.et = false;
  p.batching = true;
  p.readChunk = 7;
  p.threads = {{SendOp{70000, 0, 0}, SendOp{1, 0, 0}, SendOp{4097, 100, 0}}, {SendOp{33, 0, 0}, SendOp{66000, 0, 0}}};
  p.peerWrites = {IoStep{1, 0}, IoStep{6, 30}, IoStep{8, 0}, IoStep{3000, 0}, IoStep{15, 150}};
  p.wrFaults = {{c01net::AGAIN, 0}, {c01net::CUT_ABS, 1}, {c01net::PASS, 0}, {c01net::CUT_END, 7}};
  p.rdFaults = {{c01net::CUT_ABS, 1}, {c01net::CUT_ABS, 3}, {c01net::CUT_END, 1}, {c01net::CUT_ABS, 6}};
  p.earlySends = 1;
  runPlan(p, c);
}

PBT_REGRESSION(tls_sends_during_handshake_and_forced_want_write)
{
  Plan p = basePlan();
  p.tls = true;
  p.role = Listener;
  p.threads = {{SendOp{10, 0, 0}, SendOp{20000, 0, 0}, SendOp{1, 0, 0}, SendOp{100000, 0, 0}}};
  p.earlySends = 3;
  p.wrFaults = {{c01net::AGAIN, 0}, {c01net::CUT_ABS, 3}, {c01net::AGAIN, 0}, {c01net::PASS, 0}, {c01net::AGAIN, 0}, {c01net::CUT_ABS, 1}, {c01net::AGAIN, 0}, {c01net::CUT_END, 5}};
  p.rdFaults = {{c01net::CUT_ABS, 1}, {c01net::CUT_ABS, 2}, {c01net::CUT_ABS, 1}};
  runPlan(p, c);
}

PBT_REGRESSION(tls12_connector_sends_before_onconnect_peer_fin)
{
  Plan p = basePlan();
  p.tls = true;
  p.tlsMax = TLS1_2_VERSION;
  p.role = Connector;
  p.dir = Both;
  p.threads = {{SendOp{100, 0, 0}, SendOp{30000, 0, 0}, SendOp{5, 0, 0}}};
  p.peerWrites = {IoStep{40000, 0}, IoStep{1, 0}, IoStep{17000, 0}};
  p.earlySends = 2;
  p.end = EndPeerFin;
  p.endFrac = 8;
  p.wrFaults = {{c01net::CUT_ABS, 1}, {c01net::AGAIN, 0}, {c01net::CUT_ABS, 100}};
  runPlan(p, c);
}

// reverse stream read through Sync mode + receiveSync() with 1 ms timeouts while the peer pauses between
// chunks: many timed-out calls lie between arrivals (seeded change C01-D dropped the bytes that arrive
// between a timed-out call and the next one)
PBT_REGRESSION(sync_mode_polling_reader_sees_every_byte)
{
  Plan p = basePlan();
  p.dir = P2I;
  p.role = Listener;
  p.syncRead = true;
  p.syncBuf = 512;
  p.syncTimeoutMs = 1;
  p.peerWrites = {IoStep{100, 2000}, IoStep{1, 2000}, IoStep{3000, 600}, IoStep{7, 2000}, IoStep{20000, 2000}, IoStep{5, 2000}, IoStep{64, 0}};
  p.rdFaults = {{c01net::CUT_ABS, 1}, {c01net::CUT_ABS, 50}, {c01net::PASS, 0}, {c01net::CUT_END, 1}};
  runPlan(p, c);
}

// consecutive connections on one batching transport: the fd number of a session closed by the peer is
// reused by the next session, on which the peer speaks first and the application issues no command
// (seeded change C01-H kept the closed number marked stale until the next command batch)
PBT_REGRESSION(seq_fd_reuse_after_peer_close_peer_speaks_first)
{
  SeqPlan p;
  p.batching = true;
  p.salt = 11;
  SeqConn a, b, d;
  a.peerChunks = {100};
  a.end = EndPeerFin;
  b.peerChunks = {1, 2000, 7};
  b.end = EndPeerRst;
  b.gapUs = 2500;
  d.peerChunks = {300};
  d.appPayloads = {40, 4000};
  d.end = EndAppClose;
  p.conns = {a, b, d, a};
  runSeq(p, c);
}

PBT_REGRESSION(four_senders_small_queue_backpressure_close)
{
  Plan p = basePlan();
  p.maxWq = 2;
  p.sndBuf = 4096;
  p.peerRcvBuf = 2048;
  p.peerStartDelayUs = 10000;
  for (unsigned t = 0; t < 4; ++t)
  {
    std::vector<SendOp> v;
    for (unsigned i = 0; i < 12; ++i) v.push_back(SendOp{static_cast<std::uint32_t>(1 + (i * 7919 + t * 104729) % 30000), 0, static_cast<int>(i % 4)});
    p.threads.push_back(v);
  }
  runPlan(p, c);
}

PBT_MAIN()
