// C20 - static asset and template lookup never escapes its root directory.
//
//   lookup : one generated directory tree (static/, templates/, EXTERNAL_DIR; nested
//            directories, files, .gz siblings, symlinks file/dir -> inside/outside/
//            sibling-prefix/other region/dangling/loops/chains/dotted targets) plus a
//            configuration (fromDirectory cached | per-request | fromEmbedded+EXTERNAL_DIR;
//            root spelled canonically / through a symlink / with dots / through "..";
//            static or templates being symlinks themselves) and up to 240 names from a
//            traversal-aware grammar and mutator. Oracle per name: own POSIX resolver
//            (lstat/readlink walker, cross-checked with realpath(3)) + unique content
//            markers: Found => the name resolves to a regular file inside the canonical
//            root and the bytes (and gzip bytes) are that file's; never foreign content.
//   swap   : a swapper thread rename(2)s the leaf (and/or its .gz sibling) between a
//            regular file and a symlink to a secret while 1-3 threads look it up (and
//            reload()). One-sided data oracle: whatever is Found is a complete version of
//            the inside file.
//
// Refusing (NotFound / Rejected / nullopt) is never a violation: only-if, not if.
#include "pbt.hpp"

#include "c20_core.hpp"

#include <atomic>
#include <chrono>
#include <memory>
#include <mutex>
#include <thread>

using c20::Config;
using c20::LookupResult;
using c20::NameFacts;
using c20::Row;
using c20::Tree;
using iora::web::Assets;

// keep the footprint of the many parallel shards small (the driver's ASAN_OPTIONS are applied on top)
extern "C" const char *__asan_default_options() { return "quarantine_size_mb=16:malloc_context_size=8"; }

namespace
{

constexpr std::int64_t MAXC = (1LL << 30) - 1;

struct CaseSink : c20::Sink
{
  pbt::Case &c;
  explicit CaseSink(pbt::Case &cc) : c(cc) {}
  void label(const std::string &l) override { c.label(l); }
  bool fail(const std::string &sig, const std::string &what) override { return c.fail(sig, what); }
  void inconclusive(const std::string &why) override { c.inconclusive(why); }
};

struct TreeGuard
{
  Tree &t;
  ~TreeGuard() { t.destroy(); }
};

/// fromEmbedded registry whose storage lives as long as the struct
struct Embedded
{
  std::vector<std::pair<std::string, std::string>> staticsData, templatesData; // name -> bytes (sorted, unique)
  std::vector<std::string> externalData;
  std::vector<iora::web::EmbeddedAsset> statics;
  std::vector<iora::web::EmbeddedTemplate> templates;
  std::vector<std::string_view> external;
  std::string extDir;
  iora::web::EmbeddedAssetRegistry reg;

  void finish()
  {
    auto byName = [](const auto &a, const auto &b) { return std::string_view(a.first) < std::string_view(b.first); };
    auto sameName = [](const auto &a, const auto &b) { return a.first == b.first; };
    std::stable_sort(staticsData.begin(), staticsData.end(), byName);
    staticsData.erase(std::unique(staticsData.begin(), staticsData.end(), sameName), staticsData.end());
    std::stable_sort(templatesData.begin(), templatesData.end(), byName);
    templatesData.erase(std::unique(templatesData.begin(), templatesData.end(), sameName), templatesData.end());
    std::sort(externalData.begin(), externalData.end(),
              [](const std::string &a, const std::string &b) { return std::string_view(a) < std::string_view(b); });
    externalData.erase(std::unique(externalData.begin(), externalData.end()), externalData.end());
    for (auto &kv : staticsData)
    {
      iora::web::EmbeddedAsset a;
      a.path = kv.first;
      a.bytes = kv.second;
      a.etag = "etag";
      statics.push_back(a);
    }
    for (auto &kv : templatesData) templates.push_back({kv.first, kv.second});
    for (auto &e : externalData) external.push_back(e);
    reg.statics = statics.data();
    reg.staticsCount = statics.size();
    reg.templates = templates.data();
    reg.templatesCount = templates.size();
    reg.externalDir = extDir;
    reg.externalPaths = external.data();
    reg.externalPathsCount = external.size();
  }
  const std::string *findStatic(const std::string &n) const
  {
    for (auto &kv : staticsData)
      if (kv.first == n) return &kv.second;
    return nullptr;
  }
  const std::string *findTemplate(const std::string &n) const
  {
    for (auto &kv : templatesData)
      if (kv.first == n) return &kv.second;
    return nullptr;
  }
};

struct Planned
{
  int r;             ///< region: R_STATIC / R_TEMPL via fromDirectory, R_EXT via fromEmbedded
  bool embeddedTemplate = false;
  std::string name;
  std::int64_t flags = 0;
};

/// judge a lookup that may be answered from the embedded tables
bool judgeEmbedded(const Tree &t, const Embedded &e, const Planned &p, const LookupResult &res, const NameFacts &f, c20::Sink &s)
{
  if (res.threw)
  {
    s.fail("C20/embedded/lookup-throws", "lookup of '" + c20::show(p.name) + "' threw " + res.exc);
    return false;
  }
  if (res.status != 0) return true;
  if (f.lex.documentedRejected())
  {
    s.fail(std::string("C20/embedded/served-lexically-refused-name"),
           "fromEmbedded: Found ('" + c20::show(res.bytes, 40) + "') for '" + c20::show(p.name) + "' which the documented lexical filter refuses");
    return false;
  }
  const std::string *want = p.embeddedTemplate ? e.findTemplate(p.name) : e.findStatic(p.name);
  if (want)
  {
    if (*want != res.bytes)
    {
      s.fail("C20/embedded/bytes-of-another-asset", "fromEmbedded: '" + c20::show(p.name) + "' is registered with bytes '" + c20::show(*want, 40) +
                                                      "' but the lookup returned '" + c20::show(res.bytes, 40) + "'");
      return false;
    }
    return true;
  }
  if (p.embeddedTemplate)
  {
    s.fail("C20/embedded/unregistered-template-served", "fromEmbedded: getTemplate('" + c20::show(p.name) + "') returned '" + c20::show(res.bytes, 40) + "' for a name that is not registered");
    return false;
  }
  return c20::judge(t, c20::R_EXT, p.name, res, f, s); // EXTERNAL_DIR branch
}

void runLookupCase(pbt::Case &c, const Config &cfg, const std::vector<Row> &treeRows, const std::vector<Row> &nameRows,
                   const std::vector<Planned> *fixedNames = nullptr)
{
  CaseSink sink(c);
  Tree t;
  TreeGuard guard{t};
  if (!t.buildSkeleton(cfg))
  {
    c.inconclusive("scratch tree could not be built: " + t.err);
    return;
  }
  for (const Row &row : treeRows)
    if (!t.addGenerated(row))
    {
      c.inconclusive("scratch tree could not be built: " + t.err);
      return;
    }

  // ---- plan the names first (the embedded registry is built from them)
  std::vector<Planned> plan;
  if (fixedNames) plan = *fixedNames;
  for (const Row &row : nameRows)
  {
    Planned p;
    p.flags = row[1];
    if (cfg.mode == 2)
    {
      p.embeddedTemplate = row[0] % 8 == 7;
      p.r = c20::R_EXT;
    }
    else
      p.r = row[0] % 8 < 5 ? c20::R_STATIC : c20::R_TEMPL;
    Row g(row.begin() + 2, row.end());
    p.name = c20::genName(t, p.embeddedTemplate ? (int)c20::R_TEMPL : p.r, g);
    plan.push_back(std::move(p));
  }

  Embedded emb;
  std::optional<Assets> assets;
  try
  {
    if (cfg.mode == 2)
    {
      emb.extDir = t.extGiven;
      int id = 900000;
      for (const Planned &p : plan)
      {
        int k = (int)(p.flags % 8);
        if (p.embeddedTemplate)
        {
          if (k < 5) emb.templatesData.push_back({p.name, c20::makeContent("EMBED", id++, 2)});
        }
        else if (k == 0)
          emb.staticsData.push_back({p.name, c20::makeContent("EMBED", id++, 2)});
        else if (k <= 5)
          emb.externalData.push_back(p.name);
      }
      emb.finish();
      assets.emplace(Assets::fromEmbedded(emb.reg));
    }
    else
      assets.emplace(Assets::fromDirectory(t.rootGiven, cfg.mode == 1));
  }
  catch (const std::exception &e)
  {
    c.fail("C20/config/construction-throws", cfg.text() + ": construction over an existing root directory threw " + e.what());
    return;
  }

  c.description = t.describe() + " names:";
  std::uint64_t digest = c20::fnv(cfg.text());
  std::size_t ntNames = 0, shown = 0;
  for (const Planned &p : plan)
  {
    const bool isTemplate = p.embeddedTemplate || p.r == c20::R_TEMPL;
    if (cfg.mode == 0 && (p.flags >> 8) % 7 == 0) assets->reload();
    const int factsRegion = p.embeddedTemplate ? (int)c20::R_TEMPL : p.r;
    NameFacts f = c20::factsFor(t, factsRegion, p.name);
    const int rounds = ((p.flags >> 4) % 4 == 0) ? 2 : 1; // second round: cache hit in cached mode
    LookupResult res;
    for (int k = 0; k < rounds; ++k)
    {
      res = c20::doLookup(*assets, isTemplate, p.name);
      bool ok = cfg.mode == 2 ? judgeEmbedded(t, emb, p, res, f, sink) : c20::judge(t, p.r, p.name, res, f, sink);
      if (!ok || c.failed() || c.knownHit())
      {
        c.description = t.describe(80) + " failing name: " + (isTemplate ? "template '" : "static '") + c20::show(p.name, 300) + "'";
        return;
      }
    }
    if (!f.walkOk) c.inconclusive("oracle walker and realpath(3) disagree");
    if (p.embeddedTemplate)
      c.label(std::string("embedded template: ") + (res.status == 0 ? "Found" : "nullopt"));
    else if (cfg.mode == 2 && res.status == 0 && emb.findStatic(p.name))
      c.label("external: Found in the embedded table (no file access)");
    else
      c20::labelLookup(p.r, res, f, sink);
    if (f.nontrivial && !p.embeddedTemplate)
    {
      ++ntNames;
      digest = c20::fnv(p.name, digest * 31 + (std::uint64_t)p.r);
      c.label("non-trivial name");
    }
    if (shown < 14 && (f.nontrivial || shown < 4))
    {
      static const char *st[] = {"Found", "refused(NotFound)", "refused(Rejected)"};
      c.description += std::string(" ") + (isTemplate ? "T'" : "S'") + c20::show(p.name, 70) + "'=>" + st[res.status];
      ++shown;
    }
  }
  c.description += " (" + std::to_string(plan.size()) + " names, " + std::to_string(ntNames) + " non-trivial)";
  c.label("lookups");
  {
    static const char *m[] = {"fromDirectory(cached)", "fromDirectory(perRequest)", "fromEmbedded+EXTERNAL_DIR"};
    static const char *sp[] = {"canonical", "through a symlink", "dots and duplicate slashes", "through outside/..", "through symlink/../.. (physical != lexical)"};
    c.label(std::string("config mode: ") + m[cfg.mode]);
    if (cfg.mode == 2) c.label(std::string("config EXTERNAL_DIR spelled: ") + sp[cfg.extSpelling]);
    else
    {
      c.label(std::string("config root spelled: ") + sp[cfg.rootSpelling]);
      if (cfg.staticLink) c.label("config: root/static is a symlink");
      if (cfg.templLink) c.label("config: root/templates is a symlink");
    }
  }
  if (t.skipped) c.label("tree rows skipped (name taken / too deep)");
  if (ntNames) c.nontrivial(digest);
}

Config drawConfig(pbt::Src &src)
{
  Config cfg;
  cfg.mode = (int)src.weighted({4, 4, 3});
  cfg.rootSpelling = (int)src.weighted({3, 2, 2, 1, 1});
  cfg.staticLink = src.range(0, 3) == 3; // shrinks towards the plain layout
  cfg.templLink = src.range(0, 3) == 3;
  cfg.extSpelling = (int)src.weighted({3, 2, 2, 1, 1});
  return cfg;
}

} // namespace

PBT_PROPERTY(lookup)
{
  pbt::watchdog(240, "C20/lookup/stalled"); // expected: 5-30 ms
  Config cfg = drawConfig(src);
  auto treeRows = src.rows(80, 6, 0, MAXC);
  auto nameRows = src.rows(240, 12, 0, MAXC);
  runLookupCase(c, cfg, treeRows, nameRows);
}

// ----------------------------------------------------------------------- mutate_tree
// One Assets instance, one thread: lookups interleaved with QUIESCENT changes of the tree
// made by the harness itself (a directory replaced by a symlink to an outside / another
// inside directory and back, a file replaced by a symlink to a secret / by a new version /
// removed / recreated, .gz siblings added and removed), with and without reload() in
// between. Every lookup is judged against the tree as it is at that moment; a caching
// path may serve a stale copy of an INSIDE file it read since the last reload().
namespace
{

struct MutableArea
{
  const Tree &t;
  int r;
  std::string M; ///< <region root>/m
  int version = 0;
  int docsState = 0, subState = 0; ///< 0 real dir, 1 link->outside mirror (abs), 2 link->inside alt, 3 absent, 4 link->outside mirror (rel)
  bool ok = true;

  MutableArea(const Tree &tt, int rr) : t(tt), r(rr), M(tt.canon[rr] + "/m") {}
  ~MutableArea() { c20::removeTree(M); }

  std::string fresh()
  {
    const int v = version++;
    return c20::makeContent(c20::regionTag(r), 300000 + 1000 * r + v, v % 5 == 4 ? 5 : 2);
  }
  void file(const std::string &p, const std::string &data)
  {
    int fd = ::open(p.c_str(), O_CREAT | O_TRUNC | O_WRONLY | O_CLOEXEC, 0644);
    if (fd < 0) { ok = false; return; }
    std::size_t off = 0;
    while (off < data.size())
    {
      ssize_t n = ::write(fd, data.data() + off, data.size() - off);
      if (n <= 0) { ok = false; break; }
      off += (std::size_t)n;
    }
    ::close(fd);
  }
  void dir(const std::string &p) { if (::mkdir(p.c_str(), 0755) != 0) ok = false; }
  void link(const std::string &target, const std::string &p) { if (::symlink(target.c_str(), p.c_str()) != 0) ok = false; }

  /// where the real docs (sub) directory physically is right now
  std::string realDocs() const { return docsState == 0 ? M + "/docs" : M + "/.stash-docs"; }
  std::string realSub() const { return subState == 0 ? realDocs() + "/sub" : realDocs() + "/.stash-sub"; }

  void build()
  {
    dir(M);
    dir(M + "/docs");
    dir(M + "/docs/sub");
    dir(M + "/alt");
    dir(M + "/alt/sub");
    file(M + "/docs/readme.txt", fresh());
    file(M + "/docs/sub/page.html", fresh());
    file(M + "/file.txt", fresh());
    file(M + "/alt/readme.txt", fresh());
    file(M + "/alt/new.txt", fresh());
    file(M + "/alt/sub/page.html", fresh());
    file(M + "/alt/page.html", fresh());
    link("docs", M + "/lnk");               // inside link that follows whatever docs is
    link("docs/readme.txt", M + "/flink");
  }

  /// replace the occupant of a directory slot
  void setDir(bool isSub, int state)
  {
    int &cur = isSub ? subState : docsState;
    if (state == cur) return;
    const std::string slot = isSub ? realDocs() + "/sub" : M + "/docs";
    const std::string stash = isSub ? realDocs() + "/.stash-sub" : M + "/.stash-docs";
    // remove the occupant
    if (cur == 0) { if (::rename(slot.c_str(), stash.c_str()) != 0) ok = false; }
    else if (cur != 3) ::unlink(slot.c_str());
    // install the new one
    const std::string mirror = t.C + (isSub ? "/outside/docs/sub" : "/outside/docs");
    switch (state)
    {
    case 0: if (::rename(stash.c_str(), slot.c_str()) != 0) ok = false; break;
    case 1: link(mirror, slot); break;
    case 2: link(isSub ? "../alt/sub" : "alt", slot); break; // relative to the directory that holds the link
    case 3: break;
    default: link(c20::relPath(isSub ? realDocs() : M, mirror), slot); break;
    }
    cur = state;
  }

  /// replace the occupant of a file slot: 0 new regular version, 1 link -> secret, 2 link -> other inside file, 3 absent,
  /// 4 link -> sibling-prefix secret, 5 link -> outside mirror file (relative)
  void setFile(int which, int state)
  {
    std::string slot, mirrorName;
    switch (which)
    {
    case 0: slot = M + "/file.txt"; mirrorName = "readme.txt"; break;
    case 1: slot = realDocs() + "/readme.txt"; mirrorName = "readme.txt"; break;
    case 2: slot = M + "/file.txt.gz"; mirrorName = "readme.txt.gz"; break;
    case 3: slot = realDocs() + "/new.txt"; mirrorName = "new.txt"; break;
    case 4: slot = realDocs() + "/readme.txt.gz"; mirrorName = "readme.txt.gz"; break;
    default: slot = realSub() + "/page.html"; mirrorName = "sub/page.html"; break;
    }
    ::unlink(slot.c_str());
    auto parent = slot.substr(0, slot.find_last_of('/'));
    switch (state)
    {
    case 0: file(slot, fresh()); break;
    case 1: link(t.C + "/outside/docs/" + mirrorName, slot); break;
    case 2: link(M + "/alt/readme.txt", slot); break;
    case 3: break;
    case 4: link(t.canon[r] + "-secret", slot); break;
    default: link(c20::relPath(parent, t.C + "/outside/docs/" + mirrorName), slot); break;
    }
  }
};

const std::vector<std::string> &mutableNames()
{
  static const std::vector<std::string> n = {
    "m/docs/readme.txt", "m/docs/sub/page.html", "m/file.txt", "m/docs/new.txt", "m/lnk/readme.txt", "m/flink", "m/alt/readme.txt",
    "m/docs/page.html", "m/docs/./readme.txt", "m//docs//readme.txt", "self/m/docs/readme.txt", "m/lnk/sub/page.html", "m/docs/sub/",
    "m/docs", "m/file.txt.gz", "m/docs/readme.txt.gz", "m/.stash-docs/readme.txt", "m/docs/sub/../readme.txt", "m/docs/sub/new.txt",
    "m/alt/sub/page.html", "m/docs/.stash-sub/page.html"};
  return n;
}

struct MutateOp
{
  int kind; ///< 0 lookup, 1 set dir slot, 2 set file slot, 3 reload, 4 re-lookup everything seen so far
  int a = 0, b = 0, c = 0;
  std::string name;
};

void runMutateCase(pbt::Case &c, const Config &cfg, const std::vector<Row> &treeRows, const std::vector<Row> &ops, const std::vector<MutateOp> *fixedOps = nullptr)
{
  CaseSink sink(c);
  Tree t;
  TreeGuard guard{t};
  if (!t.buildSkeleton(cfg))
  {
    c.inconclusive("scratch tree could not be built: " + t.err);
    return;
  }
  for (const Row &row : treeRows) t.addGenerated(row);
  const bool embedded = cfg.mode == 2;
  std::vector<std::unique_ptr<MutableArea>> areas(3);
  for (int r = 0; r < 3; ++r)
  {
    if (embedded != (r == c20::R_EXT)) continue;
    areas[r] = std::make_unique<MutableArea>(t, r);
    areas[r]->build();
    if (!areas[r]->ok)
    {
      c.inconclusive("mutable area could not be built");
      return;
    }
  }

  // ---- the history
  std::vector<MutateOp> hist;
  if (fixedOps) hist = *fixedOps;
  for (const Row &row : ops)
  {
    MutateOp op;
    const int k = (int)(row[0] % 16);
    op.a = (int)(row[1] % 2);
    if (k < 8)
    {
      op.kind = 0;
      if ((row[2] % 8) == 7)
      {
        Row g(row.begin() + 3, row.end());
        op.name = c20::genName(t, embedded ? (int)c20::R_EXT : op.a, g);
      }
      else
        op.name = mutableNames()[(std::size_t)row[3] % mutableNames().size()];
    }
    else if (k < 11)
    {
      op.kind = 1;
      op.b = (int)(row[2] % 4 == 0); // the nested slot docs/sub, or docs itself
      op.c = (int)(row[3] % 5);
    }
    else if (k < 14)
    {
      op.kind = 2;
      op.b = (int)(row[2] % 6);
      op.c = (int)(row[3] % 6);
    }
    else if (k == 14)
      op.kind = 3;
    else
      op.kind = 4;
    hist.push_back(std::move(op));
  }

  Embedded emb;
  std::optional<Assets> assets;
  try
  {
    if (embedded)
    {
      emb.extDir = t.extGiven;
      for (const auto &n : mutableNames()) emb.externalData.push_back(n);
      for (const auto &op : hist)
        if (op.kind == 0) emb.externalData.push_back(op.name);
      emb.finish();
      assets.emplace(Assets::fromEmbedded(emb.reg));
    }
    else
      assets.emplace(Assets::fromDirectory(t.rootGiven, cfg.mode == 1));
  }
  catch (const std::exception &e)
  {
    c.fail("C20/config/construction-throws", cfg.text() + ": construction over an existing root directory threw " + e.what());
    return;
  }

  std::map<std::pair<int, std::string>, c20::Stale> stale;
  std::vector<std::pair<int, std::string>> seen;
  std::string trace;
  std::uint64_t digest = c20::fnv(cfg.text());
  std::size_t mutations = 0, lookupsAfterMutation = 0, outsideAfterMutation = 0;
  static const char *st[] = {"Found", "NotFound", "Rejected"};

  auto lookup = [&](int r, const std::string &name) -> bool
  {
    const bool isTemplate = r == c20::R_TEMPL;
    // which path caches: templates always (template cache), statics in cached mode
    const bool caching = !embedded && (isTemplate || cfg.mode == 0);
    NameFacts f = c20::factsFor(t, r, name);
    c20::Stale *sp = nullptr;
    if (caching)
    {
      sp = &stale[{r, name}];
      c20::noteCurrent(t, r, name, f, *sp);
    }
    LookupResult res = c20::doLookup(*assets, isTemplate, name);
    trace += std::string(" ") + (isTemplate ? "T'" : "S'") + c20::show(name, 60) + "'=>" + st[res.status];
    bool ok = c20::judge(t, r, name, res, f, sink, sp, "C20/after-mutation/");
    if (!ok || c.failed() || c.knownHit()) return false;
    if (!f.walkOk) c.inconclusive("oracle walker and realpath(3) disagree");
    c.label(std::string("mutate ") + c20::apiName(r) + ": " + st[res.status]);
    if (mutations)
    {
      ++lookupsAfterMutation;
      if (f.resolvesOutside && f.w.isReg)
      {
        ++outsideAfterMutation;
        c.label(std::string("mutate: name resolves to an OUTSIDE file after a mutation -> ") + st[res.status]);
      }
    }
    if (std::find(seen.begin(), seen.end(), std::make_pair(r, name)) == seen.end()) seen.emplace_back(r, name);
    digest = c20::fnv(name, digest * 31 + (std::uint64_t)r);
    return true;
  };

  for (const MutateOp &op : hist)
  {
    const int r = embedded ? (int)c20::R_EXT : op.a;
    MutableArea &area = *areas[r];
    switch (op.kind)
    {
    case 0:
      if (!lookup(r, op.name)) goto failed;
      break;
    case 1:
      area.setDir(op.b != 0, op.c);
      ++mutations;
      trace += std::string(" [") + c20::apiName(r) + (op.b ? ": m/docs/sub := " : ": m/docs := ") +
               (op.c == 0 ? "real dir" : op.c == 1 ? "link->outside dir" : op.c == 2 ? "link->inside alt dir" : op.c == 3 ? "absent" : "rel link->outside dir") + "]";
      digest = digest * 131 + (std::uint64_t)(op.b * 8 + op.c + 1);
      break;
    case 2:
    {
      static const char *slots[] = {"m/file.txt", "m/docs/readme.txt", "m/file.txt.gz", "m/docs/new.txt", "m/docs/readme.txt.gz", "m/docs/sub/page.html"};
      static const char *states[] = {"new regular version", "link->secret", "link->inside file", "absent", "link->sibling-prefix secret", "rel link->secret"};
      area.setFile(op.b, op.c);
      ++mutations;
      trace += std::string(" [") + c20::apiName(r) + ": " + slots[op.b] + " := " + states[op.c] + "]";
      digest = digest * 131 + (std::uint64_t)(64 + op.b * 8 + op.c);
      break;
    }
    case 3:
      assets->reload();
      stale.clear();
      trace += " [reload]";
      break;
    default:
    {
      trace += " [again:";
      auto again = seen; // lookup() appends to seen
      for (const auto &rn : again)
        if (!lookup(rn.first, rn.second)) goto failed;
      trace += "]";
      break;
    }
    }
    if (!area.ok)
    {
      c.inconclusive("a tree mutation failed (scratch file system)");
      return;
    }
  }
  c.describe(cfg.text() + " history:" + trace);
  c.label("mutate: histories");
  if (mutations && lookupsAfterMutation) c.nontrivial(digest);
  if (outsideAfterMutation) c.label("mutate: history with an escaping name after a mutation");
  return;
failed:
  c.describe(cfg.text() + " history:" + trace + "  <== fails here");
}

} // namespace

PBT_PROPERTY(mutate_tree)
{
  pbt::watchdog(240, "C20/mutate_tree/stalled"); // expected: 5-30 ms
  Config cfg = drawConfig(src);
  auto treeRows = src.rows(12, 6, 0, MAXC);
  auto ops = src.rows(90, 13, 0, MAXC);
  runMutateCase(c, cfg, treeRows, ops);
}

// ------------------------------------------------------------------------------ swap
namespace
{

inline void spin(int n)
{
  for (volatile int i = 0; i < n; ++i)
  {
  }
}

struct SwapPlan
{
  Config cfg;
  bool isTemplate = false;
  int spelling = 0;   ///< how the leaf is requested
  int what = 0;       ///< 0 leaf, 1 leaf.gz, 2 both
  int secretKind = 0; ///< 0 abs link, 1 rel link, 2 sibling-prefix file, 3 link -> link -> secret, 4 file in a case variant of the root
  bool third = false; ///< additional state: symlink to another inside file
  int threads = 1;
  int swaps = 100;
  int swapSpin = 0;
  int lookSpin[3] = {0, 0, 0};
  int reloadEvery = 0; ///< 0 = never
  std::string text() const
  {
    static const char *sp[] = {"css/leaf.txt", "indir/leaf.txt", "fl.txt (link->css/leaf.txt)", "./css//leaf.txt", "self/css/leaf.txt", "up/<root>/css/leaf.txt"};
    static const char *wh[] = {"leaf", "leaf.gz", "leaf and leaf.gz"};
    static const char *sk[] = {"abs link->secret", "rel link->secret", "link->sibling-prefix file", "link->link->secret", "link->file in case-variant of the root"};
    return cfg.text() + (isTemplate ? " api=getTemplate" : " api=getStatic") + " request=" + sp[spelling] + " toggles=" + wh[what] + " secret=" + sk[secretKind] +
           (third ? " +state(link->inside file)" : "") + " threads=" + std::to_string(threads) + " swaps=" + std::to_string(swaps) +
           " swapSpin=" + std::to_string(swapSpin) + " reloadEvery=" + std::to_string(reloadEvery);
  }
};

void runSwapCase(pbt::Case &c, const SwapPlan &pl)
{
  Tree t;
  TreeGuard guard{t};
  if (!t.buildSkeleton(pl.cfg))
  {
    c.inconclusive("scratch tree could not be built: " + t.err);
    return;
  }
  const int r = pl.cfg.mode == 2 ? (int)c20::R_EXT : (pl.isTemplate ? (int)c20::R_TEMPL : (int)c20::R_STATIC);
  const std::string P = t.canon[r];
  const std::string leaf = P + "/css/leaf.txt", leafGz = leaf + ".gz";
  const char *tag = c20::regionTag(r);

  // all versions are fixed before any thread starts
  std::vector<std::string> versions, gzVersions;
  for (int i = 0; i <= pl.swaps; ++i)
  {
    versions.push_back(c20::makeContent(tag, 100000 + i, i % 7 == 3 ? 5 : 2));
    gzVersions.push_back(c20::makeContent(tag, 200000 + i, 2));
  }
  std::set<std::string> validLeaf(versions.begin(), versions.end()), validGz(gzVersions.begin(), gzVersions.end());
  validLeaf.insert(t.content[P + "/css/site.css"]);   // third state: link -> inside file
  validGz.insert(t.content[P + "/css/site.css.gz"]);
  validGz.insert(t.content[P + "/css/site.css"]);

  if (!t.mkf(leaf, versions[0]) || !t.mkl("css/leaf.txt", P + "/fl.txt")) { c.inconclusive("tree: " + t.err); return; }
  if (pl.what != 0 && !t.mkf(leafGz, gzVersions[0])) { c.inconclusive("tree: " + t.err); return; }
  std::string secretTarget;
  switch (pl.secretKind)
  {
  case 0: secretTarget = t.C + "/outside/secret.txt"; break;
  case 1: secretTarget = c20::relPath(P + "/css", t.C + "/outside/key.pem"); break;
  case 2: secretTarget = c20::relPath(P + "/css", P + "-secret"); break;
  case 4: secretTarget = c20::relPath(P + "/css", t.caseLeaf[r] + "/secret.txt"); break;
  default: secretTarget = P + "/leak.txt"; break; // itself a link to the secret
  }
  std::string request;
  switch (pl.spelling)
  {
  case 0: request = "css/leaf.txt"; break;
  case 1: request = "indir/leaf.txt"; break;
  case 2: request = "fl.txt"; break;
  case 3: request = "./css//leaf.txt"; break;
  case 4: request = "self/css/leaf.txt"; break;
  default:
  {
    auto p = P.find_last_of('/');
    request = "up/" + P.substr(p + 1) + "/css/leaf.txt";
    break;
  }
  }

  Embedded emb;
  std::optional<Assets> assets;
  try
  {
    if (pl.cfg.mode == 2)
    {
      emb.extDir = t.extGiven;
      emb.externalData.push_back(request);
      emb.finish();
      assets.emplace(Assets::fromEmbedded(emb.reg));
    }
    else
      assets.emplace(Assets::fromDirectory(t.rootGiven, pl.cfg.mode == 1));
  }
  catch (const std::exception &e)
  {
    c.fail("C20/config/construction-throws", pl.text() + ": threw " + e.what());
    return;
  }

  std::atomic<bool> done{false};
  std::atomic<int> ready{0};
  std::atomic<long> swapsDone{0};
  bool cutShort = false;
  // The clock only bounds the amount of work (like the shard's --max-seconds): when the
  // scratch file system is slow (journal contention on a loaded machine) the swapper
  // stops early. It never enters a verdict.
  constexpr double kSwapBudget = 6.0;
  std::mutex failMu;
  std::string failSig, failWhat;
  std::atomic<long> nFound{0}, nRejected{0}, nNotFound{0}, nGz{0};
  const std::string api = std::string("C20/swap/") + c20::apiName(r) + "/";

  auto fail = [&](const std::string &sig, const std::string &what)
  {
    std::lock_guard<std::mutex> lk(failMu);
    if (failSig.empty())
    {
      failSig = sig;
      failWhat = what;
    }
  };

  auto swapper = [&]
  {
    const std::string tmpL = P + "/css/.tmp-link", tmpF = P + "/css/.tmp-file";
    auto toLink = [&](const std::string &victim, const std::string &target)
    {
      ::unlink(tmpL.c_str());
      if (::symlink(target.c_str(), tmpL.c_str()) == 0) ::rename(tmpL.c_str(), victim.c_str());
    };
    auto toFile = [&](const std::string &victim, const std::string &data)
    {
      int fd = ::open(tmpF.c_str(), O_CREAT | O_TRUNC | O_WRONLY | O_CLOEXEC, 0644);
      if (fd < 0) return;
      std::size_t off = 0;
      while (off < data.size())
      {
        ssize_t n = ::write(fd, data.data() + off, data.size() - off);
        if (n <= 0) break;
        off += (std::size_t)n;
      }
      ::close(fd);
      if (off == data.size()) ::rename(tmpF.c_str(), victim.c_str());
      else
        ::unlink(tmpF.c_str());
    };
    while (ready.load() < pl.threads) std::this_thread::yield();
    const auto t0 = std::chrono::steady_clock::now();
    for (int i = 1; i <= pl.swaps; ++i)
    {
      if ((i & 3) == 0 && std::chrono::duration<double>(std::chrono::steady_clock::now() - t0).count() > kSwapBudget)
      {
        cutShort = true;
        break;
      }
      swapsDone.store(i, std::memory_order_relaxed);
      const bool insideLink = pl.third && i % 3 == 0;
      if (pl.what != 1) toLink(leaf, insideLink ? P + "/css/site.css" : secretTarget);
      if (pl.what != 0) toLink(leafGz, insideLink ? P + "/css/site.css.gz" : (pl.secretKind == 0 ? t.C + "/outside/site.css.gz" : secretTarget));
      spin(pl.swapSpin);
      if (pl.what != 1) toFile(leaf, versions[(std::size_t)i]);
      if (pl.what != 0) toFile(leafGz, gzVersions[(std::size_t)i]);
      spin(pl.swapSpin);
    }
    ::unlink(tmpL.c_str());
    ::unlink(tmpF.c_str());
    done.store(true);
  };

  auto looker = [&](int idx)
  {
    ready.fetch_add(1);
    long k = 0;
    while (!done.load(std::memory_order_relaxed) || k < 20)
    {
      ++k;
      LookupResult res = c20::doLookup(*assets, pl.isTemplate, request);
      if (res.threw) fail(api + "lookup-throws", "threw " + res.exc);
      else if (res.status == 0)
      {
        nFound.fetch_add(1, std::memory_order_relaxed);
        if (const char *fm = c20::foreignMarker(res.bytes, tag))
          fail(api + "outside-content", std::string("lookup of '") + request + "' returned bytes with the marker of a file outside the root (<<" + fm +
                                          ":..) while the leaf was being swapped: '" + c20::show(res.bytes, 60) + "'");
        else if (!validLeaf.count(res.bytes))
          fail(api + "bytes-not-a-version-of-the-inside-file", std::string("lookup of '") + request + "' returned '" + c20::show(res.bytes, 60) + "' (" +
                                                                 std::to_string(res.bytes.size()) + " B): not a complete version of the inside file");
        if (res.gzip)
        {
          nGz.fetch_add(1, std::memory_order_relaxed);
          if (const char *fm = c20::foreignMarker(*res.gzip, tag))
            fail(api + "gzip-outside-content", std::string("lookup of '") + request + "' returned gzipBytes with the marker of a file outside the root (<<" + fm +
                                                 ":..) while the .gz sibling was being swapped: '" + c20::show(*res.gzip, 60) + "'");
          else if (!validGz.count(*res.gzip))
            fail(api + "gzip-not-a-version-of-the-inside-file", std::string("gzipBytes '") + c20::show(*res.gzip, 60) + "' are not a complete version of the inside .gz file");
        }
      }
      else if (res.status == 2) nRejected.fetch_add(1, std::memory_order_relaxed);
      else
        nNotFound.fetch_add(1, std::memory_order_relaxed);
      if (pl.reloadEvery && k % pl.reloadEvery == 0) assets->reload();
      spin(pl.lookSpin[idx % 3]);
      // pacing: at most ~60 lookups per swap and thread, so the lookers cannot starve the
      // swapper of the directory lock / the CPU on an oversubscribed machine
      while (!done.load(std::memory_order_relaxed) && k > 60 * (swapsDone.load(std::memory_order_relaxed) + 1)) std::this_thread::yield();
    }
  };

  std::vector<std::thread> th;
  bool started = true;
  try
  {
    for (int i = 0; i < pl.threads; ++i) th.emplace_back(looker, i);
    th.emplace_back(swapper);
  }
  catch (const std::system_error &)
  {
    started = false; // out of threads on an overloaded machine: not a verdict on iora
    ready.store(pl.threads);
    done.store(true);
  }
  for (auto &x : th) x.join();
  if (!started)
  {
    c.inconclusive("could not start the threads of a swap case");
    return;
  }

  c.describe(pl.text() + " => lookups: Found " + std::to_string(nFound.load()) + ", Rejected " + std::to_string(nRejected.load()) + ", NotFound " +
             std::to_string(nNotFound.load()) + ", with gzip " + std::to_string(nGz.load()));
  if (!failSig.empty())
  {
    c.fail(failSig, pl.text() + ": " + failWhat);
    return;
  }
  const long refused = nRejected.load() + nNotFound.load();
  c.label(std::string("swap api: ") + c20::apiName(r));
  if (cutShort) c.label("swap: cut short by the per-case time budget (slow scratch file system)");
  if (nFound.load() > 0 && refused > 0) c.label("swap: both states observed by the lookups (Found and refused)");
  else if (nFound.load() > 0) c.label("swap: only Found observed");
  else
    c.label("swap: only refusals observed");
  if (pl.what == 0 && !pl.isTemplate && pl.cfg.mode != 0 && nNotFound.load() > 0)
    c.label("swap: check-then-open window hit (contained at check, open refused)");
  if (nGz.load() > 0) c.label("swap: gzip representation returned at least once");
  if (nFound.load() > 0 && refused > 0)
  {
    std::uint64_t d = c20::fnv(pl.text());
    c.nontrivial(d);
  }
}

} // namespace

PBT_PROPERTY(swap)
{
  // expected: tens of milliseconds (the swapper stops by itself after kSwapBudget seconds).
  // The fixed regression cases arm no watchdog: there the driver's replay timeout applies.
  pbt::watchdog(240, "C20/swap/stalled");
  SwapPlan pl;
  pl.cfg = drawConfig(src);
  pl.isTemplate = pl.cfg.mode != 2 && src.range(0, 2) == 2;
  pl.spelling = (int)src.range(0, 5);
  pl.what = pl.isTemplate ? 0 : (int)src.weighted({3, 1, 2});
  pl.secretKind = (int)src.range(0, 4);
  pl.third = src.range(0, 2) == 2;
  pl.threads = (int)src.range(1, 3);
  pl.swaps = (int)src.sized(30, 400);
  pl.swapSpin = (int)src.oneOf<int>({0, 0, 20, 200, 2000});
  for (int &x : pl.lookSpin) x = (int)src.oneOf<int>({0, 0, 10, 100, 1000});
  // reload() concurrent with getTemplate on another thread is documented as unsupported
  // (bare string_view into the cache): with templates only a single thread reloads.
  if (pl.cfg.mode == 0 && (!pl.isTemplate || pl.threads == 1)) pl.reloadEvery = (int)src.oneOf<int>({0, 1, 1, 2, 5});
  runSwapCase(c, pl);
}

// --------------------------------------------------------------------- regressions
namespace
{
std::vector<Planned> fixed(int r, std::initializer_list<std::string> names)
{
  std::vector<Planned> v;
  for (auto &n : names)
  {
    Planned p;
    p.r = r;
    p.name = n;
    p.flags = 0; // two rounds
    v.push_back(p);
  }
  return v;
}
void runFixed(pbt::Case &c, int mode, std::initializer_list<std::string> names)
{
  for (int spelling = 0; spelling < 5 && !c.failed(); ++spelling)
    for (int linkRoots = 0; linkRoots < 2 && !c.failed(); ++linkRoots)
    {
      Config cfg;
      cfg.mode = mode;
      cfg.rootSpelling = spelling;
      cfg.extSpelling = spelling;
      cfg.staticLink = cfg.templLink = linkRoots != 0;
      std::vector<Planned> plan;
      if (mode == 2) plan = fixed(c20::R_EXT, names);
      else
      {
        plan = fixed(c20::R_STATIC, names);
        auto tp = fixed(c20::R_TEMPL, names);
        plan.insert(plan.end(), tp.begin(), tp.end());
      }
      for (auto &p : plan) p.flags = 1; // registered as external path in embedded mode, two rounds
      runLookupCase(c, cfg, {}, {}, &plan);
    }
}
const std::initializer_list<std::string> kSymlinkNames = {
  "leak.txt", "leakrel.txt", "leakdir/secret.txt", "leakdir/nested/deep.txt", "leakdir/key.pem", "sib/secret.txt", "sib/index.html", "sibfile",
  "up/secret.txt", "up/static_old/secret.txt", "self/leak.txt", "self/self/leakdir/a.txt", "indir/../leak.txt", "in.txt", "indir/site.css",
  "self/css/site.css", "dangling", "loop", "loop/x", "index.html", "css/site.css", "js/app.js"};
// outside directories that equal the root up to letter case (<base>/STATIC, <base>/ROOT/static, ...)
const std::initializer_list<std::string> kCaseVariantNames = {
  "casefile", "casefilerel", "casedir/secret.txt", "casedir/index.html", "casedir/css/site.css", "casedirup/secret.txt", "casedirup/index.html",
  "casedirup/css/site.css", "self/casedir/css/site.css", "indir/../casefile", "casedir", "casedirup/", "./casedir//index.html", "index.html", "css/site.css"};
const std::initializer_list<std::string> kSpellings = {
  "../outside/secret.txt", "../../outside/secret.txt", "css/../../../outside/secret.txt", "..", "../", "css/..", "css/../index.html", "./index.html",
  "css//site.css", "css/./site.css", "index.html/", "index.html/.", "index.html//", "css/", "", ".", "./", "...", ".../index.html", "....//outside/secret.txt",
  "..%2f..%2foutside%2fsecret.txt", "%2e%2e/%2e%2e/outside/secret.txt", "..\\..\\outside\\secret.txt", "css\\site.css", std::string("index.html\0", 11),
  std::string("index.html\0.png", 15), std::string("leak.txt\0index.html", 19), "/etc/passwd", "//index.html", "/index.html"};
} // namespace

PBT_REGRESSION(symlink_shapes)
{
  for (int mode = 0; mode < 3 && !c.failed(); ++mode) runFixed(c, mode, kSymlinkNames);
}
PBT_REGRESSION(case_variant_neighbours)
{
  for (int mode = 0; mode < 3 && !c.failed(); ++mode) runFixed(c, mode, kCaseVariantNames);
}
PBT_REGRESSION(traversal_spellings)
{
  for (int mode = 0; mode < 3 && !c.failed(); ++mode) runFixed(c, mode, kSpellings);
}
// the resolution of a name must not outlive a change of the tree: directory (or leaf, or
// a missing file) looked up once, then replaced by a link leading outside, looked up again
PBT_REGRESSION(relookup_after_dir_becomes_outside_link)
{
  for (int mode = 0; mode < 3 && !c.failed(); ++mode)
    for (int variant = 0; variant < 4 && !c.failed(); ++variant)
    {
      Config cfg;
      cfg.mode = mode;
      std::vector<MutateOp> h;
      auto L = [&](int r, const char *n) { MutateOp o; o.kind = 0; o.a = r; o.name = n; h.push_back(o); };
      auto D = [&](int r, int sub, int state) { MutateOp o; o.kind = 1; o.a = r; o.b = sub; o.c = state; h.push_back(o); };
      auto F = [&](int r, int slot, int state) { MutateOp o; o.kind = 2; o.a = r; o.b = slot; o.c = state; h.push_back(o); };
      for (int r = 0; r < 2; ++r)
      {
        switch (variant)
        {
        case 0: // file present at the first lookup, docs := link -> outside mirror
          L(r, "m/docs/readme.txt"); L(r, "m/docs/sub/page.html"); D(r, 0, 1); L(r, "m/docs/readme.txt"); L(r, "m/docs/sub/page.html");
          D(r, 0, 0); L(r, "m/docs/readme.txt");
          break;
        case 1: // file absent at the first lookup (NotFound), present in the outside mirror
          L(r, "m/docs/new.txt"); D(r, 0, 4); L(r, "m/docs/new.txt"); L(r, "m/lnk/new.txt");
          break;
        case 2: // nested directory and inside alt directory
          L(r, "m/docs/sub/page.html"); D(r, 1, 2); L(r, "m/docs/sub/page.html"); D(r, 1, 1); L(r, "m/docs/sub/page.html"); L(r, "m/lnk/sub/page.html");
          break;
        default: // leaf and .gz sibling
          L(r, "m/file.txt"); F(r, 2, 0); L(r, "m/file.txt"); F(r, 0, 1); L(r, "m/file.txt"); F(r, 0, 0); F(r, 2, 1); L(r, "m/file.txt");
          F(r, 2, 5); L(r, "m/file.txt"); F(r, 0, 5); L(r, "m/file.txt");
          break;
        }
      }
      runMutateCase(c, cfg, {}, {}, &h);
    }
}
PBT_REGRESSION(swap_leaf_per_request)
{
  for (int spelling = 0; spelling < 6 && !c.failed(); ++spelling)
  {
    SwapPlan pl;
    pl.cfg.mode = 1;
    pl.spelling = spelling;
    pl.what = spelling % 3;
    pl.secretKind = spelling % 4;
    pl.threads = 2;
    pl.swaps = 200;
    runSwapCase(c, pl);
  }
}
PBT_REGRESSION(swap_leaf_cached_reload_and_templates)
{
  for (int k = 0; k < 4 && !c.failed(); ++k)
  {
    SwapPlan pl;
    pl.cfg.mode = k % 3 == 2 ? 2 : 0;
    pl.isTemplate = k % 3 == 1;
    pl.spelling = k;
    pl.what = pl.isTemplate ? 0 : 2;
    pl.threads = pl.isTemplate ? 1 : 3;
    pl.reloadEvery = pl.cfg.mode == 0 ? 1 : 0;
    pl.swaps = 200;
    runSwapCase(c, pl);
  }
}

PBT_MAIN()
