// libFuzzer target for C14: iora's XML pull tokenizer, SAX driver and DOM builder on arbitrary
// bytes, parser Options taken from a prefix. The semantic oracle is the validity predicate of
// common/c14_xml_check.hpp: terminates with progress; every reported string_view lies inside the
// (exact-size, heap) input buffer and inside its token's span; if EOF is reached without error
// the token stream is properly nested with matching end-tag names (own stack), reported depths
// agree, every configured limit holds; SAX and DOM agree with the pull tokens; decodeEntities
// agrees with the strict reference decoder on valid slices, never grows its input, never
// replaces a reference to an undefined entity and never produces the planted marker.
//
// Input layout: byte 0 = flags. bit0 set => 5 limit bytes follow (depth, attrs, name, text,
// tokens); bits 1..5 select which of them are applied (others stay at their defaults);
// bit 6 = namespaceProcessing. The rest is the document.
#include "pbt_fuzz.hpp"
#include "c14_xml_check.hpp"

#include <iora/parsers/xml.hpp>

namespace pbt
{
// c14_ref_xml.hpp / c14_xml_check.hpp only need these helpers from the pbt runtime
std::uint64_t hash64(std::string_view s) { return pbtf::hash64(s); }
std::string show(std::string_view s, std::size_t n)
{
  static const char *hexd = "0123456789abcdef";
  std::string o;
  for (std::size_t i = 0; i < s.size() && i < n; ++i)
  {
    unsigned char ch = (unsigned char)s[i];
    if (ch == '\\') o += "\\\\";
    else if (ch < 0x20 || ch >= 0x7f)
    {
      o += "\\x";
      o += hexd[ch >> 4];
      o += hexd[ch & 15];
    }
    else
      o += (char)ch;
  }
  return o;
}
} // namespace pbt

extern "C" int LLVMFuzzerTestOneInput(const uint8_t *data, size_t size)
{
  pbtf::count();
  namespace ix = iora::parsers::xml;
  ix::Options opt;
  if (size >= 1)
  {
    uint8_t flags = data[0];
    ++data;
    --size;
    opt.namespaceProcessing = (flags >> 6) & 1;
    if (flags & 1)
    {
      if (size < 5) return 0;
      if (flags & 2) opt.maxDepth = data[0] & 31;
      if (flags & 4) opt.maxAttrsPerElement = data[1] & 31;
      if (flags & 8) opt.maxNameLength = data[2] & 31;
      if (flags & 16) opt.maxTextSpan = data[3] & 63;
      if (flags & 32) opt.maxTotalTokens = data[4] & 63;
      data += 5;
      size -= 5;
      pbtf::label("small limits");
    }
  }
  c14::ExactBuf buf(std::string_view(reinterpret_cast<const char *>(data), size));
  c14::Report rep;
  rep.fail = [](const std::string &sig, const std::string &what) { pbtf::fail(sig, what); };
  rep.label = [](const std::string &l) { pbtf::label(l); };
  c14::Outcome o = c14::checkArbitrary(buf.view(), opt, rep);
  if (o.accepted)
  {
    pbtf::label("accepted");
    if (o.undecodable) pbtf::label("accepted with undecodable reference");
    if (o.maxDepth >= 2 && o.special) pbtf::nontrivial(pbtf::hash64(buf.view()) ^ (opt.maxDepth * 31 + opt.maxTotalTokens), buf.view());
  }
  return 0;
}
