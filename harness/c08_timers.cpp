// C08 - Timers never fire early, twice, or after a successful cancel.
//
// Plan executor with real clocks and real threads for
//   svc    : iora::core::TimerService (single service) and TimerServicePool
//   wheel  : iora::core::TimingWheel (tick thread, cascades, catch-up)
//   svc_stop_timeout : TimerService::stop() whose internal drain(5000) times out
//
// A plan is a set of timer slots (what is scheduled, how the handler behaves) and 1-4
// actor scripts (schedule / cancel / cancel-near-deadline / reschedule / sleep / drain /
// stop). Every call and every handler entry/exit is appended to one totally ordered trace
// (mutex protected => the trace order is consistent with happens-before). All oracles are
// evaluated on the trace afterwards and are ONE-SIDED in time:
//   * lateness is never a violation;
//   * "started after cancel returned" is only concluded from (a) the same-thread
//     predecessor of the handler entry being ordered after the cancel's return, or (b)
//     the cancel having returned before the earliest instant the firing may legally start;
//   * "not fired" conclusions are bounded waits measured in progress of the service itself
//     (later-scheduled probe timers must have fired on it), c.failTimed => 3/3 replay;
//   * "accepted by a stopped service" is only concluded for a scheduling call the harness
//     parked inside iora until stop()/drain() had returned (lifecycle generation counters).
// No wall-clock value is used for a decision of the plan; timestamps are oracle inputs.
#include "pbt.hpp"

#include <iora/core/timer.hpp>
#include <iora/core/timing_wheel.hpp>

#include <atomic>
#include <chrono>
#include <algorithm>
#include <climits>
#include <cstring>
#include <map>
#include <memory>
#include <mutex>
#include <sys/syscall.h>
#include <thread>
#include <time.h>
#include <unistd.h>

using iora::core::TimerService;
using iora::core::TimerServicePool;
using iora::core::TimingWheel;

// ---------------------------------------------------------------------------------------
// clock_gettime interposer: lets a plan park one scheduling call *inside* iora, right after
// it read the clock (= the window between the lock-free `_accepting` check and the mutex),
// exactly as a pre-emption at that instruction would. Pure delay: sound by construction.
// ---------------------------------------------------------------------------------------
namespace
{
struct StallCtl
{
  std::atomic<int> lifeGen{0};  // bumped after every lifecycle call returned
  std::atomic<bool> abort{false};
};
thread_local int tlStallAtCall = 0;      // park at the n-th CLOCK_MONOTONIC read from now
thread_local int tlStallMaxMs = 0;       // upper bound of the park
thread_local bool tlStallUntilLife = false;
thread_local StallCtl *tlStallCtl = nullptr;
thread_local bool tlStalled = false;
thread_local int tlParkGen0 = 0, tlParkGen1 = 0; // lifecycle generation when the park began / ended

inline int realClockGettime(clockid_t clk, struct timespec *ts)
{
  return static_cast<int>(::syscall(SYS_clock_gettime, clk, ts));
}
inline std::int64_t rawNowNs()
{
  struct timespec ts;
  realClockGettime(CLOCK_MONOTONIC, &ts);
  return static_cast<std::int64_t>(ts.tv_sec) * 1000000000LL + ts.tv_nsec;
}
} // namespace

extern "C" int clock_gettime(clockid_t clk, struct timespec *ts)
{
  int r = realClockGettime(clk, ts);
  if (tlStallAtCall > 0 && clk == CLOCK_MONOTONIC && --tlStallAtCall == 0 && tlStallCtl)
  {
    // value already read (stale after the park, like a pre-emption after the read)
    StallCtl *ctl = tlStallCtl;
    int gen0 = ctl->lifeGen.load();
    tlParkGen0 = gen0;
    std::int64_t until = rawNowNs() + static_cast<std::int64_t>(tlStallMaxMs) * 1000000LL;
    tlStalled = true;
    for (;;)
    {
      if (ctl->abort.load()) break;
      if (tlStallUntilLife && ctl->lifeGen.load() != gen0) break;
      if (rawNowNs() >= until) break;
      struct timespec sl{0, 200000};
      ::nanosleep(&sl, nullptr);
    }
    tlParkGen1 = ctl->lifeGen.load();
  }
  return r;
}

namespace
{

using Clock = std::chrono::steady_clock;
using ns = std::chrono::nanoseconds;
constexpr std::int64_t MS = 1000000LL;

inline std::int64_t nowNs() { return rawNowNs(); }
inline void sleepNs(std::int64_t d)
{
  if (d > 0) std::this_thread::sleep_for(ns(d));
}
inline void sleepUntilNs(std::int64_t t)
{
  std::int64_t n = nowNs();
  if (t > n) sleepNs(t - n);
}
int threadTag()
{
  static std::atomic<int> next{1};
  thread_local int tag = next.fetch_add(1);
  return tag;
}

// ------------------------------------------------------------------------------- plan
enum Act
{
  A_NONE = 0,
  A_CHILD = 1,      // schedule slot `target` from inside the handler
  A_CANCEL = 2,     // cancel slot `target` from inside the handler
  A_RESCHED = 3,    // wheel: reschedule slot `target` to argNs
  A_CANCEL_SELF = 4, // periodic: cancel itself at the k-th firing
  A_THROW = 5       // throw after having run
};

struct SlotPlan
{
  int kind = 0;              // 0 one-shot, 1 periodic (TimerService only)
  int api = 0;               // TimerService: 0 scheduleAfter, 1 scheduleAt
  std::int64_t delayNs = 0;  // delay / interval (scheduleAt: offset from the clock read)
  int sleepMs = 0;           // handler duration (sleep after the action)
  int preSleepMs = 0;        // sleep before the action (wheel: the action then happens while the wheel lags)
  int action = A_NONE;
  int target = -1;
  int k = 0;
  std::int64_t argNs = 0;
  int stallAt = 0;           // park the scheduling call at its n-th clock read (0 = never)
  int stallMs = 0;
  bool stallUntilLife = false;
  bool isChild = false;
  int eqSlot = -1;           // TimerService scheduleAt: use exactly the absolute deadline of that slot
};

enum OpCode
{
  O_SCHED = 0,
  O_CANCEL,
  O_CANCEL_AT,  // cancel at (deadline lower bound of target + offNs)
  O_RESCHED,    // wheel
  O_SLEEP,
  O_DRAIN,
  O_STOP
};

struct Op
{
  int actor = 0;
  std::int64_t gapNs = 0;  // pause before the op
  int code = O_SLEEP;
  int slot = -1;
  std::int64_t arg = 0;    // cancel-at offset / new delay / drain timeout ms / sleep ns
};

struct Plan
{
  bool wheel = false;
  // wheel configuration
  int tickMs = 1, ticksPerWheel = 2, numWheels = 1;
  bool inlineDispatcher = false;
  bool viaAdapter = false;   // call through TimingWheelAdapter (ITimerService)
  // service configuration
  int poolSize = 0;  // 0 = single TimerService
  int poolSelect = 0; // how services are obtained from the pool: 0 getService (round robin), 1 getLeastLoadedService, 2 mixed per slot
  // TimerServiceConfig (every field the config has)
  bool cfgStats = true, cfgDetailedLog = false, cfgThrowOnSysErr = false, cfgSetPrio = false, cfgCustomLogger = false;
  int cfgMaxEpollEvents = 16, cfgEpollTimeoutMs = -1, cfgHeapCap = 256, cfgThreadName = 0;
  int cfgMaxTimers = 10000, cfgMaxPeriodic = 1000, cfgMaxHeap = 50000, cfgMaxTimeoutMin = 24 * 60, cfgMaxHandlerMs = 30000;
  bool wheelErrorCb = false; // TimingWheel::setErrorCallback
  int nActors = 1;
  std::vector<SlotPlan> slots;
  std::vector<Op> ops;
  bool restart = false;       // after the final stop: reset + start + one more timer
  int postStopProbes = 1;     // schedule attempts after the final stop (must be refused)
  int periodicLoadPct = 0;    // generator bookkeeping: utilisation of never-cancelled slow periodic timers

  std::int64_t tickNs() const { return tickMs * MS; }
  std::int64_t rangeNs() const
  {
    std::int64_t r = tickNs();
    for (int i = 0; i < numWheels; ++i) r *= ticksPerWheel;
    return r;
  }
};

std::string fmtMs(std::int64_t nsv)
{
  char b[48];
  std::snprintf(b, sizeof b, "%.3fms", static_cast<double>(nsv) / 1e6);
  return b;
}

std::string renderPlan(const Plan &p)
{
  pbt::Fmt f;
  if (p.wheel)
    f << "TimingWheel(tick=" << p.tickMs << "ms,ticksPerWheel=" << p.ticksPerWheel << ",numWheels=" << p.numWheels
      << (p.inlineDispatcher ? ",inline-dispatcher" : "") << (p.viaAdapter ? ",via-adapter" : "")
      << (p.wheelErrorCb ? ",error-callback" : "") << ")";
  else
  {
    if (p.poolSize)
      f << "TimerServicePool(" << p.poolSize << "," << (p.poolSelect == 0 ? "getService" : p.poolSelect == 1 ? "getLeastLoadedService" : "mixed-selection") << ")";
    else
      f << "TimerService";
    f << "{stats=" << p.cfgStats << ",detailedLog=" << p.cfgDetailedLog << ",throwOnSysErr=" << p.cfgThrowOnSysErr
      << ",setPrio=" << p.cfgSetPrio << ",customLogger=" << p.cfgCustomLogger << ",maxEpollEvents=" << p.cfgMaxEpollEvents
      << ",epollTimeout=" << p.cfgEpollTimeoutMs << "ms,heapCap=" << p.cfgHeapCap << ",threadName=" << p.cfgThreadName
      << ",maxTimers=" << p.cfgMaxTimers << ",maxPeriodic=" << p.cfgMaxPeriodic << ",maxHeap=" << p.cfgMaxHeap
      << ",maxTimeout=" << p.cfgMaxTimeoutMin << "min,maxHandler=" << p.cfgMaxHandlerMs << "ms}";
  }
  f << " actors=" << p.nActors << (p.restart ? " restart" : "") << " probes=" << p.postStopProbes << "\n slots:";
  for (std::size_t i = 0; i < p.slots.size(); ++i)
  {
    const SlotPlan &s = p.slots[i];
    f << " #" << i << "{" << (s.kind ? "periodic " : (p.wheel ? "schedule " : (s.api ? "at " : "after ")))
      << fmtMs(s.delayNs);
    if (s.action == A_CHILD) f << " h:sched#" << s.target;
    if (s.action == A_CANCEL) f << " h:cancel#" << s.target;
    if (s.action == A_RESCHED) f << " h:resched#" << s.target << "->" << fmtMs(s.argNs);
    if (s.action == A_CANCEL_SELF) f << " h:cancel-self@" << s.k;
    if (s.action == A_THROW) f << " h:throw";
    if (s.preSleepMs) f << " h:presleep" << s.preSleepMs << "ms";
    if (s.sleepMs) f << " h:sleep" << s.sleepMs << "ms";
    if (s.stallAt) f << " stall@clk" << s.stallAt << (s.stallUntilLife ? "-until-lifecycle/" : "/") << s.stallMs << "ms";
    if (s.eqSlot >= 0) f << " deadline==#" << s.eqSlot;
    if (s.isChild) f << " child";
    f << "}";
  }
  f << "\n ops:";
  for (const Op &o : p.ops)
  {
    f << " [a" << o.actor;
    if (o.gapNs) f << " +" << fmtMs(o.gapNs);
    switch (o.code)
    {
    case O_SCHED: f << " sched#" << o.slot; break;
    case O_CANCEL: f << " cancel#" << o.slot; break;
    case O_CANCEL_AT: f << " cancel#" << o.slot << "@deadline" << (o.arg >= 0 ? "+" : "") << fmtMs(o.arg); break;
    case O_RESCHED: f << " resched#" << o.slot << "->" << fmtMs(o.arg); break;
    case O_SLEEP: f << " sleep" << fmtMs(o.arg); break;
    case O_DRAIN: f << " drain(" << o.arg << "ms)"; break;
    case O_STOP: f << " stop"; break;
    }
    f << "]";
  }
  return f.str();
}

// ------------------------------------------------------------------------------ trace
enum Ev
{
  E_SCHED_BEGIN,
  E_SCHED_END,    // a = id
  E_CANCEL_BEGIN,
  E_CANCEL_END,   // a = result, b = seq of begin
  E_RESCHED_BEGIN, // a = new delay ns
  E_RESCHED_END,  // a = result, b = seq of begin
  E_ENTRY,        // a = post-quiesce flag at entry, b = n-th firing
  E_EXIT,         // a = post-quiesce flag at exit
  E_LIFE_BEGIN,   // a = kind (0 drain, 1 stop, 2 restart), b = arg
  E_LIFE_END,     // a = kind, b = (quiesced ? 1 : 0) | (lifecycle generation after the call << 1)
  E_SETTLED,      // settle phase over (everything that had to run was waited for)
  E_PARK          // the scheduling call of `slot` was parked inside iora: a = lifecycle generation at park begin, b = at park end
};
const char *evName(int e)
{
  static const char *n[] = {"sched>", "sched<", "cancel>", "cancel<", "resched>", "resched<",
                            "ENTRY", "EXIT", "life>", "life<", "settled", "parked"};
  return n[e];
}

struct Event
{
  int type;
  int slot;
  int thread;
  std::int64_t ts;
  std::int64_t a, b;
};

struct Trace
{
  std::mutex mu;
  std::vector<Event> ev;
  std::size_t add(int type, int slot, std::int64_t ts, std::int64_t a = 0, std::int64_t b = 0)
  {
    int th = threadTag();
    std::lock_guard<std::mutex> lk(mu);
    ev.push_back(Event{type, slot, th, ts, a, b});
    return ev.size() - 1;
  }
};

// ------------------------------------------------------------------------------ slots
struct Slot
{
  SlotPlan p;
  std::atomic<std::uint64_t> id{0};
  std::atomic<int> st{0};            // 0 not scheduled, 1 call in progress, 2 accepted, 3 refused
  std::atomic<std::int64_t> tBefore{0};
  std::atomic<int> fired{0};
  std::atomic<int> inc{0};
  std::atomic<TimerService *> svc{nullptr};
  std::atomic<bool> cancelOk{false};
  std::atomic<std::int64_t> absDeadline{0}; // requested deadline on the steady clock (lower bound: clock read before the call + delay)
};

struct Ctx;
using Fn = std::function<void()>;

struct Target
{
  virtual ~Target() = default;
  virtual std::uint64_t schedule(Slot &s, Fn fn) = 0;
  virtual bool cancel(Slot &s, std::uint64_t id) = 0;
  virtual bool reschedule(Slot &, std::uint64_t, std::int64_t) { return false; }
  // returns true when the call guarantees quiescence (no handler running or starting later)
  virtual bool drain(std::int64_t timeoutMs) = 0;
  virtual bool stop() = 0;
  virtual bool restart() = 0;            // reset + start; false if not possible
  virtual long leftovers() = 0;          // timers still registered inside a stopped service
  // schedule a 0-delay probe timer on the service that hosts slot `s` (liveness witness)
  virtual bool probe(Slot &s, Fn fn) = 0;
  virtual void destroy() = 0;
};

struct QuietLogger : iora::core::TimerLogger
{
  std::atomic<long> n{0};
  void log(Level, const std::string &, iora::core::TimerError, int) override { n.fetch_add(1); }
};

struct SvcTarget : Target
{
  std::unique_ptr<TimerService> single;
  std::unique_ptr<TimerServicePool> pool;
  int poolSelect = 0;
  std::mutex seenMu;
  std::vector<TimerService *> all; // services that were handed out (the pool offers no enumeration;
                                   // enumerating through getService() would move its round-robin cursor)

  static iora::core::TimerServiceConfig makeConfig(const Plan &p)
  {
    iora::core::TimerServiceConfig c;
    c.maxEpollEvents = p.cfgMaxEpollEvents;
    c.throwOnSystemError = p.cfgThrowOnSysErr;
    c.epollTimeout = std::chrono::milliseconds(p.cfgEpollTimeoutMs);
    c.initialHeapCapacity = static_cast<std::size_t>(p.cfgHeapCap);
    c.enableStatistics = p.cfgStats;
    c.enableDetailedLogging = p.cfgDetailedLog;
    c.limits.maxConcurrentTimers = static_cast<std::size_t>(p.cfgMaxTimers);
    c.limits.maxPeriodicTimers = static_cast<std::size_t>(p.cfgMaxPeriodic);
    c.limits.maxHeapSize = static_cast<std::size_t>(p.cfgMaxHeap);
    c.limits.maxTimeout = std::chrono::minutes(p.cfgMaxTimeoutMin);
    c.limits.maxHandlerExecutionTime = std::chrono::milliseconds(p.cfgMaxHandlerMs);
    c.setThreadPriority = p.cfgSetPrio; // priority 0 is not a valid SCHED_FIFO priority: exercises the path, changes nothing
    c.threadPriority = 0;
    c.threadName = p.cfgThreadName == 0 ? "TimerService" : p.cfgThreadName == 1 ? "" : "c08-a-thread-name-longer-than-15";
    return c;
  }

  explicit SvcTarget(const Plan &p) : poolSelect(p.poolSelect)
  {
    auto cfg = makeConfig(p);
    if (p.poolSize > 0)
    {
      if (p.cfgCustomLogger)
        pool = std::make_unique<TimerServicePool>(static_cast<std::size_t>(p.poolSize), cfg, std::make_shared<QuietLogger>());
      else
        pool = std::make_unique<TimerServicePool>(static_cast<std::size_t>(p.poolSize), cfg);
    }
    else
    {
      if (p.cfgCustomLogger)
        single = std::make_unique<TimerService>(cfg, std::make_shared<QuietLogger>());
      else
        single = std::make_unique<TimerService>(cfg);
      all.push_back(single.get());
    }
  }
  TimerService &pick(Slot &s, int idx)
  {
    if (!pool) return *single;
    bool least = poolSelect == 1 || (poolSelect == 2 && ((s.p.delayNs / MS) + idx) % 2);
    TimerService &t = least ? pool->getLeastLoadedService() : pool->getService();
    std::lock_guard<std::mutex> lk(seenMu);
    bool known = false;
    for (auto *k : all)
      if (k == &t) known = true;
    if (!known) all.push_back(&t);
    return t;
  }
  std::uint64_t schedule(Slot &s, Fn fn) override
  {
    TimerService &t = pick(s, s.p.kind + s.p.api);
    s.svc.store(&t);
    if (s.p.kind == 1) return t.schedulePeriodic(ns(s.p.delayNs), std::move(fn));
    if (s.p.api == 1)
      return t.scheduleAt(Clock::time_point(ns(s.absDeadline.load())), std::move(fn));
    return t.scheduleAfter(ns(s.p.delayNs), std::move(fn));
  }
  bool cancel(Slot &s, std::uint64_t id) override
  {
    TimerService *t = s.svc.load();
    return t ? t->cancel(id) : false;
  }
  bool drain(std::int64_t timeoutMs) override
  {
    if (pool) return false;
    auto r = single->drain(static_cast<std::uint32_t>(timeoutMs));
    return r.success;
  }
  bool stop() override
  {
    if (pool)
      pool->stop();
    else
      single->stop();
    return true;
  }
  bool restart() override
  {
    if (pool) return false;
    if (!single->reset().success) return false;
    return single->start().success;
  }
  long leftovers() override
  {
    long n = 0;
    std::lock_guard<std::mutex> lk(seenMu);
    for (auto *t : all) n += static_cast<long>(t->getInFlightCount());
    return n;
  }
  bool probe(Slot &s, Fn fn) override
  {
    TimerService *t = s.svc.load();
    return t && t->scheduleAfter(ns(0), std::move(fn)) != 0;
  }
  void destroy() override
  {
    single.reset();
    pool.reset();
  }
};

struct WheelTarget : Target
{
  std::unique_ptr<TimingWheel> w;
  std::unique_ptr<iora::core::TimingWheelAdapter> ad;
  std::atomic<long> errors{0};
  explicit WheelTarget(const Plan &p)
  {
    TimingWheel::Dispatcher d;
    if (p.inlineDispatcher) d = [](TimingWheel::Callback cb) { cb(); };
    w = std::make_unique<TimingWheel>(std::chrono::milliseconds(p.tickMs), static_cast<std::size_t>(p.ticksPerWheel),
                                      static_cast<std::size_t>(p.numWheels), d);
    if (p.viaAdapter) ad = std::make_unique<iora::core::TimingWheelAdapter>(*w);
    if (p.wheelErrorCb) w->setErrorCallback([this](iora::core::TimerId, std::exception_ptr) { errors.fetch_add(1); });
    w->start();
  }
  std::uint64_t schedule(Slot &s, Fn fn) override
  {
    if (ad) return static_cast<iora::core::ITimerService &>(*ad).schedule(std::chrono::milliseconds(s.p.delayNs / MS), std::move(fn));
    return w->schedule(std::chrono::milliseconds(s.p.delayNs / MS), std::move(fn));
  }
  bool cancel(Slot &, std::uint64_t id) override { return ad ? ad->cancel(id) : w->cancel(id); }
  bool reschedule(Slot &, std::uint64_t id, std::int64_t d) override
  {
    return ad ? ad->reschedule(id, std::chrono::milliseconds(d / MS)) : w->reschedule(id, std::chrono::milliseconds(d / MS));
  }
  bool drain(std::int64_t timeoutMs) override
  {
    w->drain(std::chrono::milliseconds(timeoutMs));
    return true; // tick thread joined, callbacks fired inline
  }
  bool stop() override
  {
    w->stop();
    return true;
  }
  bool restart() override
  {
    if (w->getState() != iora::core::TimingWheelState::STOPPED) return false;
    w->reset();
    w->start();
    return w->getState() == iora::core::TimingWheelState::RUNNING;
  }
  long leftovers() override { return static_cast<long>(w->pendingCount()); }
  bool probe(Slot &, Fn fn) override { return w->schedule(std::chrono::milliseconds(0), std::move(fn)) != 0; }
  void destroy() override
  {
    ad.reset();
    w.reset();
  }
};

// -------------------------------------------------------------------------- execution
struct Ctx : std::enable_shared_from_this<Ctx>
{
  Plan plan;
  Trace trace;
  std::vector<std::unique_ptr<Slot>> slots;
  std::unique_ptr<Target> target;
  std::atomic<int> curInc{0};
  std::atomic<int> quiescedInc{-1};
  std::atomic<bool> stoppedForGood{false};
  std::atomic<std::int64_t> maxStopNs{0};
  StallCtl stall;

  bool quiesced(const Slot &s) const { return quiescedInc.load() >= s.inc.load(); }

  void onFire(int idx)
  {
    std::int64_t ts = nowNs();
    Slot &s = *slots[idx];
    bool post = quiesced(s);
    int n = s.fired.fetch_add(1) + 1;
    trace.add(E_ENTRY, idx, ts, post ? 1 : 0, n);
    const SlotPlan &b = s.p;
    if (b.preSleepMs > 0) sleepNs(b.preSleepMs * MS);
    switch (b.action)
    {
    case A_CHILD: doSchedule(b.target); break;
    case A_CANCEL: doCancel(b.target); break;
    case A_RESCHED: doResched(b.target, b.argNs); break;
    case A_CANCEL_SELF:
      // from the k-th firing on, until it succeeded (the id may not be published yet at the first firing)
      if (n >= b.k && !s.cancelOk.load()) doCancel(idx);
      break;
    default: break;
    }
    if (b.sleepMs > 0) sleepNs(b.sleepMs * MS);
    bool post2 = quiesced(s);
    trace.add(E_EXIT, idx, nowNs(), post2 ? 1 : 0, n);
    if (b.action == A_THROW) throw std::runtime_error("c08 handler exception");
  }

  void doSchedule(int idx)
  {
    if (idx < 0 || idx >= static_cast<int>(slots.size())) return;
    Slot &s = *slots[idx];
    int expected = 0;
    if (!s.st.compare_exchange_strong(expected, 1)) return; // each slot is scheduled at most once
    s.inc.store(curInc.load());
    auto self = shared_from_this();
    Fn fn = [self, idx]() { self->onFire(idx); };
    std::int64_t tb = nowNs();
    s.tBefore.store(tb);
    std::int64_t dl = tb + s.p.delayNs;
    if (s.p.eqSlot >= 0 && s.p.eqSlot < static_cast<int>(slots.size()) && s.p.api == 1 && s.p.kind == 0)
    {
      std::int64_t other = slots[s.p.eqSlot]->absDeadline.load();
      if (other != 0) dl = other; // exactly equal deadlines (may already be in the past: fine)
    }
    s.absDeadline.store(dl);
    trace.add(E_SCHED_BEGIN, idx, tb, dl);
    if (s.p.stallAt > 0)
    {
      tlStallCtl = &stall;
      tlStallMaxMs = s.p.stallMs;
      tlStallUntilLife = s.p.stallUntilLife;
      tlStalled = false;
      tlStallAtCall = s.p.stallAt;
    }
    std::uint64_t id = target->schedule(s, std::move(fn));
    tlStallAtCall = 0;
    bool stalled = tlStalled;
    tlStalled = false;
    if (stalled) trace.add(E_PARK, idx, nowNs(), tlParkGen0, tlParkGen1);
    s.id.store(id);
    s.st.store(id ? 2 : 3);
    trace.add(E_SCHED_END, idx, nowNs(), static_cast<std::int64_t>(id), stalled ? 1 : 0);
  }

  void doCancel(int idx)
  {
    if (idx < 0 || idx >= static_cast<int>(slots.size())) return;
    Slot &s = *slots[idx];
    std::uint64_t id = s.id.load();
    if (s.st.load() != 2 || id == 0) return;
    if (s.inc.load() != curInc.load()) return; // ids of an earlier incarnation are not reused by the plan
    std::size_t sb = trace.add(E_CANCEL_BEGIN, idx, nowNs());
    bool ok = target->cancel(s, id);
    if (ok) s.cancelOk.store(true);
    trace.add(E_CANCEL_END, idx, nowNs(), ok ? 1 : 0, static_cast<std::int64_t>(sb));
  }

  void doResched(int idx, std::int64_t newDelay)
  {
    if (idx < 0 || idx >= static_cast<int>(slots.size())) return;
    Slot &s = *slots[idx];
    std::uint64_t id = s.id.load();
    if (s.st.load() != 2 || id == 0) return;
    if (s.inc.load() != curInc.load()) return;
    std::int64_t tb = nowNs();
    std::size_t sb = trace.add(E_RESCHED_BEGIN, idx, tb, newDelay);
    bool ok = target->reschedule(s, id, newDelay);
    trace.add(E_RESCHED_END, idx, nowNs(), ok ? 1 : 0, static_cast<std::int64_t>(sb));
  }

  // lifecycle calls are only made by one thread at a time (controller / main)
  void doLife(int kind, std::int64_t arg)
  {
    int inc = curInc.load();
    trace.add(E_LIFE_BEGIN, -1, nowNs(), kind, arg);
    bool q = false;
    if (kind == 0)
      q = target->drain(arg);
    else if (kind == 1)
    {
      std::int64_t s0 = nowNs();
      q = target->stop();
      stoppedForGood.store(true);
      maxStopNs.store(std::max(maxStopNs.load(), nowNs() - s0));
    }
    if (q) quiescedInc.store(inc);
    int genAfter = stall.lifeGen.fetch_add(1) + 1;
    trace.add(E_LIFE_END, -1, nowNs(), kind, (q ? 1 : 0) | (static_cast<std::int64_t>(genAfter) << 1));
  }

  std::int64_t lowerBound(const Slot &s, std::int64_t tBefore, std::int64_t delay) const
  {
    (void)s;
    std::int64_t lb = tBefore + delay;
    if (plan.wheel) lb -= plan.tickNs(); // the wheel may be up to one tick early
    return lb;
  }

  void actor(int a)
  {
    for (const Op &o : plan.ops)
    {
      if (o.actor != a) continue;
      sleepNs(o.gapNs);
      switch (o.code)
      {
      case O_SCHED: doSchedule(o.slot); break;
      case O_CANCEL: doCancel(o.slot); break;
      case O_CANCEL_AT:
      {
        if (o.slot < 0 || o.slot >= static_cast<int>(slots.size())) break;
        Slot &s = *slots[o.slot];
        if (s.st.load() == 2)
        {
          std::int64_t dl = s.absDeadline.load() + o.arg;
          std::int64_t cap = nowNs() + 60 * MS; // never wait long for a far deadline
          sleepUntilNs(std::min(dl, cap));
        }
        doCancel(o.slot);
        break;
      }
      case O_RESCHED: doResched(o.slot, o.arg); break;
      case O_SLEEP: sleepNs(o.arg); break;
      case O_DRAIN: doLife(0, o.arg); break;
      case O_STOP: doLife(1, 0); break;
      }
    }
  }
};

// ----------------------------------------------------------------------------- oracle
struct SlotView
{
  long schedBegin = -1, schedEnd = -1;
  std::uint64_t id = 0;
  std::int64_t tBefore = 0;
  std::int64_t absDeadline = 0;
  std::vector<long> entries;                         // seq of entry events
  std::vector<long> entryPrev;                       // seq of the predecessor on the same thread
  std::vector<long> cancelOk, cancelFail;            // seq of cancel-end events
  struct Rs { long sb, se; std::int64_t lb; };
  std::vector<Rs> reschedOk;
  bool anyReschedAttempt = false;
};

std::string dumpTrace(const Trace &t, std::int64_t t0, std::size_t maxEvents = 170)
{
  pbt::Fmt f;
  std::size_t n = t.ev.size();
  const std::size_t head = 50;
  for (std::size_t i = 0; i < n; ++i)
  {
    if (n > maxEvents && i == head)
    {
      f << "...(" << (n - maxEvents) << " events omitted) ";
      i = n - (maxEvents - head);
    }
    const Event &e = t.ev[i];
    f << i << ":" << evName(e.type);
    if (e.slot >= 0) f << "#" << e.slot;
    f << "@" << fmtMs(e.ts - t0) << "/t" << e.thread;
    if (e.type == E_SCHED_END) f << "=id" << e.a;
    if (e.type == E_CANCEL_END || e.type == E_RESCHED_END) f << "=" << (e.a ? "true" : "false");
    if (e.type == E_ENTRY || e.type == E_EXIT) f << (e.a ? "!POST" : "");
    if (e.type == E_LIFE_BEGIN) f << (e.a == 0 ? "drain" : e.a == 1 ? "stop" : "restart") << "(" << e.b << ")";
    if (e.type == E_LIFE_END)
      f << (e.a == 0 ? "drain" : e.a == 1 ? "stop" : "restart") << ((e.b & 1) ? "=quiesced" : "") << "/gen" << (e.b >> 1);
    if (e.type == E_PARK) f << "[gen" << e.a << "->gen" << e.b << "]";
    f << " ";
  }
  return f.str();
}

struct Verdict
{
  bool cascade = false, catchup = false, nearCancel = false, codue = false;
};

// Evaluate every oracle on the finished trace. `pfx` = "C08/svc" | "C08/wheel".
void evaluate(Ctx &x, pbt::Case &c, const std::string &pfx, bool lostChecked, const std::vector<int> &lostSlots,
              const std::string &settleInfo, Verdict &v)
{
  const Plan &plan = x.plan;
  const std::vector<Event> &ev = x.trace.ev;
  std::int64_t t0 = ev.empty() ? 0 : ev[0].ts;
  std::vector<SlotView> sv(x.slots.size());
  std::map<int, long> lastOnThread;
  std::vector<std::pair<long, long>> life; // (begin seq, end seq) with kind
  std::vector<int> lifeKind, lifeQ;
  long pendingLifeBegin = -1;
  for (long i = 0; i < static_cast<long>(ev.size()); ++i)
  {
    const Event &e = ev[i];
    if (e.slot >= 0 && e.slot < static_cast<int>(sv.size()))
    {
      SlotView &s = sv[e.slot];
      switch (e.type)
      {
      case E_SCHED_BEGIN: s.schedBegin = i; s.tBefore = e.ts; s.absDeadline = e.a; break;
      case E_SCHED_END: s.schedEnd = i; s.id = static_cast<std::uint64_t>(e.a); break;
      case E_CANCEL_END: (e.a ? s.cancelOk : s.cancelFail).push_back(i); break;
      case E_RESCHED_BEGIN: s.anyReschedAttempt = true; break;
      case E_RESCHED_END:
        if (e.a)
        {
          const Event &b = ev[e.b];
          s.reschedOk.push_back({static_cast<long>(e.b), i, x.lowerBound(*x.slots[e.slot], b.ts, b.a)});
        }
        break;
      case E_ENTRY:
      {
        s.entries.push_back(i);
        auto it = lastOnThread.find(e.thread);
        s.entryPrev.push_back(it == lastOnThread.end() ? -1 : it->second);
        break;
      }
      default: break;
      }
    }
    if (e.type == E_LIFE_BEGIN) pendingLifeBegin = i;
    if (e.type == E_LIFE_END)
    {
      life.emplace_back(pendingLifeBegin, i);
      lifeKind.push_back(static_cast<int>(e.a));
      lifeQ.push_back(static_cast<int>(e.b & 1));
    }
    lastOnThread[e.thread] = i;
  }

  auto fail = [&](const std::string &sig, const std::string &what)
  { c.fail(pfx + "/" + sig, what + "\n trace: " + dumpTrace(x.trace, t0)); };

  for (std::size_t si = 0; si < sv.size(); ++si)
  {
    SlotView &s = sv[si];
    const SlotPlan &sp = plan.slots[si];
    if (s.schedBegin < 0) continue;
    const bool accepted = s.id != 0;
    // ---- (G) scheduling that began after a quiescing lifecycle call returned must be refused
    bool afterQuiesce = false;
    {
      // the service is "stopped" from the end of a successful drain/stop until a restart ends
      bool stopped = false;
      for (std::size_t k = 0; k < life.size(); ++k)
      {
        if (life[k].second > s.schedBegin) break;
        if (lifeKind[k] == 2)
          stopped = false;
        else if (lifeQ[k])
          stopped = true;
      }
      // a restart in progress at schedBegin does not count as stopped (not generated anyway)
      afterQuiesce = stopped;
    }
    if (afterQuiesce && accepted)
    {
      fail("accepted-after-stop",
           pbt::Fmt() << "slot #" << si << ": schedule call began after stop()/drain() had returned, yet it returned the valid id "
                      << s.id << " (handler ran " << s.entries.size() << " times) - must be refused");
      return;
    }
    if (!accepted)
    {
      if (!s.entries.empty())
      {
        fail("refused-but-fired", pbt::Fmt() << "slot #" << si << ": schedule returned the refusal value but the handler ran");
        return;
      }
      continue;
    }
    // ---- (F) no handler starts / is running after stop or a successful drain returned
    for (long eseq : s.entries)
    {
      if (ev[eseq].a)
      {
        fail("handler-started-after-stop",
             pbt::Fmt() << "slot #" << si << ": handler entry observed the flag set after stop()/drain() returned");
        return;
      }
    }
    for (long i = 0; i < static_cast<long>(ev.size()); ++i)
      if (ev[i].type == E_EXIT && ev[i].slot == static_cast<int>(si) && ev[i].a)
      {
        fail("handler-running-when-stop-returned",
             pbt::Fmt() << "slot #" << si << ": handler was still running after stop()/drain() returned (flag seen at handler exit)");
        return;
      }
    // ---- (A) one-shot: at most once
    if (sp.kind == 0 && s.entries.size() > 1)
    {
      fail("fired-twice", pbt::Fmt() << "slot #" << si << ": one-shot handler ran " << s.entries.size() << " times");
      return;
    }
    // ---- (B) never early
    std::int64_t lbInitial = x.lowerBound(*x.slots[si], s.absDeadline, 0);
    std::int64_t lbMin = lbInitial;
    std::int64_t lbEffective = lbInitial;
    if (!s.reschedOk.empty())
    {
      // candidates: successful reschedules not superseded by a later successful one that
      // began after they returned
      lbEffective = INT64_MAX;
      for (auto &r : s.reschedOk)
      {
        lbMin = std::min(lbMin, r.lb);
        bool superseded = false;
        for (auto &r2 : s.reschedOk)
          if (r2.sb > r.se) superseded = true;
        if (!superseded) lbEffective = std::min(lbEffective, r.lb);
      }
    }
    if (sp.kind == 0)
    {
      for (long eseq : s.entries)
      {
        if (ev[eseq].ts < lbEffective)
        {
          std::int64_t early = lbEffective - ev[eseq].ts;
          std::string kind = "early-fire";
          if (plan.wheel && !s.reschedOk.empty()) kind = "early-fire-after-reschedule";
          fail(kind, pbt::Fmt() << "slot #" << si << ": handler entered " << fmtMs(early)
                                << " before the earliest permitted instant (clock read before the "
                                << (s.reschedOk.empty() ? "schedule" : "reschedule") << " call + delay"
                                << (plan.wheel ? " - one tick" : "") << "); requested delay " << fmtMs(sp.delayNs));
          return;
        }
      }
    }
    else
    {
      for (std::size_t k = 0; k < s.entries.size(); ++k)
      {
        std::int64_t lbk = s.tBefore + static_cast<std::int64_t>(k + 1) * sp.delayNs;
        if (ev[s.entries[k]].ts < lbk)
        {
          fail("periodic-early", pbt::Fmt() << "slot #" << si << ": firing " << (k + 1) << " of the periodic timer entered "
                                            << fmtMs(lbk - ev[s.entries[k]].ts) << " before t_schedule + " << (k + 1) << " * "
                                            << fmtMs(sp.delayNs));
          return;
        }
      }
    }
    // ---- (C) cancel returned true => the old schedule's handler never STARTS afterwards
    for (long cseq : s.cancelOk)
    {
      for (std::size_t k = 0; k < s.entries.size(); ++k)
      {
        long eseq = s.entries[k];
        std::int64_t earliest = sp.kind == 0 ? lbMin : s.tBefore + static_cast<std::int64_t>(k + 1) * sp.delayNs;
        bool hb = s.entryPrev[k] >= cseq;        // something on the handler's thread, before the entry, is after the cancel
        bool byTime = ev[cseq].ts < earliest;    // cancel returned before this firing may legally start
        if (hb || byTime)
        {
          fail(sp.kind == 0 ? "fired-after-cancel" : "periodic-fired-after-cancel",
               pbt::Fmt() << "slot #" << si << ": cancel() returned true (event " << cseq << "), yet firing " << (k + 1)
                          << " started afterwards (event " << eseq << "; proof: "
                          << (hb ? "the handler's thread executed event " + std::to_string(s.entryPrev[k]) + " after the cancel returned and before this entry"
                                 : "cancel returned before the earliest instant this firing may start")
                          << ")");
          return;
        }
      }
    }
    // ---- (C') reschedule returned true => old schedule never starts: covered by (A)+(B):
    //      a single execution, not before the lower bound of the effective reschedule.
    // ---- (D) cancel returned false on a running service => runs exactly once
    if (sp.kind == 0 && s.cancelOk.empty() && !s.cancelFail.empty() && s.entries.empty())
    {
      // only cancels that returned before any lifecycle call began
      long firstLife = life.empty() ? LONG_MAX : life[0].first;
      bool counted = false;
      for (long cseq : s.cancelFail)
        if (cseq < firstLife) counted = true;
      if (counted)
      {
        // the service has been stopped since: nothing can run any more
        fail("cancel-false-never-ran",
             pbt::Fmt() << "slot #" << si << ": cancel() returned false on a running service (before any drain/stop began) "
                        << "but the handler had not run when stop() returned - it never will");
        return;
      }
    }
  }
  // ---- (E) never silently dropped while the service runs (bounded wait happened in settle)
  if (lostChecked && !lostSlots.empty())
  {
    pbt::Fmt f;
    f << "timers accepted on a running service (no lifecycle call, no successful cancel) that had not fired 1.5 s after the "
         "latest deadline and still had not after the same service fired 8 probe timers scheduled later (or a probe stalled for 30 s):";
    for (int si : lostSlots) f << " #" << si << "(delay " << fmtMs(plan.slots[si].delayNs) << ")";
    f << " [" << settleInfo << "]";
    c.failTimed(pfx + "/timer-lost", f.str() + "\n trace: " + dumpTrace(x.trace, t0));
    return;
  }

  // ---- classification (non-trivial rule), measured on what really happened
  for (std::size_t si = 0; si < sv.size(); ++si)
  {
    SlotView &s = sv[si];
    const SlotPlan &sp = plan.slots[si];
    if (!s.id) continue;
    if (plan.wheel && plan.numWheels > 1 && sp.delayNs >= plan.tickNs() * plan.ticksPerWheel && !s.entries.empty())
      v.cascade = true;
    if (plan.wheel && sp.sleepMs >= 2 * plan.tickMs && !s.entries.empty()) v.catchup = true;
    std::int64_t dl = s.absDeadline;
    for (long i = 0; i < static_cast<long>(ev.size()); ++i)
      if (ev[i].type == E_CANCEL_END && ev[i].slot == static_cast<int>(si))
      {
        std::int64_t tb = ev[ev[i].b].ts;
        if ((tb >= dl - MS && tb <= dl + MS) || (ev[i].ts >= dl - MS && ev[i].ts <= dl + MS)) v.nearCancel = true;
      }
    // co-due with a slow handler: this timer's deadline fell inside another handler's run of >= 5 ms
    if (sp.sleepMs >= 5 && !s.entries.empty())
    {
      std::int64_t in = ev[s.entries[0]].ts, out = in + sp.sleepMs * MS;
      for (std::size_t sj = 0; sj < sv.size(); ++sj)
      {
        if (sj == si || !sv[sj].id) continue;
        std::int64_t d2 = sv[sj].absDeadline;
        if (d2 >= in - MS && d2 <= out) v.codue = true;
      }
    }
  }
}

// run one plan against the real code and judge it
void runPlan(const Plan &plan, pbt::Case &c)
{
  const std::string pfx = plan.wheel ? "C08/wheel" : "C08/svc";
  c.describe(renderPlan(plan));
  pbt::watchdog(400, pfx + "/case-hung");

  auto x = std::make_shared<Ctx>();
  x->plan = plan;
  for (const SlotPlan &sp : plan.slots)
  {
    auto s = std::make_unique<Slot>();
    s->p = sp;
    x->slots.push_back(std::move(s));
  }
  if (plan.wheel)
    x->target = std::make_unique<WheelTarget>(plan);
  else
    x->target = std::make_unique<SvcTarget>(plan);

  // ---- phase A: actors
  {
    std::vector<std::thread> th;
    for (int a = 1; a < plan.nActors; ++a) th.emplace_back([x, a] { x->actor(a); });
    x->actor(0);
    for (auto &t : th) t.join();
  }

  // ---- settle: while the service is still running, everything that must run is waited for
  bool lostChecked = false;
  bool stalled = false;   // a liveness probe did not fire within 30 s
  int probeRounds = 0;
  std::vector<int> lost;
  auto settle = [&]()
  {
    // Exempt from the "must run" rule: successfully cancelled timers, far-future timers,
    // and timers whose scheduling began before a lifecycle call (drain/stop) ended -
    // drain legitimately cancels pending timers, even when it then times out.
    std::vector<char> need(x->slots.size(), 0);
    std::int64_t latest = nowNs();
    {
      std::lock_guard<std::mutex> lk(x->trace.mu);
      const auto &ev = x->trace.ev;
      std::vector<long> sb(x->slots.size(), -1);
      std::vector<char> reschedFar(x->slots.size(), 0);
      long lastLifeEnd = -1;
      for (long i = 0; i < static_cast<long>(ev.size()); ++i)
      {
        const Event &e = ev[i];
        if (e.type == E_SCHED_BEGIN) sb[e.slot] = i;
        if (e.type == E_RESCHED_BEGIN && e.a > 150 * MS) reschedFar[e.slot] = 1;
        if (e.type == E_LIFE_END) lastLifeEnd = i;
      }
      for (std::size_t si = 0; si < x->slots.size(); ++si)
      {
        Slot &s = *x->slots[si];
        if (s.st.load() != 2 || sb[si] < 0) continue;
        if (s.inc.load() != x->curInc.load()) continue;
        if (s.p.delayNs > 150 * MS || reschedFar[si]) continue;
        if (s.absDeadline.load() - s.tBefore.load() > 150 * MS) continue; // deadline copied from a far-future slot
        if (sb[si] < lastLifeEnd) continue;
        need[si] = 1;
        latest = std::max(latest, s.absDeadline.load());
      }
    }
    auto missing = [&](std::size_t si)
    { return need[si] && x->slots[si]->fired.load() == 0 && !x->slots[si]->cancelOk.load(); };
    auto anyMissing = [&]()
    {
      for (std::size_t si = 0; si < need.size(); ++si)
        if (missing(si)) return true;
      return false;
    };
    // (1) plain wait: until everything ran, at most until the latest deadline + 1.5 s
    std::int64_t until = latest + 1500 * MS;
    while (anyMissing() && nowNs() <= until) sleepNs(300000);
    // (2) A wall-clock bound alone is not sound on an oversubscribed (virtual) machine: a
    //     service thread can be kept off the CPU for seconds. The remaining wait is therefore
    //     measured in *progress of the service itself*: 8 rounds of "schedule a 0-delay probe
    //     timer on the service that hosts the missing timer, wait until the probe has fired
    //     (cap 30 s), pause longer than the wheel's worst cascade lateness". A timer that is
    //     still missing after the same service has demonstrably fired 8 later-scheduled
    //     timers is lost. A probe that does not fire within 30 s => the service stalled.
    if (anyMissing())
    {
      std::int64_t pause = 25 * MS;
      if (plan.wheel)
      {
        std::int64_t span = plan.tickNs();
        for (int i = 1; i < plan.numWheels; ++i) span *= plan.ticksPerWheel;
        pause += std::min<std::int64_t>(span * plan.ticksPerWheel, 200 * MS);
      }
      for (int round = 0; round < 8 && anyMissing() && !stalled; ++round)
      {
        std::vector<std::shared_ptr<std::atomic<bool>>> flags;
        std::vector<TimerService *> probed;
        for (std::size_t si = 0; si < need.size(); ++si)
        {
          if (!missing(si)) continue;
          TimerService *host = x->slots[si]->svc.load();
          bool dup = false;
          for (auto *h : probed)
            if (h == host) dup = true;
          if (dup && !plan.wheel) continue;
          if (plan.wheel && !flags.empty()) continue;
          probed.push_back(host);
          auto f = std::make_shared<std::atomic<bool>>(false);
          if (x->target->probe(*x->slots[si], [f] { f->store(true); })) flags.push_back(f);
        }
        std::int64_t cap = nowNs() + 30000 * MS;
        for (;;)
        {
          bool all = true;
          for (auto &f : flags)
            if (!f->load()) all = false;
          if (all) break;
          if (nowNs() > cap) { stalled = true; break; }
          sleepNs(300000);
        }
        ++probeRounds;
        if (!stalled) sleepNs(pause);
      }
    }
    for (std::size_t si = 0; si < need.size(); ++si)
      if (missing(si)) lost.push_back(static_cast<int>(si));
    lostChecked = true;
    x->trace.add(E_SETTLED, -1, nowNs());
  };

  const bool running = x->quiescedInc.load() < x->curInc.load() && !x->stoppedForGood.load();
  if (running) settle();

  // ---- final stop
  if (!x->stoppedForGood.load()) x->doLife(1, 0);
  long leftover = x->target->leftovers();
  if (x->maxStopNs.load() > 4000 * MS)
  {
    // TimerService::stop() gives its internal drain 5 s; beyond that records may legitimately remain
    leftover = 0;
    c.label("final stop took > 4 s (leftover check skipped)");
  }

  // ---- scheduling on a stopped service must be refused
  std::vector<int> probeSlots;
  for (std::size_t si = 0; si < x->slots.size(); ++si)
    if (x->slots[si]->st.load() == 0 && !plan.slots[si].isChild) probeSlots.push_back(static_cast<int>(si));
  int probes = 0;
  for (int si : probeSlots)
  {
    if (probes >= plan.postStopProbes) break;
    x->doSchedule(si);
    ++probes;
  }

  // ---- optional restart: timers of the first incarnation must stay dead
  bool restarted = false;
  if (plan.restart && lost.empty())
  {
    x->trace.add(E_LIFE_BEGIN, -1, nowNs(), 2, 0);
    restarted = x->target->restart();
    if (restarted)
    {
      x->curInc.fetch_add(1);
      x->stoppedForGood.store(false);
    }
    x->trace.add(E_LIFE_END, -1, nowNs(), 2, 0);
    if (restarted)
    {
      // one fresh short timer that must run in the new incarnation
      int fresh = -1;
      for (std::size_t si = 0; si < x->slots.size(); ++si)
        if (x->slots[si]->st.load() == 0 && !plan.slots[si].isChild) { fresh = static_cast<int>(si); break; }
      if (fresh >= 0)
      {
        x->doSchedule(fresh);
        if (x->slots[fresh]->st.load() != 2) c.label("schedule refused after restart (not a C08 clause)");
      }
      // give leftovers of the first incarnation the chance to show up
      sleepNs((plan.wheel ? 3 * plan.tickNs() : 3 * MS));
      lost.clear();
      settle();
      x->doLife(1, 0);
    }
  }

  // stragglers: a handler that starts after stop() returned sees the flag
  sleepNs(2 * MS);
  x->stall.abort.store(true);

  Verdict v;
  if (!c.failed())
  {
    std::lock_guard<std::mutex> lk(x->trace.mu);
    evaluate(*x, c, pfx, lostChecked, lost,
             (pbt::Fmt() << "probe rounds completed: " << probeRounds << (stalled ? ", last probe did NOT fire within 30 s" : ", every probe fired")).str(),
             v);
    if (!c.failed())
    {
      // A scheduling call that was parked at its clock read - i.e. after iora's lock-free
      // accepting check, before its mutex - until a quiescing lifecycle call (stop, or a
      // successful drain) had RETURNED did all of its registering afterwards. If it still
      // returned a valid id, a stopped service accepted a timer (and it is lost: nothing
      // runs any more). Proof by lifecycle generations: the quiescing call's generation
      // lies in (generation at park begin, generation at park end].
      const auto &ev = x->trace.ev;
      std::int64_t t0 = ev.empty() ? 0 : ev[0].ts;
      for (long i = 0; i < static_cast<long>(ev.size()) && !c.failed(); ++i)
      {
        if (ev[i].type != E_PARK) continue;
        int slot = ev[i].slot;
        Slot &sl = *x->slots[slot];
        if (sl.st.load() != 2 || sl.fired.load() != 0) continue;
        for (const Event &l : ev)
          if (l.type == E_LIFE_END && (l.b & 1) && l.a != 2 && (l.b >> 1) > ev[i].a && (l.b >> 1) <= ev[i].b)
          {
            c.fail(pfx + "/accepted-into-stopped-service",
                   (pbt::Fmt() << "slot #" << slot << ": the schedule call was parked inside iora at its clock read (after the "
                               << "lock-free accepting check, before the mutex) until " << (l.a == 1 ? "stop()" : "a successful drain()")
                               << " had returned; it then registered the timer and returned the valid id " << sl.id.load()
                               << " - accepted by a stopped service; the handler never ran (timers still registered after stop: "
                               << leftover << ")\n trace: " << dumpTrace(x->trace, t0))
                     .str());
            break;
          }
      }
      if (leftover != 0) c.label("timers still registered after stop() (informational)");
    }
  }

  // labels + non-trivial
  {
    std::lock_guard<std::mutex> lk(x->trace.mu);
    std::size_t nEntry = 0, nCancelT = 0, nCancelF = 0, nRsT = 0, nRsF = 0, nRefused = 0, nStalled = 0, nAcc = 0;
    for (const Event &e : x->trace.ev)
    {
      if (e.type == E_ENTRY) ++nEntry;
      if (e.type == E_CANCEL_END) (e.a ? nCancelT : nCancelF)++;
      if (e.type == E_RESCHED_END) (e.a ? nRsT : nRsF)++;
      if (e.type == E_SCHED_END) (e.a ? nAcc : nRefused)++;
      if (e.type == E_SCHED_END && e.b) ++nStalled;
    }
    if (nEntry) c.label("handler ran");
    if (nCancelT) c.label("cancel returned true");
    if (nCancelF) c.label("cancel returned false");
    if (nRsT) c.label("reschedule returned true");
    if (nRsF) c.label("reschedule returned false");
    if (nRefused) c.label("schedule refused (stopped service)");
    if (nStalled) c.label("schedule call parked inside iora");
    if (restarted) c.label("restart (reset+start)");
    if (probeRounds) c.label("settle needed liveness probes (slow machine)");
    if (stalled) c.label("liveness probe stalled 30 s");
    if (plan.poolSize) c.label(plan.poolSelect == 0 ? "pool: getService only" : plan.poolSelect == 1 ? "pool: getLeastLoadedService only" : "pool: mixed selection");
    if (!plan.wheel && !plan.cfgStats) c.label("config: statistics off");
    if (!plan.wheel && plan.cfgMaxTimers < 100) c.label("config: tight limits");
    bool earlyLife = false, drainFail = false, drainOk = false;
    for (const Event &e : x->trace.ev)
    {
      if (e.type == E_SETTLED) break;
      if (e.type == E_LIFE_END && e.a == 0) ((e.b & 1) ? drainOk : drainFail) = true;
      if (e.type == E_LIFE_END && e.a == 1) earlyLife = true;
    }
    if (earlyLife) c.label("scripted stop with timers pending");
    if (drainOk) c.label("scripted drain succeeded");
    if (drainFail) c.label("scripted drain timed out");
    if (v.cascade) c.label("NT cascade (delay >= ticksPerWheel*tick fired)");
    if (v.catchup) c.label("NT catch-up (callback >= 2 ticks)");
    if (v.nearCancel) c.label("NT cancel within 1 ms of the deadline");
    if (v.codue) c.label("NT co-due timers with a slow handler");
    if (v.cascade || v.catchup || v.nearCancel || v.codue) c.nontrivial(pbt::hash64(c.description));
  }

  // break the Ctx <-> handler cycle and join everything
  x->target->destroy();
  x->target.reset();
}

// -------------------------------------------------------------------------- generators
std::int64_t svcDelay(std::int64_t code)
{
  static const std::int64_t table[] = {0, 1, 2, 3, 5, 8, 10, 15, 20, 30, 1, 2, 4, 6, 12, 25};
  code %= 40;
  if (code < 32) return table[code % 16] * MS + (code >= 16 ? 500000 : 0);
  if (code < 35) return -5 * MS;             // past
  if (code < 37) return -3600LL * 1000 * MS; // far past
  if (code < 39) return 0;
  return 3600LL * 1000 * MS;                 // far future: must never fire
}

void addSvcBehaviour(Plan &p, SlotPlan &s, std::int64_t b, std::int64_t cc, bool periodic)
{
  int m = static_cast<int>(b % 20);
  if (periodic)
  {
    int iv = static_cast<int>(s.delayNs / MS);
    if (m < 8) return;
    if (m < 12)
    {
      // A periodic timer that is never cancelled must not overload the service thread (its
      // backlog would grow without bound and starve every other timer): handler <= interval/2
      // and the summed utilisation of all such timers in the plan <= 60 %.
      int sl = 1 + static_cast<int>(cc % std::max(1, iv / 2));
      if (sl * 2 <= iv && p.periodicLoadPct + sl * 100 / iv <= 60)
      {
        s.sleepMs = sl;
        p.periodicLoadPct += sl * 100 / iv;
      }
      return;
    }
    // self-cancelling timers are bounded, their handler may outlast the interval (backlog => batches)
    int cap = iv * 5 / 2;
    s.action = A_CANCEL_SELF;
    s.k = 1 + static_cast<int>(cc % 4);
    if (m >= 14) s.sleepMs = 1 + static_cast<int>((cc / 4) % cap);
    return;
  }
  if (m < 8) return;
  if (m < 12)
  {
    static const int sl[] = {1, 3, 10, 30};
    s.sleepMs = sl[cc % 4];
    return;
  }
  if (m < 15 && !p.slots.empty())
  {
    s.action = A_CANCEL;
    s.target = static_cast<int>(cc % p.slots.size());
    s.sleepMs = (cc / 64) % 2 ? 3 : 0;
    return;
  }
  if (m < 18)
  {
    // schedule-from-handler: the child slot follows the parent
    s.action = A_CHILD;
    s.target = -2; // fixed up by the caller (index of the next slot)
    return;
  }
  if (m == 18) s.action = A_THROW;
}

// a scheduling call parked "until the next lifecycle call" needs one: the controller stops
// the service shortly after its last operation (otherwise the park only ends by time-out)
void appendStopForParkedCalls(Plan &p)
{
  bool parked = false, hasLife = false;
  std::int64_t g = 0;
  for (const SlotPlan &s : p.slots)
    if (s.stallAt && s.stallUntilLife) { parked = true; g = s.delayNs; }
  for (const Op &o : p.ops)
    if (o.code == O_STOP) hasLife = true;
  if (!parked || hasLife) return;
  Op o;
  o.actor = 0;
  o.gapNs = (1 + (g / MS) % 8) * MS;
  o.code = O_STOP;
  p.ops.push_back(o);
}

Plan genSvc(pbt::Src &src)
{
  Plan p;
  p.wheel = false;
  p.nActors = static_cast<int>(src.range(1, 4));
  p.poolSize = src.coin(1, 3) ? static_cast<int>(src.range(1, 4)) : 0;
  p.poolSelect = static_cast<int>(src.range(0, 2));
  // TimerServiceConfig: every field, defaults most likely
  p.cfgStats = !src.coin(1, 3);
  p.cfgDetailedLog = src.coin(1, 4);
  p.cfgThrowOnSysErr = src.coin(1, 4);
  p.cfgSetPrio = src.coin(1, 6);
  p.cfgCustomLogger = src.coin(1, 4);
  p.cfgMaxEpollEvents = src.oneOf<int>({16, 16, 1, 2, 64});
  p.cfgEpollTimeoutMs = src.oneOf<int>({-1, -1, -1, 1, 7}); // 0 would busy-poll
  p.cfgHeapCap = src.oneOf<int>({256, 256, 0, 1, 4096});
  p.cfgThreadName = static_cast<int>(src.weighted({4, 1, 1}));
  if (src.coin(1, 6))
  {
    // tight limits: scheduling may be refused on a running service (refusal is not a C08 violation)
    p.cfgMaxTimers = src.oneOf<int>({10000, 6, 3});
    p.cfgMaxPeriodic = src.oneOf<int>({1000, 1, 2});
    p.cfgMaxHeap = src.oneOf<int>({50000, 4});
    p.cfgMaxTimeoutMin = src.oneOf<int>({24 * 60, 10});
    p.cfgMaxHandlerMs = src.oneOf<int>({30000, 1});
  }
  p.restart = src.coin(1, 8);
  p.postStopProbes = static_cast<int>(src.range(0, 2));
  const bool lifecycle = src.coin(1, 2); // scripted drain/stop while timers are pending
  auto rows = src.rows(28, 6, 0, 9999);
  auto addSlot = [&](SlotPlan s) -> int
  {
    p.slots.push_back(s);
    int idx = static_cast<int>(p.slots.size()) - 1;
    if (s.action == A_CHILD && s.target == -2)
    {
      SlotPlan ch;
      ch.isChild = true;
      ch.kind = 0;
      ch.api = 0;
      ch.delayNs = svcDelay(idx * 7 + 3);
      if (ch.delayNs > 100 * MS) ch.delayNs = 2 * MS;
      p.slots.push_back(ch);
      p.slots[idx].target = idx + 1;
    }
    return idx;
  };
  static const std::int64_t gaps[] = {0, 0, 0, 200000, 1 * MS, 2 * MS, 3 * MS, 5 * MS};
  for (auto &r : rows)
  {
    Op o;
    o.actor = static_cast<int>(r[0] % p.nActors);
    o.gapNs = gaps[r[1] % 8];
    int op = static_cast<int>(r[2] % 100);
    std::int64_t a = r[3], b = r[4], cc = r[5];
    if (op < 30)
    {
      SlotPlan s;
      s.kind = 0;
      s.api = static_cast<int>((b / 20) % 2);
      s.delayNs = svcDelay(a);
      if (s.api == 1 && (b / 40) % 4 == 0 && !p.slots.empty()) s.eqSlot = static_cast<int>((b / 160) % p.slots.size());
      addSvcBehaviour(p, s, b, cc, false);
      o.code = O_SCHED;
      o.slot = addSlot(s);
    }
    else if (op < 40)
    {
      SlotPlan s;
      s.kind = 1;
      s.delayNs = (2 + a % 9) * MS;
      addSvcBehaviour(p, s, b, cc, true);
      o.code = O_SCHED;
      o.slot = addSlot(s);
    }
    else if (op < 55)
    {
      if (p.slots.empty()) continue;
      o.code = O_CANCEL;
      o.slot = static_cast<int>(a % p.slots.size());
    }
    else if (op < 68)
    {
      if (p.slots.empty()) continue;
      o.code = O_CANCEL_AT;
      o.slot = static_cast<int>(a % p.slots.size());
      o.arg = (b % 2001 - 1000) * 1000; // +-1 ms around the deadline
    }
    else if (op < 76)
    {
      o.code = O_SLEEP;
      o.arg = (a % 15) * MS;
    }
    else if (op < 84)
    {
      // co-due shape: a slow handler and a victim due at the same instant, the victim is
      // cancelled while the slow handler runs
      std::int64_t d = (1 + a % 8) * MS;
      SlotPlan slow;
      slow.api = static_cast<int>((b / 21) % 2);
      slow.delayNs = d;
      slow.sleepMs = 10 + static_cast<int>(b % 21);
      SlotPlan vic;
      vic.kind = static_cast<int>(cc % 2);
      vic.delayNs = vic.kind ? std::max<std::int64_t>(d, 2 * MS) : d;
      if (!vic.kind && slow.api == 1)
      {
        vic.api = 1;
        vic.eqSlot = static_cast<int>(p.slots.size()); // the slow slot about to be added
      }
      if (vic.kind && (cc / 2) % 2) vic.sleepMs = 1 + static_cast<int>((cc / 4) % 4);
      o.code = O_SCHED;
      o.slot = addSlot(slow);
      p.ops.push_back(o);
      Op o2;
      o2.actor = o.actor;
      o2.code = O_SCHED;
      o2.slot = addSlot(vic);
      p.ops.push_back(o2);
      Op o3;
      o3.actor = static_cast<int>((cc / 32) % p.nActors);
      o3.code = O_CANCEL_AT;
      o3.slot = o2.slot;
      o3.arg = (1 + (cc / 128) % (slow.sleepMs + 8)) * MS;
      p.ops.push_back(o3);
      continue;
    }
    else if (op < 92)
    {
      // lifecycle calls only from the controller (actor 0), and only in some plans
      static const std::int64_t tmo[] = {1, 3, 10, 100, 1000};
      if (o.actor != 0 || p.poolSize || !lifecycle) { o.code = O_SLEEP; o.arg = MS; }
      else { o.code = O_DRAIN; o.arg = tmo[a % 5]; }
    }
    else if (op < 96)
    {
      if (o.actor != 0 || !lifecycle) { o.code = O_SLEEP; o.arg = MS; }
      else o.code = O_STOP;
    }
    else
    {
      SlotPlan s;
      s.kind = static_cast<int>((b / 7) % 5 == 0);
      s.api = static_cast<int>(b % 2);
      s.delayNs = s.kind ? (2 + a % 9) * MS : (a % 6) * MS;
      s.stallAt = 1 + static_cast<int>(cc % 2);
      s.stallUntilLife = (cc / 2) % 2;
      s.stallMs = s.stallUntilLife ? 120 : 1 + static_cast<int>((cc / 4) % 40);
      o.code = O_SCHED;
      o.slot = addSlot(s);
    }
    p.ops.push_back(o);
  }
  appendStopForParkedCalls(p);
  // a few unscheduled top-level slots for the post-stop probes / the restart phase
  for (int i = 0; i < 3; ++i)
  {
    SlotPlan s;
    s.kind = (i == 1) ? 1 : 0;
    s.api = i == 2;
    s.delayNs = (i == 1 ? 2 : i) * MS;
    p.slots.push_back(s);
  }
  return p;
}

std::int64_t wheelDelay(const Plan &p, std::int64_t code, std::int64_t fine)
{
  std::int64_t tick = p.tickMs, n = p.ticksPerWheel;
  std::int64_t range = tick;
  for (int i = 0; i < p.numWheels; ++i) range *= n;
  std::int64_t d;
  switch (code % 10)
  {
  case 0: d = 0; break;
  case 1: d = fine % std::max<std::int64_t>(1, tick); break;          // below one tick
  case 2: d = (1 + fine % 3) * tick; break;                           // exact ticks
  case 3: d = (1 + fine % std::max<std::int64_t>(1, n - 1)) * tick + (fine / 8) % tick; break; // level 0, with remainder
  case 4: d = n * tick; break;                                        // first cascade slot
  case 5: d = n * tick + fine % (n * tick); break;                    // level 1
  case 6: d = (n - 1) * tick + fine % (2 * tick); break;              // around the level boundary
  case 7: d = n * n * tick + fine % (n * tick); break;                // level 2
  case 8: d = fine % 40; break;
  default: d = (fine % 8) * tick; break;
  }
  if (d > 90) d = 40 + d % 50;
  if (d >= range) d = range - 1; // in-tree callers clamp to the wheel range (implicit precondition)
  if (d < 0) d = 0;
  return d * MS;
}

Plan genWheel(pbt::Src &src)
{
  Plan p;
  p.wheel = true;
  p.tickMs = src.oneOf<int>({1, 2, 5});
  p.ticksPerWheel = src.oneOf<int>({2, 4, 8, 2, 4, 8, 16});
  p.numWheels = static_cast<int>(src.range(1, 3));
  p.inlineDispatcher = src.coin(1, 10);
  p.viaAdapter = src.coin(1, 6);
  p.wheelErrorCb = src.coin(1, 3);
  p.nActors = static_cast<int>(src.range(1, 4));
  p.restart = src.coin(1, 8);
  p.postStopProbes = static_cast<int>(src.range(0, 2));
  const bool lifecycle = src.coin(1, 2);
  auto rows = src.rows(28, 6, 0, 9999);
  auto addSlot = [&](SlotPlan s) -> int
  {
    p.slots.push_back(s);
    int idx = static_cast<int>(p.slots.size()) - 1;
    if (s.action == A_CHILD && s.target == -2)
    {
      SlotPlan ch;
      ch.isChild = true;
      ch.delayNs = wheelDelay(p, idx * 3 + 1, idx * 13 + 5);
      p.slots.push_back(ch);
      p.slots[idx].target = idx + 1;
    }
    return idx;
  };
  static const std::int64_t gaps[] = {0, 0, 0, 200000, 1 * MS, 2 * MS, 3 * MS, 5 * MS};
  for (auto &r : rows)
  {
    Op o;
    o.actor = static_cast<int>(r[0] % p.nActors);
    o.gapNs = gaps[r[1] % 8];
    int op = static_cast<int>(r[2] % 100);
    std::int64_t a = r[3], b = r[4], cc = r[5];
    if (op < 35)
    {
      SlotPlan s;
      s.delayNs = wheelDelay(p, a, b);
      int m = static_cast<int>(cc % 20);
      if (m < 7) {}
      else if (m < 12) s.sleepMs = static_cast<int>((cc / 20) % 11) * p.tickMs; // 0..10 ticks: forces catch-up
      else if (m < 14 && !p.slots.empty()) { s.action = A_CANCEL; s.target = static_cast<int>((cc / 20) % p.slots.size()); }
      else if (m < 16 && !p.slots.empty())
      {
        s.action = A_RESCHED;
        s.target = static_cast<int>((cc / 20) % p.slots.size());
        s.argNs = wheelDelay(p, cc / 7, cc / 3);
      }
      else if (m < 19)
      {
        s.action = A_CHILD;
        s.target = -2;
        int t = static_cast<int>((cc / 60) % 11) * p.tickMs;
        if ((cc / 20) % 3 == 0) s.sleepMs = t;
        if ((cc / 20) % 3 == 1) s.preSleepMs = t; // child is scheduled while the wheel lags
      }
      else s.action = A_THROW;
      o.code = O_SCHED;
      o.slot = addSlot(s);
    }
    else if (op < 50)
    {
      if (p.slots.empty()) continue;
      o.code = O_CANCEL;
      o.slot = static_cast<int>(a % p.slots.size());
    }
    else if (op < 60)
    {
      if (p.slots.empty()) continue;
      o.code = O_CANCEL_AT;
      o.slot = static_cast<int>(a % p.slots.size());
      o.arg = (b % 2001 - 1000) * 1000 - ((cc % 2) ? p.tickNs() : 0);
    }
    else if (op < 75)
    {
      if (p.slots.empty()) continue;
      o.code = O_RESCHED;
      o.slot = static_cast<int>(a % p.slots.size());
      o.arg = wheelDelay(p, b, cc);
    }
    else if (op < 82)
    {
      o.code = O_SLEEP;
      o.arg = (a % 15) * MS;
    }
    else if (op < 88)
    {
      static const std::int64_t tmo[] = {0, 1, 5, 1000, 1000};
      if (o.actor != 0 || !lifecycle) { o.code = O_SLEEP; o.arg = MS; }
      else { o.code = O_DRAIN; o.arg = tmo[a % 5]; }
    }
    else if (op < 92)
    {
      if (o.actor != 0 || !lifecycle) { o.code = O_SLEEP; o.arg = MS; }
      else o.code = O_STOP;
    }
    else if (op < 96)
    {
      SlotPlan s;
      s.delayNs = wheelDelay(p, a, b);
      s.stallAt = 1;
      s.stallUntilLife = cc % 2;
      s.stallMs = s.stallUntilLife ? 120 : 1 + static_cast<int>((cc / 4) % 40);
      o.code = O_SCHED;
      o.slot = addSlot(s);
    }
    else
    {
      // lag shape: a long callback, and a timer scheduled while the wheel is behind
      SlotPlan slow;
      slow.delayNs = 0;
      slow.sleepMs = (4 + static_cast<int>(a % 7)) * p.tickMs;
      o.code = O_SCHED;
      o.slot = addSlot(slow);
      p.ops.push_back(o);
      Op o2;
      o2.actor = static_cast<int>(b % p.nActors);
      o2.gapNs = (1 + (b / 4) % (slow.sleepMs + 2)) * MS;
      o2.code = O_SCHED;
      SlotPlan vic;
      vic.delayNs = wheelDelay(p, 3 + (cc % 3), cc / 3);
      o2.slot = addSlot(vic);
      p.ops.push_back(o2);
      continue;
    }
    p.ops.push_back(o);
  }
  appendStopForParkedCalls(p);
  for (int i = 0; i < 3; ++i)
  {
    SlotPlan s;
    s.delayNs = wheelDelay(p, i, 1);
    p.slots.push_back(s);
  }
  return p;
}

} // namespace

// ============================================================================ properties
PBT_PROPERTY(svc)
{
  Plan p = genSvc(src);
  runPlan(p, c);
}

PBT_PROPERTY(wheel)
{
  Plan p = genWheel(src);
  runPlan(p, c);
}

// TimerService::stop() whose internal drain(5000) times out (a handler blocks longer than
// the drain budget): afterwards the service is stopped and must refuse new timers.
namespace
{
void stopTimeoutCase(pbt::Case &c, int blockMs, int extraTimers, bool periodicToo, int probeKind)
{
  c.describe((pbt::Fmt() << "TimerService: handler blocks " << blockMs << " ms (> the 5 s drain budget inside stop()), "
                         << extraTimers << " further short timers" << (periodicToo ? " + one periodic" : "")
                         << "; stop(); then schedule (kind " << probeKind << ") must be refused")
               .str());
  pbt::watchdog(120, "C08/svc/case-hung");
  std::atomic<bool> stopReturned{false};
  std::atomic<int> lateStarts{0}, ran{0}, probeRan{0};
  std::atomic<bool> entered{false};
  auto svc = std::make_unique<TimerService>();
  svc->scheduleAfter(ns(0),
                     [&]
                     {
                       entered.store(true);
                       sleepNs(static_cast<std::int64_t>(blockMs) * MS);
                     });
  for (int i = 0; i < extraTimers; ++i)
    svc->scheduleAfter(ns((1 + i) * MS),
                       [&]
                       {
                         if (stopReturned.load()) lateStarts.fetch_add(1);
                         ran.fetch_add(1);
                       });
  if (periodicToo)
    svc->schedulePeriodic(ns(3 * MS),
                          [&]
                          {
                            if (stopReturned.load()) lateStarts.fetch_add(1);
                          });
  std::int64_t w0 = nowNs();
  while (!entered.load() && nowNs() - w0 < 10000 * MS) sleepNs(200000);
  if (!entered.load())
  {
    c.failTimed("C08/svc/timer-lost", "a 0 ms timer did not start within 10 s");
    return;
  }
  std::int64_t s0 = nowNs();
  svc->stop();
  stopReturned.store(true);
  std::int64_t stopTook = nowNs() - s0;
  c.label(stopTook >= 4900 * MS ? "stop(): internal drain timed out" : "stop(): internal drain completed");
  if (stopTook >= 4900 * MS) c.nontrivial(pbt::hash64(c.description));
  std::uint64_t id = 0;
  if (probeKind == 0)
    id = svc->scheduleAfter(ns(1 * MS), [&] { probeRan.fetch_add(1); });
  else if (probeKind == 1)
    id = svc->scheduleAt(Clock::now(), [&] { probeRan.fetch_add(1); });
  else
    id = svc->schedulePeriodic(ns(2 * MS), [&] { probeRan.fetch_add(1); });
  sleepNs(30 * MS);
  if (lateStarts.load())
    c.fail("C08/svc/handler-started-after-stop", "a handler started after stop() had returned");
  if (id != 0)
    c.fail("C08/svc/accepted-after-stop",
           (pbt::Fmt() << "stop() returned (its internal 5 s drain had timed out behind a " << blockMs
                       << " ms handler); a schedule call made afterwards returned the valid id " << id
                       << " instead of the refusal value; its handler ran " << probeRan.load()
                       << " times in the following 30 ms (the service thread is gone: the timer is lost)")
             .str());
  svc.reset();
}
} // namespace

PBT_PROPERTY(svc_stop_timeout)
{
  int blockMs = 5050 + static_cast<int>(src.range(0, 3)) * 100;
  int extra = static_cast<int>(src.range(0, 3));
  bool per = src.coin();
  int kind = static_cast<int>(src.range(0, 2));
  stopTimeoutCase(c, blockMs, extra, per, kind);
}

// ============================================================================ regressions
namespace
{
Op mkOp(int actor, std::int64_t gapNs, int code, int slot = -1, std::int64_t arg = 0)
{
  Op o;
  o.actor = actor;
  o.gapNs = gapNs;
  o.code = code;
  o.slot = slot;
  o.arg = arg;
  return o;
}
} // namespace

// S7: a timer scheduled (by another thread) while the wheel lags behind a long callback is
// fired by the catch-up loop many ticks early. tick 5 ms, 16 slots: #0 is a 160 ms callback
// (starts at ~5 ms); #1 (75 ms) is scheduled at ~125 ms, i.e. relative to a current tick that
// is 24 ticks stale; the advance() after the callback processes ~32 ticks at once and
// fires #1 at ~170 ms instead of >= 195 ms. (Best-effort timing; the next case is the
// deterministic shape.)
PBT_REGRESSION(wheel_early_fire_under_catchup)
{
  Plan p;
  p.wheel = true;
  p.tickMs = 5;
  p.ticksPerWheel = 16;
  p.numWheels = 2;
  p.nActors = 2;
  p.postStopProbes = 0;
  SlotPlan slow;
  slow.delayNs = 0;
  slow.sleepMs = 160;
  SlotPlan vic;
  vic.delayNs = 75 * MS;
  p.slots = {slow, vic};
  p.ops = {mkOp(0, 0, O_SCHED, 0), mkOp(1, 125 * MS, O_SCHED, 1), mkOp(0, 0, O_SLEEP, -1, 170 * MS)};
  runPlan(p, c);
}

// S7 through a cascade: the 39 ms timer is scheduled while the wheel lags (stale level-1
// tick => it lands in the level-1 bucket the catch-up loop reaches at its 2nd wrap); there
// it is not due, cascadeDown() re-inserts it 2 ticks ahead of the *mid-loop* current tick
// and a later iteration of the same loop fires it ~14 ms early. (Best-effort timing.)
PBT_REGRESSION(wheel_early_fire_cascade_during_catchup)
{
  Plan p;
  p.wheel = true;
  p.tickMs = 5;
  p.ticksPerWheel = 4;
  p.numWheels = 2;
  p.nActors = 2;
  p.postStopProbes = 0;
  SlotPlan slow;
  slow.delayNs = 0;
  slow.sleepMs = 100;
  SlotPlan vic;
  vic.delayNs = 39 * MS;
  p.slots = {slow, vic};
  p.ops = {mkOp(0, 0, O_SCHED, 0), mkOp(1, 85 * MS, O_SCHED, 1), mkOp(0, 0, O_SLEEP, -1, 130 * MS)};
  runPlan(p, c);
}

// S7, deterministic shape: the timer is scheduled from inside a long callback, at its end.
// After 60 ms inside the callback the wheel is 12 ticks behind; the 30 ms child lands 6
// ticks ahead of the stale current tick and the next advance() catches up 12+ ticks.
PBT_REGRESSION(wheel_early_fire_from_callback)
{
  Plan p;
  p.wheel = true;
  p.tickMs = 5;
  p.ticksPerWheel = 8;
  p.numWheels = 2;
  p.nActors = 1;
  p.postStopProbes = 0;
  SlotPlan parent;
  parent.delayNs = 0;
  parent.preSleepMs = 60;
  parent.action = A_CHILD;
  parent.target = 1;
  SlotPlan child;
  child.delayNs = 30 * MS;
  child.isChild = true;
  p.slots = {parent, child};
  p.ops = {mkOp(0, 0, O_SCHED, 0), mkOp(0, 0, O_SLEEP, -1, 70 * MS)};
  runPlan(p, c);
}

// S8: a periodic firing that was already collected still starts after cancel() returned
// true. Deterministic shape: one-shot A schedules the 2 ms periodic timer P from inside
// its handler and then keeps the service thread busy for 12 ms; when A returns, one collect
// pass gathers >= 6 firings of P at once. P's handler cancels P at its 2nd firing (cancel
// returns true on the service thread itself); firings 3.. of the same batch still start -
// strictly after the cancel returned (program order on one thread).
PBT_REGRESSION(svc_periodic_fires_after_cancel)
{
  Plan p;
  p.nActors = 1;
  p.postStopProbes = 0;
  SlotPlan a;
  a.delayNs = 0;
  a.action = A_CHILD;
  a.target = 1;
  a.sleepMs = 12;
  SlotPlan per;
  per.kind = 1;
  per.delayNs = 2 * MS;
  per.action = A_CANCEL_SELF;
  per.k = 2;
  per.isChild = true;
  p.slots = {a, per};
  p.ops = {mkOp(0, 0, O_SCHED, 0), mkOp(0, 0, O_SLEEP, -1, 30 * MS)};
  runPlan(p, c);
}

// S8, external canceller: a 10 ms blocker keeps the service thread busy while a slow
// one-shot (30 ms) and a 3 ms periodic timer become due; one collect pass then gathers
// [slow, periodic x3..]; another thread cancels the periodic timer while `slow` runs
// (cancel returns true); the collected firings still start after `slow` returned.
// (Best-effort timing; the previous case is the deterministic shape.)
PBT_REGRESSION(svc_periodic_fires_after_cancel_behind_slow_handler)
{
  Plan p;
  p.nActors = 2;
  p.postStopProbes = 0;
  SlotPlan blocker;
  blocker.delayNs = 0;
  blocker.sleepMs = 10;
  SlotPlan slow;
  slow.delayNs = 3 * MS;
  slow.sleepMs = 30;
  SlotPlan per;
  per.kind = 1;
  per.delayNs = 3 * MS;
  p.slots = {blocker, slow, per};
  p.ops = {mkOp(0, 0, O_SCHED, 0), mkOp(0, 0, O_SCHED, 1), mkOp(0, 0, O_SCHED, 2),
           mkOp(1, 1 * MS, O_CANCEL_AT, 2, 22 * MS), mkOp(0, 0, O_SLEEP, -1, 50 * MS)};
  runPlan(p, c);
}

// S9 (TimerService): stop() after its internal drain timed out leaves _accepting true.
PBT_REGRESSION(svc_stop_after_drain_timeout_accepts)
{
  stopTimeoutCase(c, 5100, 1, false, 0);
}

// S9 (TimingWheel): schedule() checks _accepting before taking the wheel mutex; a call
// pre-empted in between (parked at its clock read) inserts into a wheel that stop() has
// already cleared.
PBT_REGRESSION(wheel_schedule_races_stop)
{
  Plan p;
  p.wheel = true;
  p.tickMs = 2;
  p.ticksPerWheel = 4;
  p.numWheels = 2;
  p.nActors = 2;
  p.postStopProbes = 0;
  SlotPlan s;
  s.delayNs = 4 * MS;
  s.stallAt = 1;
  s.stallUntilLife = true;
  s.stallMs = 2000;
  p.slots = {s};
  p.ops = {mkOp(1, 0, O_SCHED, 0), mkOp(0, 20 * MS, O_STOP)};
  runPlan(p, c);
}

// same window in TimerService: here the re-check under the mutex exists and must refuse
PBT_REGRESSION(svc_schedule_races_stop)
{
  for (int api = 0; api < 3 && !c.failed(); ++api)
  {
    Plan p;
    p.nActors = 2;
    p.postStopProbes = 0;
    SlotPlan s;
    s.kind = api == 2;
    s.api = api == 1;
    s.delayNs = 3 * MS;
    s.stallAt = (api == 0) ? 2 : 1; // scheduleAfter reads the clock once before the accepting check
    s.stallUntilLife = true;
    s.stallMs = 2000;
    p.slots = {s};
    p.ops = {mkOp(1, 0, O_SCHED, 0), mkOp(0, 20 * MS, O_STOP)};
    runPlan(p, c);
  }
}

// Seeded change C08-I: with TimerServiceConfig::enableStatistics == false, cancel() of a
// pending one-shot returned false although the handler never runs ("if it reports failure
// on a running service the handler has run or will run exactly once").
PBT_REGRESSION(svc_cancel_pending_oneshot_without_statistics)
{
  for (int pool = 0; pool < 2 && !c.failed(); ++pool)
  {
    Plan p;
    p.nActors = 1;
    p.postStopProbes = 0;
    p.cfgStats = false;
    p.poolSize = pool ? 2 : 0;
    SlotPlan a;
    a.delayNs = 30 * MS;
    SlotPlan b;
    b.api = 1;
    b.delayNs = 25 * MS;
    p.slots = {a, b};
    p.ops = {mkOp(0, 0, O_SCHED, 0), mkOp(0, 0, O_SCHED, 1), mkOp(0, 1 * MS, O_CANCEL, 0), mkOp(0, 0, O_CANCEL, 1)};
    runPlan(p, c);
  }
}

// Seeded change C08-J: TimerServicePool::stop() stopped only the services its round-robin
// cursor had reached; a pool used through getLeastLoadedService() (which does not move the
// cursor) was not stopped at all: stop() returned at once, pending handlers started
// afterwards and the "stopped" pool accepted new timers.
PBT_REGRESSION(pool_stop_after_least_loaded_selection)
{
  Plan p;
  p.poolSize = 3;
  p.poolSelect = 1;
  p.nActors = 1;
  p.postStopProbes = 1;
  SlotPlan a;
  a.delayNs = 15 * MS;
  a.sleepMs = 5;
  SlotPlan probe;
  probe.delayNs = 1 * MS;
  p.slots = {a, probe};
  p.ops = {mkOp(0, 0, O_SCHED, 0), mkOp(0, 2 * MS, O_STOP)};
  runPlan(p, c);
}

// C08-J, mixed selection: one getService() call (cursor = 1), then a timer placed through
// getLeastLoadedService() on the second service, which such a stop() never reaches; the
// probe after stop() goes to that service through getService() and must be refused.
PBT_REGRESSION(pool_stop_with_fewer_round_robin_calls_than_services)
{
  Plan p;
  p.poolSize = 2;
  p.poolSelect = 2;
  p.nActors = 1;
  p.postStopProbes = 1;
  SlotPlan a; // (2 + 0) % 2 == 0 -> getService -> service 0
  a.delayNs = 2 * MS;
  SlotPlan b; // (21 + 0) % 2 == 1 -> getLeastLoadedService -> service 1 (service 0 has one pending timer)
  b.delayNs = 21 * MS;
  SlotPlan probe; // (2 + 0) % 2 == 0 -> getService -> cursor 1 -> service 1
  probe.delayNs = 2 * MS;
  p.slots = {a, b, probe};
  p.ops = {mkOp(0, 0, O_SCHED, 0), mkOp(0, 0, O_SCHED, 1), mkOp(0, 1 * MS, O_STOP)};
  runPlan(p, c);
}

// plain sanity: everything fires once, nothing early, stop refuses
PBT_REGRESSION(basic_svc)
{
  Plan p;
  p.nActors = 2;
  p.postStopProbes = 2;
  SlotPlan a;
  a.delayNs = 5 * MS;
  SlotPlan b;
  b.api = 1;
  b.delayNs = -5 * MS;
  SlotPlan per;
  per.kind = 1;
  per.delayNs = 2 * MS;
  SlotPlan probe1, probe2;
  probe2.kind = 1;
  probe2.delayNs = 2 * MS;
  p.slots = {a, b, per, probe1, probe2};
  p.ops = {mkOp(0, 0, O_SCHED, 0), mkOp(1, 0, O_SCHED, 1), mkOp(1, 0, O_SCHED, 2), mkOp(0, 12 * MS, O_CANCEL, 2)};
  runPlan(p, c);
}

PBT_REGRESSION(basic_wheel)
{
  Plan p;
  p.wheel = true;
  p.tickMs = 2;
  p.ticksPerWheel = 4;
  p.numWheels = 2;
  p.nActors = 1;
  p.postStopProbes = 1;
  p.restart = true;
  SlotPlan a;
  a.delayNs = 3 * MS;
  SlotPlan b;
  b.delayNs = 20 * MS; // level 1: cascades
  SlotPlan d;
  d.delayNs = 10 * MS;
  SlotPlan probe, fresh;
  fresh.delayNs = 2 * MS;
  p.slots = {a, b, d, probe, fresh};
  p.ops = {mkOp(0, 0, O_SCHED, 0), mkOp(0, 0, O_SCHED, 1), mkOp(0, 0, O_SCHED, 2), mkOp(0, 1 * MS, O_RESCHED, 2, 16 * MS)};
  runPlan(p, c);
}

PBT_MAIN()
