// C06 - UDP keeps datagram boundaries and the peer-to-session mapping.
//
// A real Transport::udp(cfg) with up to 2 listeners talks to up to 4 independent raw UDP sockets
// (harness/common/c01_rawpeer.hpp; two of them share a port number on different loopback
// addresses, two share an address). The plan is an operation history:
//   peer->listener datagram | peer->connected-session datagram | app send on a session |
//   connect | connectViaListener | close | burst (several of the above without waiting) |
//   EAGAIN script for the engine's next sendto/send calls (reaches the out-queues)
// and, in the `idle` property, idle expiry of some sessions while others are kept alive.
//
// Every datagram carries a one-byte stamp + content that is a function of (salt, stamp), so every
// onData and every datagram seen by a raw peer is attributable. The harness paces (waits for the
// arrival); a datagram that does not arrive is counted as lost, never flagged.
//
// Oracle, evaluated over the callback log in I/O-thread order (all callbacks come from the one
// I/O thread, so "session S is open" = no onClose(S) earlier in the log - no race with the harness):
//  (i)   each onData equals exactly one datagram a raw peer sent (never merged/split/truncated),
//        at most once, on a session whose peer address is the datagram's true source;
//  (ii)  continuity: if session S received the previous datagram of source P on the same
//        destination socket and S is still open, this datagram arrives on S as well - no new
//        accept, no other session - whatever was opened/closed in between;
//  (iii) every datagram a raw peer receives equals exactly one accepted app send, at most once,
//        and that raw peer is the peer of the session the send was issued on.
// Documented contract respected by the generator: zero-length sends are swallowed (not
// generated); datagrams are never larger than ioReadChunk; maxSessions = 0.
#include "c01_interpose_net.hpp"
#include "c01_rawpeer.hpp"
#include "pbt.hpp"

#include <iora/core/logger.hpp>
#include <iora/network/transport_impl.hpp>

#include <atomic>
#include <condition_variable>
#include <csignal>
#include <cstdlib>
#include <map>
#include <memory>
#include <mutex>
#include <set>
#include <thread>

namespace net = iora::network;
using rawpeer::Addr;
using rawpeer::Clock;
using rawpeer::msSince;

namespace
{

constexpr int kFastMs = 200;   // pacing bound of the design
constexpr int kSlowMs = 3000;  // full pacing bound: beyond this much OBSERVED waiting a datagram counts as lost (never a failure by itself)
constexpr int kCapGraceMs = 3; // datagram of a peer without receiving session while the engine is at maxSessions: refusal is documented, do not wait
constexpr int kSliceMs = 50;   // waiting is accounted in observed slices, so a frozen process/VM cannot fake a missed datagram
constexpr int kSilenceK = 4;   // this many consecutive paced datagrams missed by an OPEN receiving session = silenced
constexpr int kSetupMs = 10000;

inline std::uint64_t splitmix(std::uint64_t &x)
{
  x += 0x9E3779B97F4A7C15ULL;
  std::uint64_t z = x;
  z = (z ^ (z >> 30)) * 0xBF58476D1CE4E5B9ULL;
  z = (z ^ (z >> 27)) * 0x94D049BB133111EBULL;
  return z ^ (z >> 31);
}
std::vector<std::uint8_t> makeDatagram(std::uint32_t salt, unsigned stamp, std::size_t len)
{
  std::vector<std::uint8_t> v(len);
  std::uint64_t x = (std::uint64_t(salt) << 16) ^ (stamp * 0x9E3779B1ULL);
  for (std::size_t i = 0; i < len; i += 8)
  {
    std::uint64_t r = splitmix(x);
    std::memcpy(v.data() + i, &r, std::min<std::size_t>(8, len - i));
  }
  if (len) v[0] = static_cast<std::uint8_t>(stamp);
  return v;
}

// ------------------------------------------------------------------------------ plan
enum OpKind
{
  OpDgram = 0,      // a = peer, b = listener, c = size class
  OpDgramConn = 1,  // a = connected session (among open ones), c = size class
  OpSend = 2,       // a = session (among open ones), c = size class
  OpVia = 3,        // a = listener, b = peer
  OpConnect = 4,    // a = peer
  OpClose = 5,      // a = session (among open ones)
  OpBurst = 6,      // a = how many following data ops are issued without waiting
  OpAgain = 7,      // a = script selector
  OpIdle = 8,       // a = bit mask of peers whose traffic keeps flowing while the others go idle
  OpAlt = 9         // a,b = two peers sending alternately back to back (c: rounds, listener) without waiting in between
};
struct Op
{
  int kind = OpDgram;
  std::int64_t a = 0, b = 0, c = 0;
};
struct Plan
{
  bool et = true, batching = false;
  std::size_t readChunk = 65536;
  std::size_t maxWq = 1024;
  std::size_t maxSessions = 0; // UDP session cap (0 = unlimited)
  unsigned nListeners = 1, nPeers = 1;
  unsigned v6Mask = 0; // bit i: listener i is bound to '::' (IPv6 dual stack) instead of 127.0.0.1
  bool idle = false; // idleTimeout 1 s / gcInterval 1 s
  std::uint32_t salt = 0;
  std::vector<Op> ops;
};

std::string describe(const Plan &p)
{
  pbt::Fmt f;
  f << "UDP " << (p.et ? "ET" : "LT") << (p.batching ? " batching" : "") << " readChunk=" << p.readChunk << " maxWq=" << p.maxWq << " maxSessions=" << p.maxSessions
    << " listeners=" << p.nListeners << (p.v6Mask ? " v6mask=" + std::to_string(p.v6Mask) : std::string()) << " peers=" << p.nPeers << (p.idle ? " idleTimeout=1s" : "") << " salt=" << p.salt << " ops=[";
  static const char *nm[] = {"dgram", "dgramConn", "send", "via", "connect", "close", "burst", "eagain", "idle", "alt"};
  for (std::size_t i = 0; i < p.ops.size(); ++i)
  {
    const Op &o = p.ops[i];
    f << (i ? " " : "") << nm[o.kind] << "(" << o.a;
    if (o.kind == OpDgram || o.kind == OpVia || o.kind == OpAlt) f << "," << o.b;
    if (o.kind == OpAlt) f << "," << o.c;
    if (o.kind == OpDgram || o.kind == OpDgramConn || o.kind == OpSend) f << ",s" << o.c;
    f << ")";
  }
  f << "]";
  return f.str();
}

std::size_t sizeOf(std::int64_t cls, std::size_t cap)
{
  // cap = largest datagram the configuration can carry (min(65507, ioReadChunk))
  std::uint32_t v = static_cast<std::uint32_t>(cls >> 4);
  std::size_t n;
  switch (cls & 15)
  {
  case 0: n = 1; break;
  case 1: n = 2; break;
  case 2:
  case 3:
  case 4: n = 3 + v % 60; break;
  case 5:
  case 6: n = 64 + v % 1400; break;
  case 7: n = 1472; break;
  case 8: n = 1473; break;
  case 9: n = cap; break;
  case 10: n = cap - 1; break;
  case 11: n = 65507; break;
  case 12: n = 2000 + v % 63000; break;
  default: n = 1 + v % 1500; break;
  }
  if (n > cap) n = cap;
  if (n < 1) n = 1;
  return n;
}

// ------------------------------------------------------------------------ callback log
struct Ev
{
  enum K { Accept, Connect, Data, Close } k;
  net::SessionId sid = 0;
  std::string host;
  std::uint16_t port = 0;
  std::vector<std::uint8_t> bytes;
  int code = 0;
};
struct Log
{
  std::mutex mu;
  std::condition_variable cv;
  std::vector<Ev> evs;
  void push(Ev &&e)
  {
    {
      std::lock_guard<std::mutex> lk(mu);
      evs.push_back(std::move(e));
    }
    cv.notify_all();
  }
};

void oncePerProcess()
{
  static bool done = false;
  if (done) return;
  done = true;
  std::signal(SIGPIPE, SIG_IGN);
  iora::core::Logger::setLevel(iora::core::Logger::Level::Fatal);
}

Addr toAddr(const std::string &host, std::uint16_t port)
{
  in_addr a{};
  // a dual-stack ('::') listener reports IPv4 sources as v4-mapped addresses
  std::string h = host;
  if (h.size() > 7 && (h.compare(0, 7, "::ffff:") == 0 || h.compare(0, 7, "::FFFF:") == 0)) h = h.substr(7);
  if (::inet_pton(AF_INET, h.c_str(), &a) != 1) return Addr{0, port};
  return Addr{ntohl(a.s_addr), port};
}

// --------------------------------------------------------------------------- executor
struct Exec
{
  const Plan &p;
  pbt::Case &c;
  std::shared_ptr<Log> log = std::make_shared<Log>();
  std::shared_ptr<net::Transport> t;
  std::size_t logPos = 0;

  struct PeerSock
  {
    int fd = -1;
    Addr addr;
  };
  std::vector<PeerSock> peers;
  struct Lst
  {
    net::ListenerId id = 0;
    Addr addr;       // where the (IPv4) raw peers send to
    bool v6 = false; // bound to '::' (dual stack): sources are seen as ::ffff:a.b.c.d
  };
  std::vector<Lst> lst;

  struct Sess
  {
    net::SessionId sid = 0;
    int kind = 0; // 0 accepted, 1 via, 2 connected
    Addr peer;    // accepted: as announced by onAccept; via/connected: as requested by the harness
    Addr local;   // connected sessions: the engine's socket address
    bool announced = false;
    bool closedInLog = false;
    bool closeIssued = false;
    bool everReceived = false;
    bool fresh = false; // accepted and no data seen yet
    bool foreign = false; // peer is not one of the harness' raw sockets: traffic of some other process
  };
  std::map<net::SessionId, Sess> sess;

  struct Sent
  {
    bool toIora = true;   // raw peer -> iora (else app send -> raw peer)
    int peer = 0;         // source peer (toIora) / expected destination peer (app send)
    std::string dest;     // toIora: "L<i>" or "C<sid>"
    net::SessionId sid = 0; // app send: session it was issued on
    std::vector<std::uint8_t> payload;
    int delivered = 0;
    bool capMaybe = false; // issued while the engine was at maxSessions and no open session was receiving this source: refusal allowed
    Clock::time_point at;
  };
  std::vector<Sent> sent; // index = stamp
  using Key = std::pair<Addr, std::string>;
  std::map<Key, net::SessionId> lastRecv; // (source, destination socket) -> session
  std::map<Key, int> missed;               // consecutive paced datagrams of that key that did not arrive although lastRecv[key] is open
  std::size_t capRefused = 0, silencedProbes = 0;

  // statistics for labels / non-trivial rule
  std::size_t lostByClose = 0, fullTimeouts = 0, foreignSeen = 0;
  std::size_t lost = 0, slow = 0, delivered = 0, sendsArrived = 0, sendsLost = 0, dataAfterClose = 0;
  bool multiSessionPeer = false, closeBetween = false, crossListener = false;
  std::map<Addr, int> dgramsSeenFrom;           // for the "close of another session between two datagrams" rule
  std::map<Addr, bool> closeSinceLastDgram;
  bool stopCase = false;
  bool inBurst = false; // operations are being issued without waiting for their effect

  Exec(const Plan &pl, pbt::Case &cs) : p(pl), c(cs) {}

  std::size_t cap() const { return std::min<std::size_t>(65507, p.readChunk); }

  bool setup()
  {
    c01net::reset();
    c01net::harnessThread(true);
    c01net::arm(true);
    net::TransportConfig cfg;
    cfg.useEdgeTriggered = p.et;
    cfg.batching.enabled = p.batching;
    cfg.ioReadChunk = p.readChunk;
    cfg.maxWriteQueue = p.maxWq;
    cfg.closeOnBackpressure = true;
    cfg.maxSessions = p.maxSessions;
    if (p.idle)
    {
      cfg.idleTimeout = std::chrono::seconds(1);
      cfg.gcInterval = std::chrono::seconds(1);
    }
    t = net::Transport::udp(cfg);
    auto lg = log;
    t->onAccept([lg](net::SessionId sid, const net::TransportAddress &a) {
      Ev e;
      e.k = Ev::Accept;
      e.sid = sid;
      e.host = a.host;
      e.port = a.port;
      lg->push(std::move(e));
    });
    t->onConnect([lg](net::SessionId sid, const net::TransportAddress &a) {
      Ev e;
      e.k = Ev::Connect;
      e.sid = sid;
      e.host = a.host;
      e.port = a.port;
      lg->push(std::move(e));
    });
    t->onData([lg](net::SessionId sid, iora::core::BufferView d, std::chrono::steady_clock::time_point) {
      Ev e;
      e.k = Ev::Data;
      e.sid = sid;
      e.bytes.assign(d.data(), d.data() + d.size());
      lg->push(std::move(e));
    });
    t->onClose([lg](net::SessionId sid, const net::TransportErrorInfo &why) {
      Ev e;
      e.k = Ev::Close;
      e.sid = sid;
      e.code = static_cast<int>(why.code);
      lg->push(std::move(e));
    });
    t->onError([](net::TransportError, const std::string &) {});
    if (t->start().isErr()) return false;
    for (unsigned i = 0; i < p.nListeners; ++i)
    {
      const bool v6 = (p.v6Mask >> i) & 1;
      auto lr = t->addListener(v6 ? "::" : "127.0.0.1", 0, net::TlsMode::None);
      if (lr.isErr()) return false;
      auto la = t->getListenerAddress(lr.value());
      if (la.port == 0) return false;
      lst.push_back(Lst{lr.value(), v6 ? Addr{rawpeer::kLoopback, la.port} : toAddr(la.host, la.port), v6});
    }
    // raw peers: P0 127.0.0.1:p  P1 127.0.0.2:p (same port)  P2 127.0.0.1:q  P3 127.0.0.3:r
    static const std::uint32_t ips[] = {0x7f000001u, 0x7f000002u, 0x7f000001u, 0x7f000003u};
    for (unsigned i = 0; i < p.nPeers; ++i)
    {
      PeerSock ps;
      if (i == 1) ps.fd = rawpeer::udpBind(ips[1], peers[0].addr.port, ps.addr, 1 << 20);
      if (ps.fd < 0) ps.fd = rawpeer::udpBind(ips[i], 0, ps.addr, 1 << 20);
      if (ps.fd < 0) return false;
      peers.push_back(ps);
    }
    return true;
  }

  void teardown()
  {
    if (t)
    {
      t->stop();
      t.reset();
    }
    for (auto &ps : peers)
      if (ps.fd >= 0) ::close(ps.fd);
    peers.clear();
    c01net::arm(false);
  }

  std::vector<net::SessionId> openSessions(int kindFilter = -1)
  {
    std::vector<net::SessionId> v;
    for (auto &kv : sess)
      if (!kv.second.foreign && !kv.second.closedInLog && !kv.second.closeIssued && kv.second.announced && (kindFilter < 0 || kv.second.kind == kindFilter))
        v.push_back(kv.first);
    return v;
  }

  int peerIndexOf(const Addr &a) const
  {
    for (std::size_t i = 0; i < peers.size(); ++i)
      if (peers[i].addr == a) return static_cast<int>(i);
    return -1;
  }

  // ------------------------------------------------------------ oracle over the callback log
  void processLog()
  {
    std::vector<Ev> batch;
    {
      std::lock_guard<std::mutex> lk(log->mu);
      while (logPos < log->evs.size()) batch.push_back(std::move(log->evs[logPos++]));
    }
    for (auto &e : batch) processEvent(e);
  }

  void processEvent(const Ev &e)
  {
    if (c.failed()) return;
    switch (e.k)
    {
    case Ev::Accept:
    {
      if (sess.count(e.sid))
      {
        c.fail("C06/session-id-reused", "onAccept announced session id " + std::to_string(e.sid) + " which is already in use");
        return;
      }
      Sess s;
      s.sid = e.sid;
      s.kind = 0;
      s.peer = toAddr(e.host, e.port);
      s.announced = true;
      s.fresh = true;
      if (peerIndexOf(s.peer) < 0)
      {
        // a datagram from a socket that is not ours (another process on this machine hit the
        // listener's ephemeral port): not part of the history, ignored
        s.foreign = true;
        ++foreignSeen;
      }
      sess[e.sid] = s;
      if (!s.foreign) noteSessionForPeer(s.peer);
      break;
    }
    case Ev::Connect:
    {
      auto it = sess.find(e.sid);
      if (it != sess.end()) it->second.announced = true;
      break;
    }
    case Ev::Close:
    {
      auto it = sess.find(e.sid);
      if (it != sess.end() && !it->second.closedInLog)
      {
        it->second.closedInLog = true;
        for (auto &kv : closeSinceLastDgram) kv.second = true;
        if (e.code == static_cast<int>(net::TransportError::GCClosed)) c.label("session closed by idle expiry");
        if (e.code == static_cast<int>(net::TransportError::WriteBackpressure)) c.label("session closed by back-pressure");
      }
      break;
    }
    case Ev::Data:
    {
      {
        auto fit = sess.find(e.sid);
        if (fit != sess.end() && fit->second.foreign) return;
      }
      if (e.bytes.empty())
      {
        c.label("empty onData");
        return;
      }
      unsigned stamp = e.bytes[0];
      if (stamp >= sent.size() || !sent[stamp].toIora)
      {
        pbt::Fmt f;
        f << "onData on session " << e.sid << " delivered " << e.bytes.size() << " bytes (" << pbt::hex(std::string_view(reinterpret_cast<const char *>(e.bytes.data()), e.bytes.size()), 16)
          << ") that do not start like any datagram a raw peer has sent";
        c.fail("C06/unattributable-data", f.str());
        return;
      }
      Sent &d = sent[stamp];
      if (e.bytes != d.payload)
      {
        pbt::Fmt f;
        f << "datagram #" << stamp << " of " << d.payload.size() << " bytes from " << peers[d.peer].addr.str() << " was delivered as an onData of "
          << e.bytes.size() << " bytes";
        if (e.bytes.size() < d.payload.size() && std::memcmp(e.bytes.data(), d.payload.data(), e.bytes.size()) == 0) f << " (truncated)";
        else if (e.bytes.size() > d.payload.size() && std::memcmp(e.bytes.data(), d.payload.data(), d.payload.size()) == 0) f << " (something appended: merged?)";
        else f << " (content differs)";
        c.fail("C06/payload-mismatch", f.str());
        return;
      }
      if (d.delivered++ >= 1)
      {
        c.fail("C06/duplicate-delivery", "datagram #" + std::to_string(stamp) + " was delivered by more than one onData");
        return;
      }
      ++delivered;
      auto it = sess.find(e.sid);
      if (it == sess.end())
      {
        c.fail("C06/data-on-unknown-session", "onData for session id " + std::to_string(e.sid) + " that was never announced (accept/connect)");
        return;
      }
      Sess &s = it->second;
      const Addr src = peers[d.peer].addr;
      if (s.closedInLog) ++dataAfterClose; // C02's business, only counted here
      if (s.peer != src)
      {
        pbt::Fmt f;
        f << "datagram #" << stamp << " from " << src.str() << " (to " << d.dest << ") was delivered on session " << e.sid << " whose peer address is "
          << s.peer.str();
        c.fail("C06/delivered-on-foreign-session", f.str());
        return;
      }
      auto key = std::make_pair(src, d.dest);
      auto lr = lastRecv.find(key);
      if (lr != lastRecv.end() && lr->second != e.sid)
      {
        auto pit = sess.find(lr->second);
        if (pit != sess.end() && !pit->second.closedInLog)
        {
          pbt::Fmt f;
          f << "session " << lr->second << " received the previous datagram of " << src.str() << " (to " << d.dest
            << ") and is still open, but datagram #" << stamp << " arrived on " << (s.fresh ? "a NEW accepted session " : "another session ") << e.sid;
          c.fail(s.fresh ? "C06/new-accept-while-session-open" : "C06/redirected-while-session-open", f.str());
          return;
        }
      }
      // cross-listener sharing of one session (allowed by the statement; counted)
      for (auto &kv : lastRecv)
        if (kv.first.first == src && kv.first.second != d.dest && kv.second == e.sid) crossListener = true;
      lastRecv[key] = e.sid;
      missed[key] = 0;
      s.fresh = false;
      s.everReceived = true;
      if (dgramsSeenFrom[src]++ >= 1 && closeSinceLastDgram[src]) closeBetween = true;
      closeSinceLastDgram[src] = false;
      break;
    }
    }
  }

  void noteSessionForPeer(const Addr &a)
  {
    int n = 0;
    for (auto &kv : sess)
      if (!kv.second.closedInLog && kv.second.peer == a) ++n;
    if (n >= 2) multiSessionPeer = true;
  }

  // --------------------------------------------------------- oracle at the raw peers
  void processPeerDatagram(int pi, const Addr &from, const std::uint8_t *data, std::size_t got, std::size_t realLen)
  {
    if (c.failed()) return;
    bool fromEngine = false;
    for (auto &l : lst)
      if (l.addr.port == from.port) fromEngine = true; // listeners are bound to 127.0.0.1; replies to 127.0.0.x peers keep the port
    for (auto &kv : sess)
      if (kv.second.kind == 2 && kv.second.local.port == from.port) fromEngine = true;
    if (!fromEngine)
    {
      // some other process on this machine sent to our ephemeral port: not the engine's doing
      ++foreignSeen;
      return;
    }
    if (realLen == 0)
    {
      c.label("raw peer got an empty datagram");
      return;
    }
    unsigned stamp = data[0];
    if (stamp >= sent.size() || sent[stamp].toIora)
    {
      pbt::Fmt f;
      f << "raw peer " << peers[pi].addr.str() << " received a datagram of " << realLen << " bytes ("
        << pbt::hex(std::string_view(reinterpret_cast<const char *>(data), got), 16) << ") that does not start like any accepted app send";
      c.fail("C06/peer-got-unattributable-datagram", f.str());
      return;
    }
    Sent &d = sent[stamp];
    if (realLen != d.payload.size() || std::memcmp(data, d.payload.data(), std::min(got, d.payload.size())) != 0)
    {
      pbt::Fmt f;
      f << "app send #" << stamp << " of " << d.payload.size() << " bytes on session " << d.sid << " reached the raw peer as a datagram of " << realLen << " bytes";
      if (realLen > d.payload.size()) f << " (merged with something?)";
      else if (realLen < d.payload.size()) f << " (split or truncated)";
      else f << " (content differs)";
      c.fail("C06/send-payload-mismatch", f.str());
      return;
    }
    if (d.delivered++ >= 1)
    {
      c.fail("C06/send-duplicated", "app send #" + std::to_string(stamp) + " on session " + std::to_string(d.sid) + " arrived twice at the raw peer");
      return;
    }
    if (pi != d.peer)
    {
      pbt::Fmt f;
      f << "app send #" << stamp << " issued on session " << d.sid << " (peer " << peers[d.peer].addr.str() << ") arrived at " << peers[pi].addr.str();
      c.fail("C06/sent-to-wrong-peer", f.str());
      return;
    }
    ++sendsArrived;
  }

  void drainPeers(int waitPeer, int waitMs)
  {
    static thread_local std::vector<std::uint8_t> buf(66000);
    for (std::size_t i = 0; i < peers.size(); ++i)
    {
      for (;;)
      {
        Addr from;
        int r = rawpeer::udpRecvFrom(peers[i].fd, buf.data(), buf.size(), from, (static_cast<int>(i) == waitPeer) ? waitMs : 0);
        if (r < 0) break;
        processPeerDatagram(static_cast<int>(i), from, buf.data(), std::min<std::size_t>(static_cast<std::size_t>(r), buf.size()), static_cast<std::size_t>(r));
        waitMs = 0;
      }
    }
  }

  // ------------------------------------------------------------------------ waiting
  // true when the datagram can no longer arrive for a reason the property allows: it was sent to
  // the socket of a connected session that has been closed meanwhile, or it is an app send on a
  // session that was closed under it (the queue of a closed session is discarded)
  bool hopeless(const Sent &d)
  {
    net::SessionId sid = d.sid;
    if (d.toIora)
    {
      if (d.dest.empty() || d.dest[0] != 'C') return false;
      sid = std::strtoull(d.dest.c_str() + 1, nullptr, 10);
    }
    auto it = sess.find(sid);
    return it != sess.end() && (it->second.closedInLog || it->second.closeIssued);
  }

  // sessions that occupy a slot of the engine's session table according to the log
  std::size_t openCount() const
  {
    std::size_t n = 0;
    for (auto &kv : sess)
      if (kv.second.announced && !kv.second.closedInLog) ++n;
    return n;
  }
  // the open session that received the previous datagram of this (source, destination), or 0
  net::SessionId receivingSession(const Key &k) const
  {
    auto it = lastRecv.find(k);
    if (it == lastRecv.end()) return 0;
    auto st = sess.find(it->second);
    if (st == sess.end() || st->second.closedInLog || st->second.closeIssued) return 0;
    return it->second;
  }
  Key keyOf(const Sent &d) const { return Key(peers[d.peer].addr, d.dest); }
  // maxSessions: "new peers beyond the cap are refused" is the documented behaviour of the cap.
  // A datagram is only OWED when an open session is already receiving that source.
  bool capMayRefuse(const Key &k) const
  {
    if (!p.maxSessions || receivingSession(k) != 0) return false;
    if (inBurst) return true; // inside a burst connects/closes race with the datagram for the free slots
    // datagrams still in flight from sources without a receiving session will occupy slots too
    std::size_t inFlightNew = 0;
    for (auto &d : sent)
      if (d.toIora && d.delivered == 0 && d.dest[0] == 'L' && receivingSession(keyOf(d)) == 0) ++inFlightNew;
    return openCount() + inFlightNew >= p.maxSessions;
  }

  // `paced`: the stamps were issued one per (source,destination) and nothing else was in flight,
  // so a miss after the full pacing bound counts towards the 'silenced' oracle.
  bool waitDelivered(const std::vector<unsigned> &stamps, bool paced = false)
  {
    auto t0 = Clock::now();
    auto lastIter = t0;
    std::int64_t observed = 0; // ms of waiting this thread has really witnessed (<= kSliceMs per iteration)
    bool wasSlow = false;
    for (;;)
    {
      processLog();
      drainPeers(-1, 0);
      if (c.failed()) return false;
      auto now = Clock::now();
      observed += std::min<std::int64_t>(std::chrono::duration_cast<std::chrono::milliseconds>(now - lastIter).count(), kSliceMs);
      lastIter = now;
      bool all = true, needFull = false, needFast = false;
      int waitPeer = -1;
      for (unsigned st : stamps)
        if (sent[st].delivered == 0)
        {
          all = false;
          if (sent[st].capMaybe) { if (observed <= kCapGraceMs) needFast = true; }
          else if (hopeless(sent[st])) { if (observed <= kFastMs) needFast = true; }
          else needFull = true;
          if (!sent[st].toIora) waitPeer = sent[st].peer;
        }
      if (all) break;
      if (!needFull && !needFast) break;
      if (needFull && observed > kFastMs) wasSlow = true;
      if (observed > kSlowMs) break;
      if (waitPeer >= 0)
        drainPeers(waitPeer, 2);
      else
      {
        std::unique_lock<std::mutex> lk(log->mu);
        if (logPos >= log->evs.size()) log->cv.wait_for(lk, std::chrono::milliseconds(needFull ? 5 : 1));
      }
    }
    if (wasSlow) ++slow;
    if (wasSlow && std::getenv("C06_DEBUG"))
    {
      std::string l;
      for (unsigned st : stamps) l += " #" + std::to_string(st) + (sent[st].delivered ? "+" : "-") + (sent[st].toIora ? "(to " + sent[st].dest + ")" : "(send on " + std::to_string(sent[st].sid) + ")");
      std::fprintf(stderr, "SLOW %lld ms%s in %s\n", (long long)msSince(t0), l.c_str(), describe(p).c_str());
    }
    bool ok = true;
    for (unsigned st : stamps)
      if (sent[st].delivered == 0)
      {
        ok = false;
        if (sent[st].capMaybe) ++capRefused;
        else if (hopeless(sent[st])) ++lostByClose;
        else
        {
          if (sent[st].toIora) ++lost;
          else ++sendsLost;
          if (sent[st].toIora && paced && receivingSession(keyOf(sent[st])) != 0)
          {
            // an open session that was receiving this source missed a paced datagram: one loss is
            // allowed; go straight to the probe at the end of the history
            ++missed[keyOf(sent[st])];
            stopCase = true;
          }
          if (++fullTimeouts >= 2) stopCase = true; // do not spend minutes on a case that keeps losing
        }
      }
    return ok;
  }

  // 'silenced' oracle (bounded wait): loss of single datagrams is allowed, but an open session that
  // was receiving a source and now misses kSilenceK consecutive paced datagrams of it - each waited
  // for the full pacing bound, no close reported - has been silenced.
  void probeSilenced()
  {
    for (auto &kv : missed)
    {
      if (kv.second <= 0 || c.failed()) continue;
      const Key k = kv.first;
      int pi = peerIndexOf(k.first);
      if (pi < 0) continue;
      while (kv.second < kSilenceK && !c.failed())
      {
        processLog();
        net::SessionId rs = receivingSession(k);
        if (rs == 0) break; // closed meanwhile: nothing is owed any more
        int st;
        if (k.second[0] == 'L') st = issueDgram(pi, std::atoi(k.second.c_str() + 1), 3 + 16 * kv.second);
        else st = issueDgramConn(rs, 3 + 16 * kv.second);
        if (st < 0) break;
        ++silencedProbes;
        fullTimeouts = 0;
        waitDelivered({static_cast<unsigned>(st)}, true); // a miss increments missed[k], an arrival resets it to 0
        if (missed[k] == 0) break;
      }
      processLog();
      net::SessionId rs = receivingSession(k);
      if (!c.failed() && kv.second >= kSilenceK && rs != 0)
      {
        pbt::Fmt f;
        f << "session " << rs << " is open (no onClose reported) and received the earlier datagrams of " << k.first.str() << " (to " << k.second << "), but the last "
          << kv.second << " paced datagrams of that peer - each waited for " << kSlowMs << " ms - were not delivered on it or anywhere else; maxSessions=" << p.maxSessions
          << ", open sessions=" << openCount();
        c.failTimed("C06/open-session-silenced", f.str());
      }
    }
  }

  bool waitFor(const std::function<bool()> &pred, int ms)
  {
    auto t0 = Clock::now();
    for (;;)
    {
      processLog();
      if (c.failed()) return false;
      if (pred()) return true;
      if (msSince(t0) > ms) return false;
      std::unique_lock<std::mutex> lk(log->mu);
      if (logPos >= log->evs.size()) log->cv.wait_for(lk, std::chrono::milliseconds(5));
    }
  }

  // ------------------------------------------------------------------------ operations
  // returns the stamp or -1 when nothing was issued
  int issueDgram(int pi, int li, std::int64_t cls)
  {
    if (sent.size() >= 250) return -1;
    unsigned stamp = static_cast<unsigned>(sent.size());
    Sent d;
    d.toIora = true;
    d.peer = pi;
    d.dest = "L" + std::to_string(li);
    d.payload = makeDatagram(p.salt, stamp, sizeOf(cls, cap()));
    d.at = Clock::now();
    d.capMaybe = capMayRefuse(Key(peers[pi].addr, d.dest));
    sent.push_back(std::move(d));
    if (!rawpeer::udpSendTo(peers[pi].fd, lst[li].addr, sent[stamp].payload.data(), sent[stamp].payload.size()))
    {
      sent[stamp].delivered = 1; // could not even be sent (ENOBUFS...): ignore this stamp
      c.label("raw peer sendto failed");
      return -1;
    }
    return static_cast<int>(stamp);
  }
  int issueDgramConn(net::SessionId sid, std::int64_t cls)
  {
    if (sent.size() >= 250) return -1;
    Sess &s = sess[sid];
    int pi = peerIndexOf(s.peer);
    if (pi < 0 || s.local.port == 0) return -1;
    unsigned stamp = static_cast<unsigned>(sent.size());
    Sent d;
    d.toIora = true;
    d.peer = pi;
    d.dest = "C" + std::to_string(sid);
    d.payload = makeDatagram(p.salt, stamp, sizeOf(cls, cap()));
    sent.push_back(std::move(d));
    if (!rawpeer::udpSendTo(peers[pi].fd, s.local, sent[stamp].payload.data(), sent[stamp].payload.size()))
    {
      sent[stamp].delivered = 1;
      c.label("raw peer sendto failed");
      return -1;
    }
    return static_cast<int>(stamp);
  }
  int issueSend(net::SessionId sid, std::int64_t cls)
  {
    if (sent.size() >= 250) return -1;
    Sess &s = sess[sid];
    int pi = peerIndexOf(s.peer);
    if (pi < 0) return -1; // cannot happen: every session's peer is one of the raw sockets
    unsigned stamp = static_cast<unsigned>(sent.size());
    Sent d;
    d.toIora = false;
    d.peer = pi;
    d.sid = sid;
    d.payload = makeDatagram(p.salt, stamp, sizeOf(cls, std::min<std::size_t>(65507, 65507)));
    sent.push_back(std::move(d));
    bool ok = t->send(sid, iora::core::BufferView{sent[stamp].payload.data(), sent[stamp].payload.size()});
    if (!ok)
    {
      sent[stamp].delivered = 1; // not accepted: nothing may arrive, but nothing is owed either
      sent[stamp].toIora = false;
      return -1;
    }
    return static_cast<int>(stamp);
  }

  void run()
  {
    oncePerProcess();
    c.describe(describe(p));
    pbt::watchdog(120, "C06/case-hung");
    if (!setup())
    {
      c.inconclusive("socket setup failed");
      teardown();
      return;
    }
    std::vector<unsigned> pending; // stamps issued inside a burst
    int burstLeft = 0;
    bool burstBatch = false; // the pending stamps were issued without waiting in between
    for (std::size_t oi = 0; oi < p.ops.size() && !c.failed() && !stopCase; ++oi)
    {
      const Op &o = p.ops[oi];
      int stamp = -1;
      inBurst = burstLeft > 0;
      switch (o.kind)
      {
      case OpDgram: stamp = issueDgram(static_cast<int>(o.a % p.nPeers), static_cast<int>(o.b % p.nListeners), o.c); break;
      case OpDgramConn:
      {
        auto v = openSessions(2);
        if (!v.empty()) stamp = issueDgramConn(v[static_cast<std::size_t>(o.a) % v.size()], o.c);
        break;
      }
      case OpSend:
      {
        auto v = openSessions();
        if (!v.empty()) stamp = issueSend(v[static_cast<std::size_t>(o.a) % v.size()], o.c);
        break;
      }
      case OpVia:
      {
        int li = static_cast<int>(o.a % p.nListeners), pi = static_cast<int>(o.b % p.nPeers);
        auto r = t->connectViaListener(lst[li].id, (lst[li].v6 ? "::ffff:" : "") + peers[pi].addr.host(), peers[pi].addr.port);
        if (r.isOk())
        {
          Sess s;
          s.sid = r.value();
          s.kind = 1;
          s.peer = peers[pi].addr;
          sess[s.sid] = s;
          net::SessionId sid = s.sid;
          if (!waitFor([&] { return sess[sid].announced || sess[sid].closedInLog; }, kSetupMs))
          {
            if (!c.failed()) c.inconclusive("connectViaListener was not announced in time");
            stopCase = true;
          }
          noteSessionForPeer(peers[pi].addr);
        }
        break;
      }
      case OpConnect:
      {
        int pi = static_cast<int>(o.a % p.nPeers);
        auto r = t->connect(peers[pi].addr.host(), peers[pi].addr.port, net::TlsMode::None);
        if (r.isOk())
        {
          Sess s;
          s.sid = r.value();
          s.kind = 2;
          s.peer = peers[pi].addr;
          sess[s.sid] = s;
          net::SessionId sid = s.sid;
          if (!waitFor([&] { return sess[sid].announced || sess[sid].closedInLog; }, kSetupMs))
          {
            if (!c.failed()) c.inconclusive("connect was not announced in time");
            stopCase = true;
          }
          else if (sess[sid].announced)
          {
            auto la = t->getLocalAddress(sid);
            sess[sid].local = toAddr(la.host, la.port);
          }
          noteSessionForPeer(peers[pi].addr);
        }
        break;
      }
      case OpClose:
      {
        auto v = openSessions();
        if (!v.empty())
        {
          net::SessionId sid = v[static_cast<std::size_t>(o.a) % v.size()];
          sess[sid].closeIssued = true;
          t->close(sid);
          if (burstLeft == 0 && !waitFor([&] { return sess[sid].closedInLog; }, kSetupMs))
          {
            if (!c.failed()) c.inconclusive("onClose did not arrive in time after close()");
            stopCase = true;
          }
        }
        break;
      }
      case OpBurst:
        if (burstLeft == 0)
        {
          burstLeft = 2 + static_cast<int>(o.a % 4) + 1; // +1: decremented below for this op
          burstBatch = true;
        }
        break;
      case OpAgain:
      {
        std::vector<c01net::Step> s;
        static const char *pat[] = {"A", "AA", "ApA", "AAAA", "AAp", "ApAA", "AAAAAAA", "AAA"};
        for (const char *q = pat[o.a % 8]; *q; ++q) s.push_back(c01net::Step{static_cast<std::uint8_t>(*q == 'A' ? c01net::AGAIN : c01net::PASS), 0});
        c01net::setDgramWriteScript(s);
        break;
      }
      case OpAlt:
      {
        // two peers (preferably the pair that shares a port) send alternately, back to back
        int pa = static_cast<int>(o.a % p.nPeers), pb = static_cast<int>(o.b % p.nPeers);
        if (p.nPeers >= 2 && (o.a & 1)) pa = 0, pb = 1;
        int li = static_cast<int>((o.c >> 3) % p.nListeners), rounds = 2 + static_cast<int>(o.c % 3);
        bool saved = inBurst;
        inBurst = true;
        for (int r = 0; r < rounds; ++r)
          for (int who : {pa, pb})
          {
            int st = issueDgram(who, li, 2 + 16 * (r + 1));
            if (st >= 0) pending.push_back(static_cast<unsigned>(st));
          }
        inBurst = saved;
        burstBatch = true;
        break;
      }
      case OpIdle:
      {
        // ~2.4 s during which the peers in the mask keep sending to listener 0, the others are silent
        for (int round = 0; round < 6 && !c.failed() && !stopCase; ++round)
        {
          std::this_thread::sleep_for(std::chrono::milliseconds(400));
          std::vector<unsigned> st;
          for (unsigned pi = 0; pi < p.nPeers; ++pi)
            if ((o.a >> pi) & 1)
            {
              int s = issueDgram(static_cast<int>(pi), 0, 2 + 16 * round);
              if (s >= 0) st.push_back(static_cast<unsigned>(s));
            }
          waitDelivered(st, true);
        }
        processLog();
        break;
      }
      }
      if (stamp >= 0) pending.push_back(static_cast<unsigned>(stamp));
      if (burstLeft > 0) --burstLeft;
      if (burstLeft == 0 && !pending.empty())
      {
        // a datagram that does not arrive is legitimate ("at most one"); should it arrive later it
        // is judged by the same log-order oracle, so the history simply goes on
        waitDelivered(pending, !burstBatch);
        pending.clear();
        burstBatch = false;
        // closes issued inside a burst
        for (auto &kv : sess)
          if (kv.second.closeIssued && !kv.second.closedInLog && !stopCase)
          {
            net::SessionId sid = kv.first;
            if (!waitFor([&] { return sess[sid].closedInLog; }, kSetupMs) && !c.failed())
            {
              c.inconclusive("onClose did not arrive in time after close()");
              stopCase = true;
            }
          }
      }
    }
    if (!pending.empty() && !c.failed()) waitDelivered(pending);
    if (!c.failed()) probeSilenced();
    // settle: late duplicates / misdirected datagrams
    if (!c.failed())
    {
      std::this_thread::sleep_for(std::chrono::milliseconds(3));
      processLog();
      drainPeers(-1, 0);
    }
    c01net::Counters cnt = c01net::counters();
    teardown();

    c.label(p.et ? "edge-triggered" : "level-triggered");
    if (p.batching) c.label("batching on");
    c.label("listeners: " + std::to_string(p.nListeners));
    c.label("peers: " + std::to_string(p.nPeers));
    if (cnt.dgWrAgainInj) c.label("injected EAGAIN on sendto/send");
    if (cnt.dgWrAgainReal) c.label("real EAGAIN on sendto/send");
    if (cnt.unexpected) c.label("engine used writev/sendmsg/recvmsg on its socket");
    if ((lost || sendsLost) && std::getenv("C06_DEBUG"))
    {
      std::string l;
      for (std::size_t i = 0; i < sent.size(); ++i)
        if (sent[i].delivered == 0) l += " #" + std::to_string(i) + (sent[i].toIora ? "(to " + sent[i].dest + ")" : "(send on " + std::to_string(sent[i].sid) + ")");
      std::fprintf(stderr, "LOST%s in %s\n", l.c_str(), describe(p).c_str());
    }
    if (foreignSeen) c.label("foreign traffic on an ephemeral port ignored");
    if (p.v6Mask) c.label(delivered ? "dual-stack '::' listener, datagrams delivered" : "dual-stack '::' listener");
    if (p.maxSessions) c.label("maxSessions: " + std::to_string(p.maxSessions));
    if (capRefused) c.label("new peer refused at the session cap (documented, not flagged)");
    if (silencedProbes) c.label("silence probe run after a missed paced datagram");
    if (lostByClose) c.label("datagram overtaken by the close of its own session (counted, not flagged)");
    if (lost) c.label("datagram to iora lost (counted, not flagged)");
    if (sendsLost) c.label("app send never arrived (counted, not flagged)");
    if (slow) c.label("arrival slower than 200 ms");
    if (multiSessionPeer) c.label(">=2 sessions for one peer address");
    if (closeBetween) c.label("close of a session between two datagrams of one peer");
    if (crossListener) c.label("one session serves a peer on two listeners");
    if (dataAfterClose) c.label("onData after onClose (C02 territory)");
    if (delivered) c.label("datagrams delivered");
    if (sendsArrived) c.label("app sends arrived");
    bool conn = false, via = false;
    for (auto &kv : sess)
    {
      if (kv.second.kind == 2) conn = true;
      if (kv.second.kind == 1) via = true;
    }
    if (conn) c.label("connect() session");
    if (via) c.label("connectViaListener() session");
    if (!c.failed() && (multiSessionPeer || closeBetween)) c.nontrivial(pbt::hash64(describe(p)));
  }
};

Plan drawPlan(pbt::Src &src, bool idle)
{
  Plan p;
  p.idle = idle;
  p.et = !src.coin(1, 3);
  p.batching = src.coin(1, 4);
  p.readChunk = src.oneOf<std::size_t>({65536, 65536, 65507, 2048, 1472});
  p.maxWq = src.oneOf<std::size_t>({1024, 1024, 1024, 2, 1});
  p.maxSessions = src.oneOf<std::size_t>({0, 0, 0, 0, 1, 2, 2, 3, 3, 4});
  p.nListeners = static_cast<unsigned>(1 + src.weighted({3, 2}));
  p.nPeers = static_cast<unsigned>(1 + src.weighted({2, 3, 2, 2}));
  p.v6Mask = static_cast<unsigned>(src.weighted({5, 2, 2, 1})); // 0: all IPv4, 1/2/3: listener 0 / 1 / both on '::'
  p.salt = static_cast<std::uint32_t>(src.range(0, 0x7fffffff));
  auto rows = src.rows(idle ? 24 : 48, 4, 0, (1 << 20) - 1);
  bool idleDone = false;
  for (auto &r : rows)
  {
    Op o;
    static const int kinds[] = {OpDgram, OpDgram, OpDgram, OpDgram, OpDgram, OpDgramConn, OpSend, OpSend, OpSend, OpVia, OpVia,
                                OpConnect, OpClose, OpClose, OpBurst, OpAgain, OpAlt};
    o.kind = kinds[r[0] % 17];
    o.a = r[1];
    o.b = r[2];
    o.c = r[3];
    if (idle && !idleDone && (r[0] >> 4) % 5 == 0)
    {
      o.kind = OpIdle;
      idleDone = true;
    }
    p.ops.push_back(o);
  }
  if (idle && !idleDone)
  {
    Op o;
    o.kind = OpIdle;
    o.a = p.salt;
    p.ops.insert(p.ops.begin() + static_cast<std::ptrdiff_t>(p.ops.size() / 2), o);
  }
  return p;
}

} // namespace

PBT_PROPERTY(history)
{
  Plan p = drawPlan(src, false);
  Exec ex(p, c);
  ex.run();
}

PBT_PROPERTY(idle)
{
  Plan p = drawPlan(src, true);
  Exec ex(p, c);
  ex.run();
}

// S4 (DESIGN.md section 7): closing a connectViaListener() session erased the peer index entry of
// the accepted session that actually receives the peer's datagrams.
PBT_REGRESSION(s4_close_of_via_session_keeps_accepted_mapping)
{
  Plan p;
  p.nListeners = 1;
  p.nPeers = 1;
  p.salt = 4;
  p.ops = {Op{OpDgram, 0, 0, 3}, Op{OpVia, 0, 0, 0}, Op{OpClose, 1, 0, 0}, Op{OpDgram, 0, 0, 3}};
  Exec ex(p, c);
  ex.run();
}

// the same defect reached through a second via-session: close(S3) must not unmap S2
PBT_REGRESSION(s4_close_of_second_via_session_keeps_first_mapping)
{
  Plan p;
  p.nListeners = 1;
  p.nPeers = 1;
  p.salt = 5;
  p.ops = {Op{OpVia, 0, 0, 0}, Op{OpDgram, 0, 0, 3}, Op{OpVia, 0, 0, 0}, Op{OpClose, 1, 0, 0}, Op{OpDgram, 0, 0, 3}};
  Exec ex(p, c);
  ex.run();
}

// the same defect reached through idle expiry: the idle via-session is collected by the GC while the
// accepted session keeps receiving (idleTimeout = gcInterval = 1 s; takes ~2.5 s)
PBT_REGRESSION(s4_idle_expiry_of_via_session_keeps_accepted_mapping)
{
  Plan p;
  p.nListeners = 1;
  p.nPeers = 1;
  p.idle = true;
  p.salt = 7;
  p.ops = {Op{OpDgram, 0, 0, 3}, Op{OpVia, 0, 0, 0}, Op{OpIdle, 1, 0, 0}, Op{OpDgram, 0, 0, 3}};
  Exec ex(p, c);
  ex.run();
}

// maxSessions: at the cap a NEW peer may be refused, but the peers that already have an open session
// must keep receiving (seeded change C06-B checked the cap before the peer lookup: every datagram
// was shed once the table was full and the open sessions went silent without a close)
PBT_REGRESSION(session_cap_does_not_silence_open_sessions)
{
  Plan p;
  p.nListeners = 1;
  p.nPeers = 2;
  p.maxSessions = 2;
  p.salt = 8;
  p.ops = {Op{OpDgram, 0, 0, 3}, Op{OpDgram, 1, 0, 3}, Op{OpDgram, 0, 0, 5}, Op{OpDgram, 1, 0, 7}, Op{OpSend, 0, 0, 3}, Op{OpDgram, 0, 0, 9}};
  Exec ex(p, c);
  ex.run();
}

// the documented half of the cap: a third peer is refused (no accept, nothing flagged) and the two
// existing sessions are unaffected; after a close the slot is free again
PBT_REGRESSION(session_cap_refuses_new_peer_only)
{
  Plan p;
  p.nListeners = 1;
  p.nPeers = 3;
  p.maxSessions = 2;
  p.salt = 9;
  p.ops = {Op{OpDgram, 0, 0, 3}, Op{OpDgram, 1, 0, 3}, Op{OpDgram, 2, 0, 3}, Op{OpDgram, 0, 0, 5}, Op{OpVia, 0, 2, 0}, Op{OpClose, 1, 0, 0},
           Op{OpDgram, 2, 0, 3}, Op{OpDgram, 0, 0, 5}, Op{OpDgram, 2, 0, 6}};
  Exec ex(p, c);
  ex.run();
}

// '::' (dual-stack) listener: 127.0.0.1:Q and 127.0.0.2:Q arrive as ::ffff:127.0.0.1 / ::ffff:127.0.0.2 with the
// same port - they agree in the first 16 bytes of sockaddr_in6 (family, port, flowinfo, upper 64 address bits).
// Seeded change C06-D compared only those bytes to reuse the previous datagram's peer key.
PBT_REGRESSION(dual_stack_listener_peers_sharing_a_port_alternate)
{
  Plan p;
  p.nListeners = 1;
  p.nPeers = 2;
  p.v6Mask = 1;
  p.salt = 10;
  p.ops = {Op{OpDgram, 0, 0, 3}, Op{OpDgram, 1, 0, 3}, Op{OpDgram, 0, 0, 5}, Op{OpDgram, 1, 0, 7}, Op{OpAlt, 1, 1, 2}, Op{OpSend, 1, 0, 3},
           Op{OpSend, 0, 0, 3}, Op{OpVia, 0, 1, 0}, Op{OpDgram, 1, 0, 3}};
  Exec ex(p, c);
  ex.run();
}

// plain echo-like history that must simply pass (sanity of the harness itself)
PBT_REGRESSION(basic_two_peers_both_directions)
{
  Plan p;
  p.nListeners = 1;
  p.nPeers = 2;
  p.salt = 6;
  p.ops = {Op{OpDgram, 0, 0, 3}, Op{OpDgram, 1, 0, 7}, Op{OpSend, 0, 0, 9}, Op{OpSend, 1, 0, 0}, Op{OpConnect, 0, 0, 0},
           Op{OpSend, 2, 0, 5}, Op{OpDgramConn, 0, 0, 8}, Op{OpAgain, 1, 0, 0}, Op{OpSend, 0, 0, 3}, Op{OpSend, 1, 0, 3}, Op{OpClose, 0, 0, 0},
           Op{OpDgram, 0, 0, 11}};
  Exec ex(p, c);
  ex.run();
}

PBT_REGRESSION(interposer_selftest)
{
  std::string why;
  if (!c01net::selfTest(why)) c.fail("harness/interposer-not-effective", why);
}

PBT_MAIN()
