// c12_clock.cpp - strong definition of clock_gettime() for harness executables
// (see harness/common/c12_clock.hpp). No dependency on iora or on the pbt runtime.
#include "c12_clock.hpp"

#include <atomic>
#include <dlfcn.h>
#include <sys/syscall.h>
#include <time.h>
#include <unistd.h>

namespace
{
std::atomic<bool> g_enabled{false};
std::atomic<std::int64_t> g_nowMs{0};
std::atomic<std::uint64_t> g_reads{0};

using ClockFn = int (*)(clockid_t, struct timespec *);
std::atomic<ClockFn> g_real{nullptr};

int realClock(clockid_t id, struct timespec *ts)
{
  ClockFn f = g_real.load(std::memory_order_acquire);
  if (!f)
  {
    // resolve once; while resolving (dlsym may itself need the time) use the syscall
    static thread_local bool resolving = false;
    if (resolving) return static_cast<int>(syscall(SYS_clock_gettime, id, ts));
    resolving = true;
    void *p = dlsym(RTLD_NEXT, "clock_gettime");
    resolving = false;
    if (!p) return static_cast<int>(syscall(SYS_clock_gettime, id, ts));
    f = reinterpret_cast<ClockFn>(p);
    g_real.store(f, std::memory_order_release);
  }
  return f(id, ts);
}
} // namespace

extern "C"
{
  // The interposed symbol. Same prototype as <time.h>.
  int clock_gettime(clockid_t id, struct timespec *ts) noexcept
  {
    if ((id == CLOCK_REALTIME || id == CLOCK_REALTIME_COARSE) &&
        g_enabled.load(std::memory_order_acquire))
    {
      std::int64_t ms = g_nowMs.load(std::memory_order_acquire);
      ts->tv_sec = static_cast<time_t>(ms / 1000);
      ts->tv_nsec = static_cast<long>((ms % 1000) * 1000000L);
      g_reads.fetch_add(1, std::memory_order_relaxed);
      return 0;
    }
    return realClock(id, ts);
  }

  void c12_clock_set(std::int64_t epochMs)
  {
    g_nowMs.store(epochMs, std::memory_order_release);
    g_enabled.store(true, std::memory_order_release);
  }
  void c12_clock_advance(std::int64_t deltaMs)
  {
    if (deltaMs > 0) g_nowMs.fetch_add(deltaMs, std::memory_order_acq_rel);
  }
  std::int64_t c12_clock_now() { return g_nowMs.load(std::memory_order_acquire); }
  void c12_clock_disable() { g_enabled.store(false, std::memory_order_release); }
  std::uint64_t c12_clock_reads() { return g_reads.load(std::memory_order_relaxed); }
}
