// libFuzzer target for C18.
//   byte 0 (mod 4) selects the mode, byte 1 the segmentation; the rest is the wire input.
//   mode 0  WebSocketFrame::parse on the raw bytes
//           oracle: never throws; consumed <= size; "no frame" => consumed == 0; agreement with
//           the independent strict decoder (complete => same frame and consumed, incomplete =>
//           no frame); parse -> serialize reproduces the consumed bytes for minimal encodings
//   mode 1  in-process WebSocketServer data path (default 16 MiB limit), input cut into reads
//   mode 2  in-process WebSocketClient data path (hook H3), input cut into reads
//           oracle for 1/2: nothing throws; the messages delivered for the conformant prefix of
//           the stream (reference decoder + reference reassembly model) are exactly the model's,
//           for the segmented AND the unsegmented feed; invalid UTF-8 text never delivered
//   mode 3  server with a small maxFrameSize taken from the input: nothing throws
// Over-allocation is judged by -malloc_limit_mb (set in props/C18.py); unbounded buffering by
// the rapidcheck property `hostile` (needs more bytes than a fuzz input has).
#include "c18_inproc.hpp"
#include "c18_ref_ws.hpp"
#include "pbt_fuzz.hpp"

#include <memory>
#include <optional>

using namespace c18in;

namespace
{

std::string hexOf(std::string_view s, std::size_t maxBytes = 48)
{
  static const char *d = "0123456789abcdef";
  std::string o;
  for (std::size_t i = 0; i < s.size() && i < maxBytes; ++i)
  {
    o += d[static_cast<unsigned char>(s[i]) >> 4];
    o += d[static_cast<unsigned char>(s[i]) & 15];
  }
  if (s.size() > maxBytes) o += "...";
  return o;
}

std::vector<std::size_t> cutsFor(std::uint8_t sel, std::size_t n)
{
  std::vector<std::size_t> cuts;
  if (n < 2) return cuts;
  if ((sel & 7) == 7)
  {
    std::size_t chunk = 1 + (sel >> 3); // fixed-size reads of 1..32 bytes
    for (std::size_t p = chunk; p < n; p += chunk) cuts.push_back(p);
    return cuts;
  }
  std::size_t k = sel & 7;
  for (std::size_t i = 0; i < k; ++i) cuts.push_back(((static_cast<std::size_t>(sel) * 131 + i * 977 + 13) % (n - 1)) + 1);
  std::sort(cuts.begin(), cuts.end());
  cuts.erase(std::unique(cuts.begin(), cuts.end()), cuts.end());
  return cuts;
}

void parseMode(std::string_view in)
{
  ExactBuf buf(in);
  std::size_t consumed = 31337;
  std::optional<ws::WebSocketFrame> fr;
  try
  {
    fr = ws::WebSocketFrame::parse(buf.view(), consumed);
  }
  catch (const std::exception &e)
  {
    pbtf::fail("C18/frame/parse-exception", std::string("parse threw ") + typeid(e).name() + " (" + e.what() + ") on " + hexOf(in));
    return;
  }
  if (consumed > in.size()) pbtf::fail("C18/frame/consumed-beyond-input", "consumed " + std::to_string(consumed) + " > " + std::to_string(in.size()));
  refws::Decoded d = refws::decode(in);
  if (!fr)
  {
    if (consumed != 0) pbtf::fail("C18/frame/prefix-consumed", "no frame but consumed=" + std::to_string(consumed));
    if (d.st == refws::St::Complete && !d.reservedOpcode)
      pbtf::fail("C18/frame/roundtrip-incomplete", "a complete valid frame was reported incomplete: " + hexOf(in));
    pbtf::label(d.st == refws::St::Invalid ? "parse: invalid header, no frame" : "parse: incomplete");
    return;
  }
  if (in.size() >= 1 && ((static_cast<unsigned char>(in[0]) >> 4) & 7) != 0)
  {
    pbtf::label("parse: RSV bits set");
    return; // documented: an error frame that swallows the buffer
  }
  if (d.st == refws::St::Incomplete)
    pbtf::fail("C18/frame/prefix-complete", "parse returned a frame (" + std::to_string(fr->payload.size()) + " payload bytes) for an incomplete input " + hexOf(in));
  if (d.st == refws::St::Invalid)
  {
    // parse()'s own documented contract (RFC 6455 5.5): Close/Ping/Pong must be final and <= 125 bytes
    if (d.f.opcode == refws::OpClose || d.f.opcode == refws::OpPing || d.f.opcode == refws::OpPong)
      pbtf::fail("C18/frame/invalid-control-frame-accepted", "parse returned a control frame that is fragmented or longer than 125 bytes: " + hexOf(in));
    pbtf::label("parse: frame returned for an invalid header (reserved control opcode)");
    return;
  }
  std::string payload(fr->payload.begin(), fr->payload.end());
  if (consumed != d.consumed || payload != d.f.payload || fr->fin != d.f.fin || static_cast<std::uint8_t>(fr->opcode) != d.f.opcode || fr->masked != d.f.masked ||
      (d.f.masked && std::memcmp(fr->maskKey, d.f.key, 4) != 0))
    pbtf::fail("C18/frame/decode-differs", "parse disagrees with the reference decoder on " + hexOf(in));
  pbtf::nontrivial(pbtf::hash64(in.substr(0, consumed)), hexOf(in.substr(0, consumed)));
  pbtf::label("parse: complete frame");
  if (!d.nonMinimalLength)
  {
    auto wire = fr->serialize(fr->masked);
    if (wire.size() != consumed || std::memcmp(wire.data(), in.data(), consumed) != 0)
      pbtf::fail("C18/frame/serialize-header", "serialize(parse(x)) != x for a minimally encoded frame " + hexOf(in));
  }
}

void endpointMode(bool server, std::uint8_t sel, std::string_view in, std::size_t maxFrame, bool model)
{
  const std::string side = server ? "server" : "client";
  std::string wire(in);
  auto run = [&](const std::vector<std::size_t> &cuts) -> Outcome
  {
#ifdef JOEGEN_IORA_VERIF_WS_CLIENT_PROBE
    if (!server) return runClient(wire, cuts);
#endif
    return runServer(wire, cuts, maxFrame);
  };
  std::vector<std::size_t> cuts = cutsFor(sel, wire.size());
  Outcome seg = run(cuts);
  if (seg.threw) pbtf::fail("C18/" + side + "/exception", seg.what + " on " + hexOf(wire));
  if (!model) return;
  Outcome whole = run({});
  if (whole.threw) pbtf::fail("C18/" + side + "/exception", whole.what + " on " + hexOf(wire));

  // reference: decode as far as the bytes are a sequence of valid frames, then model them
  std::vector<refws::Frame> frames;
  std::size_t pos = 0;
  bool clean = true;
  while (pos < wire.size())
  {
    refws::Decoded d = refws::decode(std::string_view(wire).substr(pos));
    if (d.st != refws::St::Complete || d.nonMinimalLength)
    {
      clean = false;
      break;
    }
    frames.push_back(d.f);
    pos += d.consumed;
  }
  refws::Model m = refws::modelFrames(frames, 1u << 20);
  if (m.framesModelled < frames.size()) clean = false; // frames behind a close frame / an invalid text: not modelled
  auto isPrefix = [](const std::vector<Msg> &a, const std::vector<Msg> &b) { return a.size() <= b.size() && std::equal(a.begin(), a.end(), b.begin()); };
  for (const Outcome *o : {&seg, &whole})
  {
    const char *how = o == &seg ? "segmented" : "unsegmented";
    if (m.invalidText)
      for (auto &x : o->msgs)
        if (x.text && x.payload == m.invalidPayload && !pbtf::isKnown("C18/" + side + "/invalid-utf8-delivered"))
          pbtf::fail("C18/" + side + "/invalid-utf8-delivered", std::string(how) + ": invalid UTF-8 text delivered, stream " + hexOf(wire));
    if (!isPrefix(m.delivered, o->msgs))
      pbtf::fail("C18/" + side + "/messages-differ", std::string(how) + " feed: the messages of the conformant prefix (" + std::to_string(m.delivered.size()) +
                                                       ") are not what was delivered (" + std::to_string(o->msgs.size()) + "), stream " + hexOf(wire));
    if (clean && m.conformant && !m.invalidText && o->msgs.size() != m.delivered.size())
      pbtf::fail("C18/" + side + "/messages-extra", std::string(how) + " feed: more messages delivered than the stream contains, stream " + hexOf(wire));
    if (clean && m.conformant && !m.invalidText && m.closed && (o->closeCallbacks != 1 || o->closeCode != m.closeCode || o->closeReason != m.closeReason))
      pbtf::fail("C18/" + side + "/close-payload", std::string(how) + " feed: close callback does not match the close frame, stream " + hexOf(wire));
  }
  if (clean && m.conformant)
  {
    pbtf::label(side + ": conformant stream");
    if (frames.size() >= 2) pbtf::nontrivial(pbtf::hash64(wire) ^ sel, hexOf(wire));
    if (!m.delivered.empty()) pbtf::label(side + ": delivered a message");
  }
  else
    pbtf::label(side + ": non-conformant or truncated stream");
}

} // namespace

extern "C" int LLVMFuzzerTestOneInput(const uint8_t *data, size_t size)
{
  pbtf::count();
  if (size < 2) return 0;
  const std::uint8_t mode = data[0] & 3, sel = data[1];
  std::string_view in(reinterpret_cast<const char *>(data) + 2, size - 2);
  switch (mode)
  {
  case 0: parseMode(in); break;
  case 1: endpointMode(true, sel, in, 16u << 20, true); break;
  case 2:
#ifdef JOEGEN_IORA_VERIF_WS_CLIENT_PROBE
    endpointMode(false, sel, in, 0, true);
#else
    parseMode(in);
#endif
    break;
  default:
  {
    static const std::size_t maxes[] = {0, 1, 16, 125, 126, 1000};
    endpointMode(true, sel, in, maxes[(data[0] >> 2) % 6], false);
    break;
  }
  }
  return 0;
}
