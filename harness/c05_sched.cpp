// c05_sched.cpp - schedule perturbation for the ASan build of the C05 harness (NOT linked
// into the TSan build: interposing pthread functions there would bypass TSan's own
// interceptors and produce bogus reports).
//
// Strong definition of pthread_mutex_lock in the executable: std::mutex::lock() (inline in
// libstdc++ headers) resolves to it, so every lock acquisition of iora (syncMutex, _cmdMutex,
// _cbMutex, callbackMutex, ...) passes through here. While a case has switched perturbation
// on, a per-thread xorshift generator seeded from the PLAN decides between nothing,
// sched_yield() and usleep(20..270 us) *before* the real lock call. This widens the
// few-instruction windows between a check and the lock that follows it (e.g. `_running.load()`
// ... enqueue(); predicate evaluated ... parked) to hundreds of microseconds.
//
// Sound by construction: delaying a thread before it takes a lock is something the scheduler
// may always do.
#include <atomic>
#include <dlfcn.h>
#include <pthread.h>
#include <sched.h>
#include <unistd.h>

namespace
{
using LockFn = int (*)(pthread_mutex_t *);
LockFn realLock = nullptr;
std::atomic<unsigned> gLevel{0};        // 0 = off; else probability level/64 per lock
std::atomic<unsigned long> gSeed{0};
std::atomic<unsigned long> gEpoch{0};   // bumped per case: threads re-seed
std::atomic<unsigned long> gThreadNo{0};
thread_local unsigned long tlState = 0;
thread_local unsigned long tlEpoch = ~0UL;
thread_local bool tlBusy = false;

__attribute__((constructor)) void initRealLock()
{
  realLock = reinterpret_cast<LockFn>(dlsym(RTLD_NEXT, "pthread_mutex_lock"));
}
} // namespace

extern "C" void c05_sched_set(unsigned long seed, unsigned level)
{
  gSeed.store(seed);
  gEpoch.fetch_add(1);
  gThreadNo.store(0);
  gLevel.store(level);
}

extern "C" int pthread_mutex_lock(pthread_mutex_t *m)
{
  if (!realLock) realLock = reinterpret_cast<LockFn>(dlsym(RTLD_NEXT, "pthread_mutex_lock"));
  unsigned level = gLevel.load(std::memory_order_relaxed);
  if (level != 0 && !tlBusy)
  {
    tlBusy = true;
    unsigned long ep = gEpoch.load(std::memory_order_relaxed);
    if (tlEpoch != ep)
    {
      tlEpoch = ep;
      // threads are numbered in the order of their first lock in this case
      tlState = (gSeed.load() + 0x9e3779b97f4a7c15UL * (gThreadNo.fetch_add(1) + 1)) | 1;
    }
    tlState ^= tlState << 13;
    tlState ^= tlState >> 7;
    tlState ^= tlState << 17;
    unsigned long r = tlState >> 11;
    if ((r & 63) < level)
    {
      if (r & 64) sched_yield();
      else usleep(20 + static_cast<unsigned>((r >> 8) % 250));
    }
    tlBusy = false;
  }
  return realLock(m);
}
