// libFuzzer target for C20: the bytes of a requested name against a fixed, pre-built
// tree (skeleton of c20_core.hpp + 64 fixed generated entries), four lookup modes chosen
// by the first input byte: getStatic on fromDirectory cached / per-request, getTemplate,
// getStatic on fromEmbedded with the name registered as an EXTERNAL_DIR path.
// Oracle (inside the target): the same verdict as the rapidcheck harness - own POSIX
// walker cross-checked with realpath(3) + unique content markers.
#include "pbt_fuzz.hpp"

#include "c20_core.hpp"

#include <memory>

using iora::web::Assets;

extern "C" const char *__asan_default_options() { return "quarantine_size_mb=16:malloc_context_size=8"; }

namespace
{

struct FuzzSink : c20::Sink
{
  void label(const std::string &l) override { pbtf::label(l); }
  bool fail(const std::string &sig, const std::string &what) override { return pbtf::fail(sig, what); }
  void inconclusive(const std::string &why) override { pbtf::label("inconclusive: " + why); }
};

struct World
{
  c20::Tree t;
  std::unique_ptr<Assets> cached, perRequest;
  bool ok = false;

  World()
  {
    c20::Config cfg; // plain layout, canonical spelling
    if (!t.buildSkeleton(cfg))
    {
      std::fprintf(stderr, "fuzz_assets: cannot build the scratch tree: %s\n", t.err.c_str());
      return;
    }
    // fixed generated part: a constant table expanded by a constant LCG (not a random choice)
    std::uint64_t x = 0x20C20C20ULL;
    auto next = [&]
    {
      x = x * 6364136223846793005ULL + 1442695040888963407ULL;
      return (std::int64_t)((x >> 33) & 0x3fffffff);
    };
    for (int i = 0; i < 64; ++i)
    {
      c20::Row row(6);
      for (auto &v : row) v = next();
      if (!t.addGenerated(row))
      {
        std::fprintf(stderr, "fuzz_assets: cannot build the scratch tree: %s\n", t.err.c_str());
        return;
      }
    }
    cached = std::make_unique<Assets>(Assets::fromDirectory(t.rootGiven, false));
    perRequest = std::make_unique<Assets>(Assets::fromDirectory(t.rootGiven, true));
    ok = true; // the tree is removed by the prototype cache's atexit handler
  }
  static World &world()
  {
    static World *w = new World;
    return *w;
  }
};

// libFuzzer "extra counters": one feature per distinct resolution situation (how far
// the OS got with the name, through how many links, where it ended, what iora answered),
// so the corpus keeps names that reach new places in the tree although libstdc++'s
// std::filesystem itself is not instrumented.
__attribute__((section("__libfuzzer_extra_counters"))) unsigned char gFeatures[4096];

void feature(int r, const c20::NameFacts &f, const c20::LookupResult &res)
{
  std::uint64_t h = (std::uint64_t)r;
  h = h * 7 + (f.w.ok ? (f.w.isReg ? 2 : 1) : 0);
  h = h * 3 + (f.resolvesOutside ? 2 : (f.insideFile ? 1 : 0));
  h = h * 16 + (std::uint64_t)std::min(f.w.steps, 15);
  h = h * 6 + (std::uint64_t)std::min(f.w.symlinks, 5);
  h = h * 3 + (std::uint64_t)res.status;
  h = h * 16 + ((f.lex.nul ? 1u : 0u) | (f.lex.backslash ? 2u : 0u) | (f.lex.dotdot ? 4u : 0u) | (f.lex.leadingSlash ? 8u : 0u));
  h = h * 4 + ((f.lex.dot ? 1u : 0u) | (f.lex.dupSep ? 2u : 0u));
  h = h * 2 + (res.gzip ? 1u : 0u);
  h ^= h >> 29;
  h *= 0x9e3779b97f4a7c15ULL;
  gFeatures[(h >> 40) & 4095] = 1;
}

} // namespace

extern "C" int LLVMFuzzerTestOneInput(const uint8_t *data, size_t size)
{
  World &w = World::world();
  pbtf::count();
  if (!w.ok)
  {
    pbtf::label("inconclusive: scratch tree could not be built");
    return 0; // never a verdict on iora
  }
  if (size < 1) return 0;
  const int mode = data[0] & 3;
  // exact-size heap copy: any read past the end of the name is visible to ASan
  const std::size_t n = size - 1;
  std::unique_ptr<char[]> buf(new char[n ? n : 1]);
  std::memcpy(buf.get(), data + 1, n);
  std::string_view name(buf.get(), n);

  static unsigned long counter = 0;
  if ((++counter & 4095) == 0) w.cached->reload();

  FuzzSink sink;
  const int r = mode == 2 ? c20::R_TEMPL : mode == 3 ? c20::R_EXT : c20::R_STATIC;
  c20::NameFacts f = c20::factsFor(w.t, r, name);
  c20::LookupResult res;
  if (mode == 3)
  {
    iora::web::EmbeddedAssetRegistry reg;
    std::string extDir = w.t.extGiven;
    std::string_view ext[1] = {name};
    reg.externalDir = extDir;
    reg.externalPaths = ext;
    reg.externalPathsCount = 1;
    Assets a = Assets::fromEmbedded(reg);
    res = c20::doLookup(a, false, name);
  }
  else
    res = c20::doLookup(mode == 1 ? *w.perRequest : *w.cached, mode == 2, name);
  c20::judge(w.t, r, name, res, f, sink);
  feature(r, f, res);
  if (!f.walkOk) pbtf::label("inconclusive: walker and realpath(3) disagree");
  c20::labelLookup(r, res, f, sink);
  if (f.nontrivial)
    pbtf::nontrivial(pbtf::hash64(std::string_view((const char *)data, size)),
                     std::string(c20::apiName(r)) + " '" + c20::show(name, 120) + "'");
  return 0;
}
