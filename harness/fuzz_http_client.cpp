// libFuzzer target for C15 (client side): bytes + cut pattern -> HttpClient::frameResponse, driven
// exactly the way executeRequest() drives it (hook H2). Input: byte0/byte1 select the segmentation,
// byte2 selects the request method (bits 0-1) and whether the peer closes after the last byte (bit 2),
// the rest is what the server sent. Oracles inside the target:
//   * every call returns (-timeout), only HttpFramingError leaves the framer;
//   * wherever the independent strict parser gives a verdict: a valid final response (behind any
//     number of interim 1xx) is returned exactly as encoded (status, reason, fields, decoded body),
//     with the receive that completes the message, for the unsegmented and the segmented delivery;
//     a response with invalid length information or an incomplete one is never returned.
#include "pbt_fuzz.hpp"
#include "c15_exec.hpp"

using namespace c15;

extern "C" int LLVMFuzzerTestOneInput(const uint8_t *data, size_t size)
{
  pbtf::count();
  if (size < 4) return 0;
  unsigned a = data[0], b = data[1], m = data[2];
  static const char *methods[] = {"GET", "POST", "HEAD", "PUT"};
  std::string method = methods[m & 3];
  bool eof = (m >> 2) & 1;
  std::string wire(reinterpret_cast<const char *>(data + 3), size - 3);
  refhttp::Parsed ps = refhttp::parseResponse(wire, method, eof);
  ClientExpectation e = clientExpectationFromParse(ps, wire.size());
  if (e.kind == ClientExpectation::MustComplete) e.closeDelimited = refhttp::parseResponse(wire, method, false).closeDelimitedOpen;
  Cuts cuts = cutsFromPattern(a, b, wire.size());
  pbtf::label(std::string("tail ") + refhttp::tailName(ps.tail));
  if (e.kind == ClientExpectation::MustComplete && !cuts.empty() && (ps.msgs[0].chunked || wire.compare(0, 10, "HTTP/1.1 1") == 0))
    pbtf::nontrivial(pbtf::hash64(method + wire) ^ (a % 6), method + " pattern " + std::to_string(a % 6) + " stream " + refhttp::showBytes(wire, 300));
  bool firstOk = true;
  for (const Cuts *c : {(const Cuts *)nullptr, (const Cuts *)&cuts})
  {
    ClientRun r = runClient(method, wire, c ? *c : Cuts{}, eof);
    Failure f = judgeClientRun(r, e, wire);
    if (f.failed())
    {
      if (c && firstOk && f.sig.find("/invalid-length") == std::string::npos) f.sig += "@segmented-only";
      if (pbtf::fail(f.sig, f.what)) return 0;
    }
    if (!c) firstOk = !f.failed();
  }
  return 0;
}
