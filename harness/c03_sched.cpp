// c03_sched.cpp - schedule perturbation for the Transport-layer harnesses (C03/C04).
//
// Strong definitions of pthread_mutex_lock/unlock in the harness executable (the real ones
// via dlsym(RTLD_NEXT)). A thread that opted in through c03_sched_enable(seed) yields or
// sleeps a few microseconds before taking / after releasing a mutex, decided by its own
// xorshift generator seeded from the plan. This widens few-instruction windows inside iora
// (unlock -> lock gaps, check-then-lock) to tens of microseconds so that the other thread of
// the case can land in them. Not linked into TSan builds (it would bypass TSan's interceptors).
// Sound by construction: a thread may always be descheduled at these points.
#include <dlfcn.h>
#include <pthread.h>
#include <sched.h>
#include <unistd.h>

#include <cstdint>

namespace
{
using LockFn = int (*)(pthread_mutex_t *);
LockFn realLock = nullptr, realUnlock = nullptr;
thread_local bool tlOn = false;
thread_local bool tlBusy = false;
thread_local std::uint64_t tlState = 0;
// targeted hold: the n-th upcoming pthread_mutex_unlock of this thread is delayed - the thread keeps
// the mutex `holdBeforeUs` longer (another thread can queue up on it) and pauses `holdAfterUs` right
// after releasing it (the queued thread runs before this one continues, e.g. before it notifies)
thread_local int tlHoldCountdown = 0;
thread_local unsigned tlHoldBeforeUs = 0, tlHoldAfterUs = 0;
// the n-th upcoming pthread_mutex_lock of this thread is preceded by a pause (the thread is "descheduled"
// right before it takes the lock, e.g. between engine->close(sid) and the re-lock in connectSync)
thread_local int tlLockCountdown = 0;
thread_local unsigned tlLockBeforeUs = 0;

__attribute__((constructor)) void resolve()
{
  realLock = reinterpret_cast<LockFn>(dlsym(RTLD_NEXT, "pthread_mutex_lock"));
  realUnlock = reinterpret_cast<LockFn>(dlsym(RTLD_NEXT, "pthread_mutex_unlock"));
}

inline void perturb()
{
  if (!tlOn || tlBusy) return;
  tlBusy = true;
  std::uint64_t x = tlState;
  x ^= x << 13;
  x ^= x >> 7;
  x ^= x << 17;
  tlState = x;
  unsigned r = static_cast<unsigned>(x >> 33);
  if (r % 6 == 0) sched_yield();
  else if (r % 24 == 1) usleep(1 + (r >> 8) % 120);
  tlBusy = false;
}
} // namespace

extern "C" void c03_sched_enable(std::uint64_t seed)
{
  tlState = seed * 0x9e3779b97f4a7c15ULL + 0x1234567ULL;
  if (tlState == 0) tlState = 1;
  tlOn = true;
}
extern "C" void c03_sched_disable() { tlOn = false; }
extern "C" void c03_sched_hold_nth(int n, unsigned beforeUs, unsigned afterUs)
{
  tlHoldCountdown = n;
  tlHoldBeforeUs = beforeUs;
  tlHoldAfterUs = afterUs;
}

extern "C" void c03_sched_hold_lock_nth(int n, unsigned beforeUs)
{
  tlLockCountdown = n;
  tlLockBeforeUs = beforeUs;
}

extern "C" int pthread_mutex_lock(pthread_mutex_t *m)
{
  if (!realLock) resolve();
  if (tlLockCountdown > 0 && !tlBusy && --tlLockCountdown == 0)
  {
    tlBusy = true;
    if (tlLockBeforeUs) usleep(tlLockBeforeUs);
    tlBusy = false;
  }
  perturb();
  return realLock(m);
}
extern "C" int pthread_mutex_unlock(pthread_mutex_t *m)
{
  if (!realUnlock) resolve();
  if (tlHoldCountdown > 0 && !tlBusy && --tlHoldCountdown == 0)
  {
    tlBusy = true;
    unsigned b = tlHoldBeforeUs, a = tlHoldAfterUs;
    if (b) usleep(b);
    int r = realUnlock(m);
    if (a) usleep(a);
    tlBusy = false;
    return r;
  }
  int r = realUnlock(m);
  perturb();
  return r;
}
