// C15 - HTTP/1.1 message framing is exact, segmentation-independent and bounded.
// In-process harness (hooks H1/H2): generated request / response streams are cut at chosen
// points and fed to HttpServer::handleIncomingData / HttpClient::frameResponse.
//   selfcheck      : generator vs. the independent strict parser (no iora code) - validates the oracle
//   server_valid   : pipelines of 1-4 valid requests x (whole, ALL single cuts <= 512 B, multi-cuts)
//   server_badlen  : valid prefix + message with invalid length information + valid follow-up
//   server_bytes   : mutated / arbitrary byte streams: returns, nothing escapes, bounded, agrees with
//                    the strict parser wherever that gives a verdict
//   server_caps    : streams around the 64 KiB / 1 MiB caps: retained bytes bounded or session closed
//   client_valid   : 0-2 interim 1xx + final response (CL / chunked / close-delimited / bodyless) + surplus
//   client_badlen  : responses with invalid length information are never returned
//   client_bytes   : mutated / arbitrary bytes: only HttpFramingError leaves the framer
//   server_lengths / client_lengths : 2-3 Content-Length values (separate lines / comma lists / leading zeros, every order,
//                    zero first) that differ => never framed; equal values or Content-Length next to Transfer-Encoding =>
//                    rejected or framed correctly, nothing else
//   client_caps    : small configured response caps, bodies just below / at / above the cap (Content-Length,
//                    many small chunks, close-delimited) over several receives: a body beyond the cap is never returned
#include "pbt.hpp"
#include "c15_exec.hpp"
#include "c15_ref_http_gen.hpp"

#include <arpa/inet.h>
#include <cstring>
#include <netinet/in.h>
#include <netinet/tcp.h>
#include <poll.h>
#include <sys/socket.h>
#include <unistd.h>

using namespace c15;
using refhttp::Msg;

namespace
{


/// Segmentations to execute for a stream of n bytes: whole, single cuts (all if n <= 512, else a
/// sample biased to the hot offsets), byte-by-byte (n <= 1500), fixed strides and drawn multi-cuts.
std::vector<Cuts> planCuts(pbt::Src &src, std::size_t n, const std::vector<std::size_t> &hot, bool &exhaustive, std::size_t exhaustiveLimit = 512)
{
  std::vector<Cuts> plans;
  plans.push_back({});
  exhaustive = false;
  if (n < 2) return plans;
  std::vector<std::size_t> hotIn;
  for (auto h : hot)
    if (h > 0 && h < n) hotIn.push_back(h);
  std::sort(hotIn.begin(), hotIn.end());
  hotIn.erase(std::unique(hotIn.begin(), hotIn.end()), hotIn.end());
  if (n <= exhaustiveLimit)
  {
    exhaustive = true;
    for (std::size_t k = 1; k < n; ++k) plans.push_back({k});
  }
  else
  {
    // every hot offset if few, else a drawn stride through them; plus drawn offsets
    std::size_t stride = hotIn.size() <= 96 ? 1 : hotIn.size() / 96 + 1;
    std::size_t start = stride > 1 ? (std::size_t)src.range(0, (std::int64_t)stride - 1) : 0;
    for (std::size_t i = start; i < hotIn.size(); i += stride) plans.push_back({hotIn[i]});
    auto extra = src.rows(12, 1, 1, (std::int64_t)n - 1);
    for (auto &r : extra) plans.push_back({(std::size_t)r[0]});
  }
  if (n <= 1500)
  {
    Cuts all;
    for (std::size_t k = 1; k < n; ++k) all.push_back(k);
    plans.push_back(all);
  }
  {
    std::size_t step = (std::size_t)src.range(2, 9);
    Cuts c;
    for (std::size_t k = step; k < n && c.size() < 4000; k += step) c.push_back(k);
    plans.push_back(c);
  }
  // drawn multi-cuts: each row picks either a hot offset or any offset
  for (int rep = 0; rep < 2; ++rep)
  {
    auto rows = src.rows(8, 2, 0, 1 << 20);
    Cuts c;
    for (auto &r : rows)
    {
      std::size_t k;
      if (!hotIn.empty() && r[0] % 3 != 0) k = hotIn[(std::size_t)r[1] % hotIn.size()];
      else k = 1 + (std::size_t)r[1] % (n - 1);
      c.push_back(k);
    }
    std::sort(c.begin(), c.end());
    c.erase(std::unique(c.begin(), c.end()), c.end());
    if (!c.empty()) plans.push_back(c);
  }
  return plans;
}

bool hitsHot(const std::vector<Cuts> &plans, const std::vector<std::size_t> &hot)
{
  for (auto &p : plans)
    for (auto k : p)
      if (std::find(hot.begin(), hot.end(), k) != hot.end()) return true;
  return false;
}

const char *kFollowUpRequest = "GET /after HTTP/1.1\r\nHost: follow-up\r\n\r\n";

KnownFn knownFn() { return [](const std::string &s) { return pbt::isKnown(s); }; }

struct Pipeline
{
  std::vector<Msg> msgs;
  std::string wire;
  std::vector<std::size_t> hot;
  bool anyChunked = false, anyTrailers = false, anyExt = false;
};

Pipeline genPipeline(pbt::Src &src, const refhttp::GenOpts &o, int maxMsgs)
{
  Pipeline p;
  int n = (int)src.weighted({4, 3, 2, 1});
  n = std::min(n + 1, maxMsgs);
  for (int i = 0; i < n; ++i)
  {
    Msg m = refhttp::genRequest(src, o);
    for (auto h : m.hot) p.hot.push_back(p.wire.size() + h);
    p.wire += m.wire;
    if (i + 1 < n) p.hot.push_back(p.wire.size()); // message boundary
    p.anyChunked |= m.chunked;
    p.anyTrailers |= m.hasTrailers;
    p.anyExt |= m.hasExt;
    p.msgs.push_back(std::move(m));
  }
  return p;
}

ServerExpectation expectationFromPipeline(const Pipeline &p)
{
  ServerExpectation e;
  bool trailersSeen = false;
  for (auto &m : p.msgs)
  {
    ExpectedReq r;
    r.canon = m.exp.canon(true);
    r.afterTrailers = trailersSeen;
    if (m.chunked)
    {
      refhttp::Expect raw = m.exp;
      raw.body = m.wire.substr(m.bodyStart);
      r.canonRaw = raw.canon(true);
    }
    r.trailers = m.hasTrailers;
    if (m.hasTrailers) trailersSeen = true;
    e.must.push_back(std::move(r));
  }
  e.exact = true;
  e.requireDrained = true;
  return e;
}

std::string describePipeline(const Pipeline &p)
{
  pbt::Fmt f;
  f << p.msgs.size() << " request(s), " << p.wire.size() << " bytes: " << refhttp::showBytes(p.wire, 700);
  return f;
}

/// Runs all plans against the server, then judges them. Returns the first failure.
Failure runServerPlans(pbt::Case &c, const std::string &wire, const std::vector<Cuts> &plans, const ServerExpectation &e)
{
  std::vector<ServerRun> runs;
  runs.reserve(plans.size());
  for (auto &cuts : plans) runs.push_back(feedServer(wire, cuts));
  server().quiesce();
  Failure first;
  bool knownSeen = false;
  for (std::size_t i = 0; i < runs.size(); ++i)
  {
    collect(runs[i]);
    if (first.failed()) continue;
    Failure f = judgeServerRun(runs[i], e, wire, knownFn(), [&](const std::string &) { knownSeen = true; });
    if (f.failed())
    {
      // the unsegmented run is fine but this segmentation is not: say so in the signature
      if (i > 0 && f.sig.find("/invalid-length") == std::string::npos) f.sig += "@segmented-only";
      first = f;
    }
  }
  if (knownSeen) c.label("re-classified: chunked body handed over raw (known finding)");
  return first;
}

/// Like runServerPlans, but every run may satisfy ANY of the alternative expectations (recipient MAY accept or reject).
Failure runServerPlansAlt(const std::string &wire, const std::vector<Cuts> &plans, const std::vector<ServerExpectation> &alts, const std::string &sigIfNone)
{
  std::vector<ServerRun> runs;
  runs.reserve(plans.size());
  for (auto &cuts : plans) runs.push_back(feedServer(wire, cuts));
  server().quiesce();
  Failure first;
  for (std::size_t i = 0; i < runs.size(); ++i)
  {
    collect(runs[i]);
    if (first.failed()) continue;
    Failure f0;
    bool ok = false;
    for (std::size_t a = 0; a < alts.size() && !ok; ++a)
    {
      Failure f = judgeServerRun(runs[i], alts[a], wire, knownFn(), [](const std::string &) {});
      if (!f.failed()) ok = true;
      else if (a == 0) f0 = f;
      if (f.sig.find("exception-escapes") != std::string::npos || f.sig.find("buffer-beyond-cap") != std::string::npos) { first = f; break; }
    }
    if (!ok && !first.failed()) first = Failure{sigIfNone, "neither rejected nor framed as one of the acceptable readings; as a reject it fails with: " + f0.what};
  }
  return first;
}

void mutateBytes(pbt::Src &src, std::string &text, std::size_t maxMuts)
{
  static const std::vector<std::string> tokens = {
    "\r\n", "\r\n\r\n", "\n", "\r", "0\r\n\r\n", "Content-Length: ", "Transfer-Encoding: chunked\r\n", "chunked", "FFFFFFFFFFFFFFEC\r\n",
    "ffffffffffffffff\r\n", "18446744073709551616", "-1", "+", "0x", ";", ":", " ", "\t", ",", "5", "HTTP/1.1", "GET / HTTP/1.1\r\nHost: h\r\n\r\n",
    "HTTP/1.1 100 Continue\r\n\r\n", std::string(1, '\0'), "\xff", "7fffffffffffffff\r\n", "99999999999", "Content-Length: 0\r\n"};
  auto muts = src.rows(maxMuts, 3, 0, 1 << 16);
  for (auto &m : muts)
  {
    if (text.empty()) { text = tokens[(std::size_t)m[2] % tokens.size()]; continue; }
    std::size_t pos = (std::size_t)m[1] % text.size();
    const std::string &tok = tokens[(std::size_t)m[2] % tokens.size()];
    switch (m[0] % 7)
    {
    case 0: text.erase(pos, 1 + (std::size_t)m[2] % 4); break;
    case 1: text.insert(pos, tok); break;
    case 2: text.replace(pos, std::min(tok.size(), text.size() - pos), tok); break;
    case 3: text.resize(pos); break;
    case 4: text.insert(pos, text.substr(pos, (std::size_t)m[2] % 24)); break;
    case 5: text[pos] = char(m[2] & 0xff); break;
    default:
      // digit tweak: the classic off-by-one in a length field
      for (std::size_t k = pos; k < text.size(); ++k)
        if (text[k] >= '0' && text[k] <= '9') { text[k] = char('0' + (text[k] - '0' + 1 + m[2] % 8) % 10); break; }
    }
  }
}

} // namespace

// ------------------------------------------------------------------------------ selfcheck
// The generator's intended meaning and the independent strict parser must agree (neither is iora code).
PBT_PROPERTY(selfcheck)
{
  refhttp::GenOpts o;
  o.maxBody = 400;
  if (src.coin())
  {
    Pipeline p = genPipeline(src, o, 4);
    c.describe(describePipeline(p));
    refhttp::Parsed ps = refhttp::parseRequests(p.wire);
    if (ps.tail != refhttp::Tail::Ok || ps.msgs.size() != p.msgs.size())
    {
      c.fail("harness/selfcheck/request-parse", pbt::Fmt() << "strict parser: tail=" << refhttp::tailName(ps.tail) << " why=" << ps.why << " msgs=" << ps.msgs.size());
      return;
    }
    for (std::size_t i = 0; i < p.msgs.size(); ++i)
      if (ps.msgs[i].canon(true) != p.msgs[i].exp.canon(true) || ps.msgs[i].trailers != p.msgs[i].hasTrailers)
      {
        c.fail("harness/selfcheck/request-meaning", pbt::Fmt() << "message " << i << ": parser {" << refhttp::showBytes(ps.msgs[i].canon(true), 300) << "} generator {"
                                                                << refhttp::showBytes(p.msgs[i].exp.canon(true), 300) << "}");
        return;
      }
    // every proper prefix is incomplete or a shorter valid pipeline; never an error
    std::size_t cut = (std::size_t)src.range(0, (std::int64_t)p.wire.size());
    refhttp::Parsed pp = refhttp::parseRequests(std::string_view(p.wire).substr(0, cut));
    if (pp.tail != refhttp::Tail::Ok && pp.tail != refhttp::Tail::Incomplete)
      c.fail("harness/selfcheck/prefix", pbt::Fmt() << "prefix " << cut << " classified " << refhttp::tailName(pp.tail) << ": " << pp.why);
    // repeated / combined length fields: conflict => invalid length information; equal or next to Transfer-Encoding => no verdict
    {
      refhttp::LengthCombo lc = refhttp::genLengthCombo(src, true);
      refhttp::Parsed pl = refhttp::parseRequests(lc.wire);
      refhttp::Parsed pr = refhttp::parseResponse(refhttp::genLengthCombo(src, false).wire, "GET", true);
      (void)pr;
      if (!pl.msgs.empty() || pl.tail != (lc.mustReject ? refhttp::Tail::BadLength : refhttp::Tail::Unsupported))
      {
        c.fail("harness/selfcheck/length-combo", pbt::Fmt() << lc.kind << " classified " << refhttp::tailName(pl.tail) << " (" << pl.why << ") wire=" << refhttp::showBytes(lc.wire, 300));
        return;
      }
      refhttp::LengthCombo lr = refhttp::genLengthCombo(src, false);
      refhttp::Parsed p2 = refhttp::parseResponse(lr.wire, "GET", true);
      if (!p2.msgs.empty() || p2.tail != (lr.mustReject ? refhttp::Tail::BadLength : refhttp::Tail::Unsupported))
      {
        c.fail("harness/selfcheck/length-combo", pbt::Fmt() << lr.kind << " (response) classified " << refhttp::tailName(p2.tail) << " (" << p2.why << ") wire=" << refhttp::showBytes(lr.wire, 300));
        return;
      }
    }
    // invalid length information is recognised as such
    refhttp::BadLen b = src.coin(1, 5) ? refhttp::genHugeChunk(src, true) : refhttp::genBadLength(src, true);
    refhttp::Parsed pb = refhttp::parseRequests(b.wire);
    bool huge = b.kind == "chunk-size-near-2p64";
    if (!pb.msgs.empty() || pb.tail != (huge ? refhttp::Tail::Incomplete : refhttp::Tail::BadLength))
      c.fail("harness/selfcheck/badlen", pbt::Fmt() << b.kind << " classified " << refhttp::tailName(pb.tail) << " (" << pb.why << ") msgs=" << pb.msgs.size() << " wire="
                                                    << refhttp::showBytes(b.wire, 300));
  }
  else
  {
    static const std::vector<std::string> methods = {"GET", "POST", "HEAD", "PUT", "DELETE"};
    std::string method = src.oneOf(methods);
    std::string wire;
    int interims = (int)src.weighted({5, 2, 1});
    for (int i = 0; i < interims; ++i) wire += refhttp::genResponse(src, o, method, true, false).wire;
    Msg fin = refhttp::genResponse(src, o, method, false, true);
    wire += fin.wire;
    c.describe(method + " <- " + refhttp::showBytes(wire, 700));
    refhttp::Parsed ps = refhttp::parseResponse(wire, method, true);
    if (ps.tail != refhttp::Tail::Ok || ps.msgs.size() != 1 || ps.msgs[0].canon(false) != fin.exp.canon(false) || ps.ends[0] != wire.size())
    {
      c.fail("harness/selfcheck/response", pbt::Fmt() << "strict parser: tail=" << refhttp::tailName(ps.tail) << " why=" << ps.why << " msgs=" << ps.msgs.size());
      return;
    }
    refhttp::BadLen b = src.coin(1, 5) ? refhttp::genHugeChunk(src, false) : refhttp::genBadLength(src, false);
    refhttp::Parsed pb = refhttp::parseResponse(b.wire, "GET", true);
    bool huge = b.kind == "chunk-size-near-2p64";
    if (!pb.msgs.empty() || pb.tail != (huge ? refhttp::Tail::Incomplete : refhttp::Tail::BadLength))
      c.fail("harness/selfcheck/badlen", pbt::Fmt() << b.kind << " classified " << refhttp::tailName(pb.tail) << " (" << pb.why << ") wire=" << refhttp::showBytes(b.wire, 300));
  }
}

// --------------------------------------------------------------------------- server_valid
PBT_PROPERTY(server_valid)
{
  pbt::watchdog(60, "C15/server/call-does-not-return");
  refhttp::GenOpts o;
  o.maxBody = src.coin(1, 12) ? 70000 : (src.coin(1, 3) ? 1200 : 160);
  // known-finding exclusions by construction
  if (pbt::isKnown("C15/server/message-after-trailers-lost") || pbt::isKnown("C15/server/message-after-trailers-lost@segmented-only")) o.trailers = false;
  Pipeline p = genPipeline(src, o, 4);
  c.describe(describePipeline(p));
  bool exhaustive = false;
  std::vector<Cuts> plans = planCuts(src, p.wire.size(), p.hot, exhaustive);
  if (p.anyChunked) c.label("has chunked request");
  if (p.anyTrailers) c.label("has trailer section");
  if (p.anyExt) c.label("has chunk extension");
  if (p.msgs.size() >= 2) c.label("pipelined >= 2");
  if (exhaustive) c.label("all single cuts executed");
  if (p.wire.size() > 65536) c.label("stream > 64 KiB");
  if ((p.anyChunked || p.msgs.size() >= 2) && hitsHot(plans, p.hot)) c.nontrivial(pbt::hash64(p.wire));
  Failure f = runServerPlans(c, p.wire, plans, expectationFromPipeline(p));
  if (f.failed()) c.fail(f.sig, f.what);
}

// -------------------------------------------------------------------------- server_badlen
PBT_PROPERTY(server_badlen)
{
  pbt::watchdog(60, "C15/server/call-does-not-return");
  refhttp::GenOpts o;
  o.maxBody = 120;
  o.trailers = !(pbt::isKnown("C15/server/message-after-trailers-lost"));
  Pipeline p;
  if (src.coin(2, 3)) p = genPipeline(src, o, 2);
  bool huge = src.coin(1, 6);
  if (huge && pbt::isKnown("C15/server/call-does-not-return"))
  {
    c.label("excluded: chunk size near 2^64 (known finding: endless loop)");
    huge = false;
  }
  refhttp::BadLen b = huge ? refhttp::genHugeChunk(src, true) : refhttp::genBadLength(src, true);
  std::size_t badStart = p.wire.size();
  std::string wire = p.wire + b.wire;
  // a valid follow-up request: must never be handed over, its start cannot be known
  if (src.coin(3, 4)) wire += "GET /after HTTP/1.1\r\nHost: follow-up\r\n\r\n";
  c.describe(pbt::Fmt() << "kind=" << b.kind << " valid-prefix=" << p.msgs.size() << " stream=" << refhttp::showBytes(wire, 700));
  c.label("kind " + b.kind);
  ServerExpectation e = expectationFromPipeline(p);
  e.requireDrained = false;
  e.requireRejected = !huge; // a size near 2^64 is well-formed hex: it need only never be framed (and must not hang)
  e.badKind = b.kind;
  std::vector<std::size_t> hot = p.hot;
  for (std::size_t k = badStart; k <= badStart + b.wire.size(); ++k) hot.push_back(k);
  bool exhaustive = false;
  std::vector<Cuts> plans = planCuts(src, wire.size(), hot, exhaustive, 400);
  c.nontrivial(pbt::hash64(wire));
  Failure f = runServerPlans(c, wire, plans, e);
  if (f.failed())
  {
    if (huge && f.sig.find("/unexpected-message") != std::string::npos) f.sig = "C15/server/invalid-length-framed/" + b.kind;
    c.fail(f.sig, f.what);
  }
}

// --------------------------------------------------------------------------- server_bytes
PBT_PROPERTY(server_bytes)
{
  pbt::watchdog(60, "C15/server/call-does-not-return");
  refhttp::GenOpts o;
  o.maxBody = 100;
  std::string wire;
  if (src.coin(1, 6)) wire = src.blob(300);
  else
  {
    wire = genPipeline(src, o, 3).wire;
    mutateBytes(src, wire, 5);
  }
  refhttp::Parsed ps = refhttp::parseRequests(wire);
  bool wrap = false;
  if (pbt::isKnown("C15/server/call-does-not-return"))
  {
    // exclusion by construction: a chunk-size line with >= 15 hex digits can wrap the position arithmetic
    std::size_t run = 0;
    for (unsigned char ch : wire)
    {
      run = refhttp::isHex(ch) ? run + 1 : 0;
      if (run >= 15) wrap = true;
    }
  }
  c.describe(pbt::Fmt() << "strict verdict: " << ps.msgs.size() << " valid, tail=" << refhttp::tailName(ps.tail) << " (" << ps.why << ") stream=" << refhttp::showBytes(wire, 700));
  c.label(std::string("tail ") + refhttp::tailName(ps.tail));
  if (wrap) { c.label("excluded: long hex run (known finding: endless loop)"); return; }
  ServerExpectation e = expectationFromParse(ps, wire);
  if (ps.tail == refhttp::Tail::BadLength)
  {
    if (pbt::isKnown("C15/server/invalid-length-stalls/" + ps.why)) e.requireRejected = false;
  }
  bool exhaustive = false;
  std::vector<std::size_t> hot;
  std::vector<Cuts> plans = planCuts(src, wire.size(), hot, exhaustive, 160);
  c.nontrivial(pbt::hash64(wire));
  Failure f = runServerPlans(c, wire, plans, e);
  if (f.failed()) c.fail(f.sig, f.what);
}

// ---------------------------------------------------------------------------- server_caps
// Hostile streams that never complete a message: retained bytes stay within the cap or the session is closed.
PBT_PROPERTY(server_caps)
{
  pbt::watchdog(120, "C15/server/call-does-not-return");
  int kind = (int)src.range(0, 3);
  std::size_t total = (std::size_t)src.range(1, 3) * 600 * 1024; // 0.6 / 1.2 / 1.8 MiB
  std::string wire;
  switch (kind)
  {
  case 0: wire = "GET / HTTP/1.1\r\nHost: h\r\nX-Pad: " + std::string(total, 'a'); break;                             // header never ends
  case 1: wire = "POST / HTTP/1.1\r\nHost: h\r\nContent-Length: 9000000\r\n\r\n" + std::string(total, 'b'); break;      // body below MAX_BODY, above the buffer cap
  case 2: wire = "POST / HTTP/1.1\r\nHost: h\r\nTransfer-Encoding: chunked\r\n\r\n7fffffff\r\n" + std::string(total, 'c'); break;
  default: wire = std::string(total, '\n'); break;
  }
  std::size_t seg = (std::size_t)src.oneOf<std::int64_t>({1000, 4096, 65536, 30000});
  Cuts cuts;
  for (std::size_t k = seg; k < wire.size(); k += seg) cuts.push_back(k);
  c.describe(pbt::Fmt() << "kind=" << kind << " total=" << wire.size() << " segment=" << seg);
  c.label("kind " + std::to_string(kind));
  c.nontrivial(pbt::hashMix(kind, pbt::hashMix(total, seg)));
  ServerRun r = feedServer(wire, cuts);
  server().quiesce();
  collect(r);
  if (r.threw) { c.fail("C15/server/exception-escapes-data-callback", r.threwWhat); return; }
  if (r.peakRetained > Probe::maxBuffer()) { c.fail("C15/server/buffer-beyond-cap", pbt::Fmt() << "retained " << r.peakRetained << " > " << Probe::maxBuffer()); return; }
  if (!r.log.seen.empty()) { c.fail("C15/server/unexpected-message", "a request was handed over from a stream that contains no complete message"); return; }
  if (wire.size() > Probe::maxBuffer() + 65536 && !r.log.closed)
    c.fail("C15/server/buffer-beyond-cap", pbt::Fmt() << wire.size() << " bytes without a complete message accepted, session still open, retained=" << r.retainedEnd);
}

// --------------------------------------------------------------------------- client_valid
namespace
{
struct Exchange
{
  std::string method, wire;
  Msg fin;
  std::vector<std::size_t> hot;
  int interims = 0;
  std::size_t surplus = 0;
  std::size_t messageEnd = 0;
};

Exchange genExchange(pbt::Src &src, const refhttp::GenOpts &o)
{
  Exchange x;
  static const std::vector<std::string> methods = {"GET", "GET", "POST", "HEAD", "PUT", "DELETE", "OPTIONS"};
  x.method = src.oneOf(methods);
  x.interims = (int)src.weighted({6, 2, 1});
  for (int i = 0; i < x.interims; ++i)
  {
    Msg im = refhttp::genResponse(src, o, x.method, true, false);
    for (auto h : im.hot) x.hot.push_back(x.wire.size() + h);
    x.wire += im.wire;
    x.hot.push_back(x.wire.size());
  }
  x.fin = refhttp::genResponse(src, o, x.method, false, true);
  for (auto h : x.fin.hot) x.hot.push_back(x.wire.size() + h);
  x.wire += x.fin.wire;
  x.messageEnd = x.wire.size();
  if (!x.fin.closeDelimited && src.coin(1, 4))
  {
    static const std::vector<std::string> extra = {"X", "\r\n", "HTTP/1.1 200 OK\r\nContent-Length: 0\r\n\r\n", "0\r\n\r\n", std::string(1, '\0')};
    std::string s = src.oneOf(extra);
    x.surplus = s.size();
    x.hot.push_back(x.wire.size());
    x.wire += s;
  }
  return x;
}

Failure runClientPlans(const std::string &method, const std::string &wire, const std::vector<Cuts> &plans, const ClientExpectation &e, bool eof,
                       std::size_t cap = 0)
{
  for (std::size_t i = 0; i < plans.size(); ++i)
  {
    ClientRun r = runClient(method, wire, plans[i], eof, cap);
    Failure f = judgeClientRun(r, e, wire);
    if (f.failed())
    {
      if (i > 0 && f.sig.find("/invalid-length") == std::string::npos) f.sig += "@segmented-only";
      return f;
    }
  }
  return {};
}
} // namespace

PBT_PROPERTY(client_valid)
{
  pbt::watchdog(60, "C15/client/call-does-not-return");
  refhttp::GenOpts o;
  o.maxBody = src.coin(1, 12) ? 70000 : (src.coin(1, 3) ? 1200 : 160);
  Exchange x = genExchange(src, o);
  c.describe(pbt::Fmt() << x.method << " <- " << x.interims << " interim + final " << x.fin.exp.status << ", " << x.wire.size() << " bytes: " << refhttp::showBytes(x.wire, 700));
  if (x.fin.chunked) c.label("chunked");
  if (x.fin.closeDelimited) c.label("close-delimited");
  if (x.interims) c.label("interim 1xx");
  if (x.surplus) c.label("surplus bytes behind the message");
  if (x.fin.hasTrailers) c.label("has trailer section");
  if (x.fin.hasExt) c.label("has chunk extension");
  if (x.method == "HEAD" || x.fin.exp.status == 204 || x.fin.exp.status == 304) c.label("bodyless final response");
  bool exhaustive = false;
  std::vector<Cuts> plans = planCuts(src, x.wire.size(), x.hot, exhaustive);
  if (exhaustive) c.label("all single cuts executed");
  if ((x.fin.chunked || x.interims) && hitsHot(plans, x.hot)) c.nontrivial(pbt::hash64(x.method + x.wire));
  ClientExpectation e;
  e.kind = ClientExpectation::MustComplete;
  e.canon = x.fin.exp.canon(false);
  e.messageEnd = x.messageEnd;
  e.closeDelimited = x.fin.closeDelimited;
  Failure f = runClientPlans(x.method, x.wire, plans, e, /*eof=*/true);
  if (f.failed()) c.fail(f.sig, f.what);
}

// -------------------------------------------------------------------------- client_badlen
PBT_PROPERTY(client_badlen)
{
  pbt::watchdog(60, "C15/client/call-does-not-return");
  refhttp::GenOpts o;
  o.maxBody = 100;
  std::string method = src.coin(1, 4) ? "POST" : "GET";
  std::string wire;
  int interims = (int)src.weighted({4, 1});
  for (int i = 0; i < interims; ++i) wire += refhttp::genResponse(src, o, method, true, false).wire;
  bool huge = src.coin(1, 6);
  refhttp::BadLen b = huge ? refhttp::genHugeChunk(src, false) : refhttp::genBadLength(src, false);
  std::size_t badStart = wire.size();
  wire += b.wire;
  if (src.coin()) wire += "HTTP/1.1 200 OK\r\nContent-Length: 2\r\n\r\nok";
  c.describe(pbt::Fmt() << "kind=" << b.kind << " " << method << " <- " << refhttp::showBytes(wire, 700));
  c.label("kind " + b.kind);
  c.nontrivial(pbt::hash64(wire));
  ClientExpectation e;
  e.kind = ClientExpectation::MustNotComplete;
  e.rejectExpected = true;
  e.badKind = b.kind;
  std::vector<std::size_t> hot;
  for (std::size_t k = badStart; k <= badStart + b.wire.size(); ++k) hot.push_back(k);
  bool exhaustive = false;
  std::vector<Cuts> plans = planCuts(src, wire.size(), hot, exhaustive, 400);
  // Config::maxResponseBytes is caller-configurable: with the cap raised to SIZE_MAX nothing but the
  // framer's own arithmetic stands between a chunk size near 2^64 and the buffer
  std::size_t cap = (huge && src.coin()) ? SIZE_MAX : 0;
  if (cap) c.label("response cap raised to SIZE_MAX");
  Failure f = runClientPlans(method, wire, plans, e, /*eof=*/true, cap);
  if (f.failed()) c.fail(f.sig, f.what);
}

// --------------------------------------------------------------------------- client_bytes
PBT_PROPERTY(client_bytes)
{
  pbt::watchdog(60, "C15/client/call-does-not-return");
  refhttp::GenOpts o;
  o.maxBody = 100;
  static const std::vector<std::string> methods = {"GET", "POST", "HEAD"};
  std::string method = src.oneOf(methods);
  std::string wire;
  if (src.coin(1, 6)) wire = src.blob(300);
  else
  {
    Exchange x = genExchange(src, o);
    wire = x.wire;
    mutateBytes(src, wire, 5);
  }
  bool eof = src.coin();
  refhttp::Parsed ps = refhttp::parseResponse(wire, method, eof);
  c.describe(pbt::Fmt() << method << " eof=" << eof << " strict verdict: " << ps.msgs.size() << " final, tail=" << refhttp::tailName(ps.tail) << " (" << ps.why << ") stream="
                        << refhttp::showBytes(wire, 700));
  c.label(std::string("tail ") + refhttp::tailName(ps.tail));
  c.nontrivial(pbt::hash64(method + wire));
  ClientExpectation e = clientExpectationFromParse(ps, wire.size());
  // the strict parser reads the final response only; close-delimited shows as messageEnd == size
  if (e.kind == ClientExpectation::MustComplete)
  {
    refhttp::Parsed open = refhttp::parseResponse(wire, method, false);
    e.closeDelimited = open.closeDelimitedOpen;
  }
  // a small cap now and then: the framer must reject, never truncate
  bool exhaustive = false;
  std::vector<std::size_t> hot;
  std::vector<Cuts> plans = planCuts(src, wire.size(), hot, exhaustive, 160);
  Failure f = runClientPlans(method, wire, plans, e, eof);
  if (f.failed()) c.fail(f.sig, f.what);
}

// ------------------------------------------------------------------- server_lengths / client_lengths
PBT_PROPERTY(server_lengths)
{
  pbt::watchdog(60, "C15/server/call-does-not-return");
  refhttp::GenOpts o;
  o.maxBody = 60;
  o.trailers = !pbt::isKnown("C15/server/message-after-trailers-lost");
  Pipeline p;
  if (src.coin()) p = genPipeline(src, o, 1);
  refhttp::LengthCombo lc = refhttp::genLengthCombo(src, true);
  std::size_t badStart = p.wire.size();
  std::string wire = p.wire + lc.wire + kFollowUpRequest;
  c.describe(pbt::Fmt() << "kind=" << lc.kind << " valid-prefix=" << p.msgs.size() << " stream=" << refhttp::showBytes(wire, 700));
  c.label("kind " + lc.kind);
  c.nontrivial(pbt::hash64(wire));
  std::vector<std::size_t> hot = p.hot;
  for (std::size_t k = badStart; k <= badStart + lc.wire.size(); ++k) hot.push_back(k);
  bool exhaustive = false;
  std::vector<Cuts> plans = planCuts(src, wire.size(), hot, exhaustive, 400);
  ServerExpectation rejected = expectationFromPipeline(p);
  rejected.requireDrained = false;
  rejected.requireRejected = true;
  rejected.badKind = lc.kind;
  if (lc.mustReject)
  {
    Failure f = runServerPlans(c, wire, plans, rejected);
    if (f.failed()) c.fail(f.sig, f.what);
    return;
  }
  std::vector<ServerExpectation> alts{rejected};
  for (auto &acc : lc.accepted)
  {
    ServerExpectation e = expectationFromPipeline(p);
    ExpectedReq r;
    r.canon = acc.canon(true);
    e.must.push_back(r);
    ExpectedReq fu;
    fu.canon = "GET /after\nhost: follow-up\n\n";
    e.must.push_back(fu);
    e.requireDrained = true;
    alts.push_back(e);
  }
  Failure f = runServerPlansAlt(wire, plans, alts, "C15/server/repeated-length-misframed/" + lc.kind);
  if (f.failed()) c.fail(f.sig, f.what);
}

PBT_PROPERTY(client_lengths)
{
  pbt::watchdog(60, "C15/client/call-does-not-return");
  refhttp::GenOpts o;
  o.maxBody = 60;
  std::string method = src.coin(1, 4) ? "POST" : "GET";
  std::string wire;
  if (src.coin(1, 4)) wire += refhttp::genResponse(src, o, method, true, false).wire;
  refhttp::LengthCombo lc = refhttp::genLengthCombo(src, false);
  std::size_t badStart = wire.size();
  wire += lc.wire;
  std::size_t messageEnd = wire.size();
  if (src.coin()) wire += "HTTP/1.1 200 OK\r\nContent-Length: 2\r\n\r\nok";
  c.describe(pbt::Fmt() << "kind=" << lc.kind << " " << method << " <- " << refhttp::showBytes(wire, 700));
  c.label("kind " + lc.kind);
  c.nontrivial(pbt::hash64(wire));
  std::vector<std::size_t> hot;
  for (std::size_t k = badStart; k <= badStart + lc.wire.size(); ++k) hot.push_back(k);
  bool exhaustive = false;
  std::vector<Cuts> plans = planCuts(src, wire.size(), hot, exhaustive, 400);
  std::vector<ClientExpectation> alts;
  {
    ClientExpectation e;
    e.kind = ClientExpectation::MustNotComplete;
    e.rejectExpected = true;
    e.badKind = lc.kind;
    alts.push_back(e);
  }
  for (auto &acc : lc.accepted)
  {
    ClientExpectation e;
    e.kind = ClientExpectation::MustComplete;
    e.canon = acc.canon(false);
    e.messageEnd = messageEnd;
    alts.push_back(e);
  }
  for (auto &cuts : plans)
  {
    ClientRun r = runClient(method, wire, cuts, /*eof=*/true);
    Failure f0;
    bool ok = false;
    for (std::size_t a = 0; a < alts.size() && !ok; ++a)
    {
      Failure f = judgeClientRun(r, alts[a], wire);
      if (!f.failed()) ok = true;
      else if (a == 0) f0 = f;
    }
    if (!ok)
    {
      if (lc.mustReject) c.fail(f0.sig, f0.what);
      else c.fail("C15/client/repeated-length-misframed/" + lc.kind, "neither rejected nor returned as one of the acceptable readings; as a reject it fails with: " + f0.what);
      return;
    }
  }
}

// ---------------------------------------------------------------------------- client_caps
// "input from the peer can never make the endpoint ... buffer beyond its configured caps": the response cap
// (max(Config::maxResponseBytes, jsonConfig.maxPayloadSize)) is enforced by executeRequest's receive loop on the
// raw receive buffer, which the framer may edit (it erases interim responses). The probe mirrors that loop on the
// very buffer frameResponse() works on, so whatever the framer does to the buffer is reflected here.
// Guaranteed by the unchanged code (and demanded): (a) a returned body is never larger than the cap - the raw
// buffer holds at least the whole body when the message completes; (b) if everything the peer ever sent fits the
// cap, the response is returned exactly. Between (a) and (b) either outcome is acceptable.
namespace
{
struct CapCase
{
  std::string method = "GET", wire;
  refhttp::Expect exp;
  std::size_t cap = 0;
  bool closeDelimited = false, chunked = false;
  std::size_t chunkSize = 0;
};

std::string patternBody(std::size_t n, unsigned seed)
{
  std::string b(n, '\0');
  for (std::size_t i = 0; i < n; ++i) b[i] = char('a' + (seed + i * 7 + (i >> 9)) % 26);
  return b;
}

/// framing: 0 Content-Length, 1 chunked (equal chunks of chunkSize < cap), 2 close-delimited
CapCase makeCapCase(std::size_t cap, std::size_t bodyLen, int framing, std::size_t chunkSize, bool interim, unsigned seed)
{
  CapCase k;
  k.cap = cap;
  std::string body = patternBody(bodyLen, seed);
  k.exp.status = 200;
  k.exp.reason = "OK";
  k.exp.version = "1.1";
  k.exp.body = body;
  if (interim) k.wire += "HTTP/1.1 100 Continue\r\n\r\n";
  k.wire += "HTTP/1.1 200 OK\r\n";
  if (framing == 0)
  {
    k.exp.fields.push_back(refhttp::Field{"Content-Length", std::to_string(bodyLen)});
    k.wire += "Content-Length: " + std::to_string(bodyLen) + "\r\n\r\n" + body;
  }
  else if (framing == 1)
  {
    k.chunked = true;
    k.chunkSize = chunkSize;
    k.exp.fields.push_back(refhttp::Field{"Transfer-Encoding", "chunked"});
    k.wire += "Transfer-Encoding: chunked\r\n\r\n";
    static const char *hx = "0123456789abcdef";
    for (std::size_t off = 0; off < bodyLen; off += chunkSize)
    {
      std::size_t n = std::min(chunkSize, bodyLen - off);
      std::string h;
      for (std::size_t v = n; v; v >>= 4) h.insert(h.begin(), hx[v & 15]);
      k.wire += h + "\r\n";
      k.wire.append(body, off, n);
      k.wire += "\r\n";
    }
    k.wire += "0\r\n\r\n";
  }
  else
  {
    k.closeDelimited = true;
    k.wire += "Server: s\r\n\r\n" + body;
    k.exp.fields.push_back(refhttp::Field{"Server", "s"});
  }
  return k;
}

/// Judges one delivery of a cap case. Empty signature = pass.
Failure judgeCapRun(const CapCase &k, const ClientRun &r)
{
  auto where = [&]
  {
    return (pbt::Fmt() << " [cap=" << k.cap << " body=" << k.exp.body.size() << " stream=" << k.wire.size() << " bytes, "
                       << (k.chunked ? "chunked x" + std::to_string(k.chunkSize) : k.closeDelimited ? std::string("close-delimited") : std::string("content-length")) << ", "
                       << showCuts(r.cuts, k.wire.size()) << "]")
      .str();
  };
  if (r.threwOther) return {"C15/client/foreign-exception-leaves-framer", "exception other than HttpFramingError: " + r.what + where()};
  if (r.complete && r.bodySize > k.cap)
    return {"C15/client/body-beyond-cap-returned", pbt::Fmt() << "a response body of " << r.bodySize << " bytes was returned although the configured response cap is " << k.cap
                                                              << where()};
  if (k.wire.size() <= k.cap)
  {
    if (r.threwFraming) return {"C15/client/valid-response-rejected", "HttpFramingError although the whole stream fits the cap: " + r.what + where()};
    if (!r.complete) return {"C15/client/valid-response-never-completes", "response within the cap not framed" + where()};
    if (r.canon != k.exp.canon(false)) return {"C15/client/response-altered", "response within the cap returned altered" + where()};
  }
  if (r.complete && r.canon != k.exp.canon(false)) return {"C15/client/response-altered", "returned response differs from the encoded one" + where()};
  return {};
}

std::vector<Cuts> capPlans(pbt::Src *src, std::size_t n)
{
  std::vector<Cuts> plans;
  plans.push_back({}); // one write: the probe still splits it into 8 KiB receives
  for (std::size_t step : {(std::size_t)1000, (std::size_t)257, (std::size_t)4096})
  {
    Cuts c;
    for (std::size_t kpos = step; kpos < n; kpos += step) c.push_back(kpos);
    plans.push_back(c);
  }
  if (src)
  {
    std::size_t step = (std::size_t)src->range(1, 3000);
    Cuts c;
    for (std::size_t kpos = step; kpos < n && c.size() < 70000; kpos += step) c.push_back(kpos);
    plans.push_back(c);
  }
  return plans;
}
} // namespace

PBT_PROPERTY(client_caps)
{
  pbt::watchdog(120, "C15/client/call-does-not-return");
  std::size_t cap = (std::size_t)src.oneOf<std::int64_t>({4096, 8192, 16384, 65536});
  // body length relative to the cap: well below / just below (header block decides) / at / just above / far above
  std::size_t bodyLen;
  switch (src.weighted({2, 3, 1, 3, 2}))
  {
  case 0: bodyLen = (std::size_t)src.range(0, (std::int64_t)cap / 2); break;
  case 1: bodyLen = cap - (std::size_t)src.range(1, 400); break;
  case 2: bodyLen = cap; break;
  case 3: bodyLen = cap + (std::size_t)src.range(1, 400); break;
  default: bodyLen = cap + (std::size_t)src.range(401, (std::int64_t)cap * 2); break;
  }
  int framing = (int)src.weighted({2, 5, 2});
  std::size_t chunkSize = (std::size_t)src.oneOf<std::int64_t>({1, 7, 16, 100, 255, 1000, 2048});
  if (chunkSize == 1 && bodyLen > 20000) chunkSize = 7;
  CapCase k = makeCapCase(cap, bodyLen, framing, chunkSize, src.coin(1, 4), (unsigned)src.range(0, 25));
  c.describe(pbt::Fmt() << "cap=" << cap << " body=" << bodyLen << " stream=" << k.wire.size() << " framing=" << framing << " chunk=" << chunkSize << " head="
                        << refhttp::showBytes(k.wire, 120));
  c.label(bodyLen > cap ? "body above the cap" : (k.wire.size() <= cap ? "whole stream within the cap" : "body within, stream above the cap"));
  c.label(k.chunked ? "chunked" : k.closeDelimited ? "close-delimited" : "content-length");
  c.nontrivial(pbt::hashMix(cap, pbt::hashMix(bodyLen, pbt::hashMix((std::uint64_t)framing, chunkSize))));
  for (auto &cuts : capPlans(&src, k.wire.size()))
  {
    ClientRun r = runClient(k.method, k.wire, cuts, /*eof=*/true, cap);
    Failure f = judgeCapRun(k, r);
    if (f.failed()) { c.fail(f.sig, f.what); return; }
  }
}

// ------------------------------------------------------------------------------- loopback
// End-to-end samples over real loopback sockets: they validate that the in-process route above
// (hooks H1/H2) represents what the socket path does. Segmentation is only *suggested* here
// (TCP_NODELAY + pauses); every oracle is one-sided with respect to time.
namespace
{
class LoopServer : public iora::network::HttpServer
{
public:
  LoopServer() : iora::network::HttpServer("127.0.0.1", 0)
  {
    setDefaultHandler(
      [this](const Request &rq, Response &rs)
      {
        refhttp::Expect e;
        e.method = iora::network::toString(rq.method);
        e.path = rq.path;
        for (auto &kv : rq.headers) e.fields.push_back(refhttp::Field{kv.first, kv.second});
        e.body = rq.body;
        std::lock_guard<std::mutex> lock(m);
        log.seen.push_back(e.canon(true));
        rs.status = 200;
        rs.set_content("ok", "text/plain");
      });
  }
  void closeSession(iora::network::SessionId sid) override
  {
    {
      std::lock_guard<std::mutex> lock(m);
      log.closed = true;
    }
    iora::network::HttpServer::closeSession(sid);
  }
  SessLog snapshot()
  {
    std::lock_guard<std::mutex> lock(m);
    return log;
  }
  std::mutex m;
  SessLog log;
};

int freePort()
{
  int fd = ::socket(AF_INET, SOCK_STREAM, 0);
  sockaddr_in a{};
  a.sin_family = AF_INET;
  a.sin_addr.s_addr = htonl(INADDR_LOOPBACK);
  a.sin_port = 0;
  if (::bind(fd, (sockaddr *)&a, sizeof a) != 0) { ::close(fd); return 0; }
  socklen_t l = sizeof a;
  ::getsockname(fd, (sockaddr *)&a, &l);
  ::close(fd);
  return ntohs(a.sin_port);
}

bool sendAll(int fd, const char *p, std::size_t n)
{
  while (n)
  {
    ssize_t k = ::send(fd, p, n, MSG_NOSIGNAL);
    if (k <= 0) return false;
    p += k;
    n -= (std::size_t)k;
  }
  return true;
}

Cuts drawnCuts(pbt::Src &src, std::size_t n, const std::vector<std::size_t> &hot)
{
  Cuts c;
  if (n < 2) return c;
  auto rows = src.rows(6, 2, 0, 1 << 20);
  for (auto &r : rows)
  {
    std::size_t k = (!hot.empty() && r[0] % 3 != 0) ? hot[(std::size_t)r[1] % hot.size()] : 1 + (std::size_t)r[1] % (n - 1);
    if (k > 0 && k < n) c.push_back(k);
  }
  std::sort(c.begin(), c.end());
  c.erase(std::unique(c.begin(), c.end()), c.end());
  return c;
}
} // namespace

PBT_PROPERTY(loopback_server)
{
  pbt::watchdog(180, "C15/loopback/case-does-not-finish");
  iora::core::Logger::setLevel(iora::core::Logger::Level::Fatal);
  refhttp::GenOpts o;
  o.maxBody = 300;
  if (pbt::isKnown("C15/server/message-after-trailers-lost")) o.trailers = false;
  Pipeline p = genPipeline(src, o, 3);
  Cuts cuts = drawnCuts(src, p.wire.size(), p.hot);
  c.describe(describePipeline(p) + " " + showCuts(cuts, p.wire.size()));
  for (auto &m : p.msgs)
    for (auto &f : m.exp.fields)
      if (refhttp::lower(f.name) == "connection" && refhttp::lower(f.value) == "close")
      {
        // with a live transport the server closes behind this response: later requests may legitimately be dropped
        c.label("discarded: pipeline contains Connection: close");
        return;
      }
  if (p.anyChunked) c.label("has chunked request");
  if (p.msgs.size() >= 2) c.label("pipelined >= 2");
  if ((p.anyChunked || p.msgs.size() >= 2) && !cuts.empty()) c.nontrivial(pbt::hash64(p.wire));
  LoopServer srv;
  int port = 0;
  for (int attempt = 0; attempt < 6 && !port; ++attempt)
  {
    int cand = freePort();
    if (!cand) continue;
    srv.setPort(cand);
    try
    {
      srv.start();
      port = cand;
    }
    catch (const std::exception &)
    {
      srv.stop();
    }
  }
  if (!port) { c.inconclusive("could not bind a loopback port"); return; }
  int fd = -1;
  for (int attempt = 0; attempt < 300 && fd < 0; ++attempt)
  {
    fd = ::socket(AF_INET, SOCK_STREAM, 0);
    sockaddr_in a{};
    a.sin_family = AF_INET;
    a.sin_addr.s_addr = htonl(INADDR_LOOPBACK);
    a.sin_port = htons((uint16_t)port);
    if (::connect(fd, (sockaddr *)&a, sizeof a) != 0)
    {
      ::close(fd);
      fd = -1;
      std::this_thread::sleep_for(std::chrono::milliseconds(20));
    }
  }
  if (fd < 0) { srv.stop(); c.inconclusive("could not connect to the loopback listener"); return; }
  int one = 1;
  ::setsockopt(fd, IPPROTO_TCP, TCP_NODELAY, &one, sizeof one);
  std::size_t pos = 0;
  bool sent = true;
  for (std::size_t i = 0; i <= cuts.size() && sent; ++i)
  {
    std::size_t end = i < cuts.size() ? cuts[i] : p.wire.size();
    sent = sendAll(fd, p.wire.data() + pos, end - pos);
    pos = end;
    if (i < cuts.size()) std::this_thread::sleep_for(std::chrono::milliseconds(3));
  }
  auto t0 = std::chrono::steady_clock::now();
  SessLog snap;
  while (true)
  {
    snap = srv.snapshot();
    if (snap.seen.size() >= p.msgs.size() || snap.closed) break;
    if (std::chrono::steady_clock::now() - t0 > std::chrono::seconds(30)) break;
    std::this_thread::sleep_for(std::chrono::milliseconds(2));
  }
  std::this_thread::sleep_for(std::chrono::milliseconds(30)); // grace for a message that should not exist
  snap = srv.snapshot();
  ::close(fd);
  srv.stop();
  if (!sent) { c.inconclusive("send failed"); return; }
  ServerRun r;
  r.cuts = cuts;
  r.log = snap;
  r.retainedEnd = 0;
  if (snap.seen.size() < p.msgs.size() && !snap.closed)
  {
    c.failTimed("C15/loopback/server-message-not-delivered-in-30s",
                pbt::Fmt() << snap.seen.size() << " of " << p.msgs.size() << " requests reached the handler within 30 s over a real socket");
    return;
  }
  bool knownSeen = false;
  Failure f = judgeServerRun(r, expectationFromPipeline(p), p.wire, knownFn(), [&](const std::string &) { knownSeen = true; });
  if (knownSeen) c.label("re-classified: chunked body handed over raw (known finding)");
  if (f.failed()) c.fail("C15/loopback" + f.sig.substr(3), f.what);
}

PBT_PROPERTY(loopback_client)
{
  pbt::watchdog(180, "C15/loopback/case-does-not-finish");
  iora::core::Logger::setLevel(iora::core::Logger::Level::Fatal);
  refhttp::GenOpts o;
  o.maxBody = 300;
  // the public API offers get/post/head/deleteRequest
  static const std::vector<std::string> methods = {"GET", "GET", "POST", "HEAD", "DELETE"};
  Exchange y;
  y.method = src.oneOf(methods);
  y.interims = (int)src.weighted({6, 2, 1});
  for (int i = 0; i < y.interims; ++i)
  {
    Msg im = refhttp::genResponse(src, o, y.method, true, false);
    for (auto h : im.hot) y.hot.push_back(y.wire.size() + h);
    y.wire += im.wire;
  }
  y.fin = refhttp::genResponse(src, o, y.method, false, true);
  for (auto h : y.fin.hot) y.hot.push_back(y.wire.size() + h);
  y.wire += y.fin.wire;
  Cuts cuts = drawnCuts(src, y.wire.size(), y.hot);
  // every third case: a small configured response cap (real Config fields) and a body around it, many small chunks,
  // written in several segments - the cap check lives in executeRequest's receive loop, which only this route runs
  std::size_t cap = 0;
  if (src.coin(1, 3))
  {
    cap = (std::size_t)src.oneOf<std::int64_t>({4096, 8192, 16384});
    std::size_t bodyLen;
    switch (src.weighted({2, 1, 3, 2}))
    {
    case 0: bodyLen = cap - (std::size_t)src.range(300, 2000); break;
    case 1: bodyLen = cap; break;
    case 2: bodyLen = cap + (std::size_t)src.range(1, 600); break;
    default: bodyLen = cap + (std::size_t)src.range(601, (std::int64_t)cap * 2); break;
    }
    CapCase k = makeCapCase(cap, bodyLen, (int)src.weighted({2, 5, 2}), (std::size_t)src.oneOf<std::int64_t>({7, 16, 100, 255, 1000}), src.coin(1, 4), (unsigned)src.range(0, 25));
    y = Exchange{};
    y.method = "GET";
    y.wire = k.wire;
    y.fin.exp = k.exp;
    y.fin.chunked = k.chunked;
    y.fin.closeDelimited = k.closeDelimited;
    cuts.clear();
    std::size_t step = (std::size_t)src.range(300, 3000);
    for (std::size_t kpos = step; kpos < y.wire.size() && cuts.size() < 40; kpos += step) cuts.push_back(kpos);
    c.label(bodyLen > cap ? "small cap: body above the cap" : (y.wire.size() <= cap ? "small cap: whole stream within the cap" : "small cap: body within, stream above"));
  }
  c.describe(pbt::Fmt() << y.method << " cap=" << cap << " <- " << refhttp::showBytes(y.wire, 600) << " " << showCuts(cuts, y.wire.size()));
  if (y.fin.chunked) c.label("chunked");
  if (y.fin.closeDelimited) c.label("close-delimited");
  if (y.interims) c.label("interim 1xx");
  if ((y.fin.chunked || y.interims) && !cuts.empty()) c.nontrivial(pbt::hash64(y.method + y.wire));

  int lfd = ::socket(AF_INET, SOCK_STREAM, 0);
  int one = 1;
  ::setsockopt(lfd, SOL_SOCKET, SO_REUSEADDR, &one, sizeof one);
  sockaddr_in a{};
  a.sin_family = AF_INET;
  a.sin_addr.s_addr = htonl(INADDR_LOOPBACK);
  a.sin_port = 0;
  if (::bind(lfd, (sockaddr *)&a, sizeof a) != 0 || ::listen(lfd, 4) != 0) { ::close(lfd); c.inconclusive("cannot listen"); return; }
  socklen_t l = sizeof a;
  ::getsockname(lfd, (sockaddr *)&a, &l);
  int port = ntohs(a.sin_port);
  std::atomic<bool> done{false};
  std::thread peer(
    [&]
    {
      pollfd pf{lfd, POLLIN, 0};
      if (::poll(&pf, 1, 60000) <= 0) return;
      int fd = ::accept(lfd, nullptr, nullptr);
      if (fd < 0) return;
      int on = 1;
      ::setsockopt(fd, IPPROTO_TCP, TCP_NODELAY, &on, sizeof on);
      std::string rq;
      char buf[4096];
      while (rq.find("\r\n\r\n") == std::string::npos)
      {
        pollfd p2{fd, POLLIN, 0};
        if (::poll(&p2, 1, 60000) <= 0) break;
        ssize_t k = ::recv(fd, buf, sizeof buf, 0);
        if (k <= 0) break;
        rq.append(buf, (std::size_t)k);
      }
      std::size_t pos = 0;
      for (std::size_t i = 0; i <= cuts.size(); ++i)
      {
        std::size_t end = i < cuts.size() ? cuts[i] : y.wire.size();
        if (!sendAll(fd, y.wire.data() + pos, end - pos)) break;
        pos = end;
        if (i < cuts.size()) std::this_thread::sleep_for(std::chrono::milliseconds(3));
      }
      if (y.fin.closeDelimited) ::shutdown(fd, SHUT_WR);
      for (int i = 0; i < 6000 && !done.load(); ++i) std::this_thread::sleep_for(std::chrono::milliseconds(10));
      ::close(fd);
    });
  iora::network::HttpClient::Config cfg;
  cfg.connectTimeout = std::chrono::milliseconds(20000);
  cfg.requestTimeout = std::chrono::milliseconds(30000);
  cfg.reuseConnections = false;
  if (cap)
  {
    cfg.maxResponseBytes = cap; // effective cap = max(maxResponseBytes, jsonConfig.maxPayloadSize)
    cfg.jsonConfig.maxPayloadSize = cap;
  }
  std::string url = "http://127.0.0.1:" + std::to_string(port) + "/x";
  bool got = false, framingErr = false;
  std::size_t gotBody = 0;
  std::string what, canon;
  {
    iora::network::HttpClient cl(cfg);
    try
    {
      iora::network::HttpClient::Response r = y.method == "GET"    ? cl.get(url)
                                              : y.method == "POST" ? cl.post(url, "payload")
                                              : y.method == "HEAD" ? cl.head(url)
                                                                   : cl.deleteRequest(url);
      refhttp::Expect e;
      e.status = r.statusCode;
      e.reason = r.statusText;
      e.version = r.httpVersion;
      for (auto &kv : r.headers) e.fields.push_back(refhttp::Field{kv.first, kv.second});
      e.body = r.body;
      gotBody = r.body.size();
      canon = e.canon(false);
      got = true;
    }
    catch (const iora::network::HttpFramingError &e)
    {
      framingErr = true;
      what = e.what();
    }
    catch (const std::exception &e)
    {
      what = e.what();
    }
    done = true;
  }
  peer.join();
  ::close(lfd);
  if (cap && got && gotBody > cap)
  {
    c.fail("C15/loopback/client/body-beyond-cap-returned", pbt::Fmt() << "HttpClient returned a body of " << gotBody << " bytes with maxResponseBytes = jsonConfig.maxPayloadSize = " << cap);
    return;
  }
  if (cap && y.wire.size() > cap)
  {
    // body within the cap but headers/chunk framing push the raw stream over it, or body above the cap: failing is right
    if (got && canon != y.fin.exp.canon(false)) c.fail("C15/loopback/client/response-altered", "returned response differs from the encoded one");
    return;
  }
  if (framingErr) { c.fail("C15/loopback/client/valid-response-rejected", "HttpFramingError over a real socket: " + what); return; }
  if (!got) { c.inconclusive("request failed for a transport reason: " + what); return; }
  if (canon != y.fin.exp.canon(false))
    c.fail("C15/loopback/client/response-altered", pbt::Fmt() << "expected {" << refhttp::showBytes(y.fin.exp.canon(false), 240) << "} got {" << refhttp::showBytes(canon, 240) << "}");
}

// ------------------------------------------------------------------------ fixed regressions
namespace
{
std::vector<Cuts> allSingleCutsAndBytewise(std::size_t n)
{
  std::vector<Cuts> plans;
  plans.push_back({});
  for (std::size_t k = 1; k < n; ++k) plans.push_back({k});
  Cuts all;
  for (std::size_t k = 1; k < n; ++k) all.push_back(k);
  if (n > 2) plans.push_back(all);
  return plans;
}

/// Server regression: the expectation comes from the strict parser; `expectValid` guards against a
/// vacuous pass (the hand-written stream must contain exactly that many valid requests).
void regressServer(pbt::Case &c, const std::string &wire, std::size_t expectValid, refhttp::Tail expectTail, bool requireRejected = true)
{
  pbt::watchdog(8, "C15/server/call-does-not-return");
  c.describe(refhttp::showBytes(wire, 700));
  refhttp::Parsed ps = refhttp::parseRequests(wire);
  if (ps.msgs.size() != expectValid || ps.tail != expectTail)
  {
    c.fail("harness/regression-stream", pbt::Fmt() << "strict parser: " << ps.msgs.size() << " valid, tail=" << refhttp::tailName(ps.tail) << " (" << ps.why << ")");
    return;
  }
  ServerExpectation e = expectationFromParse(ps, wire);
  if (!requireRejected) e.requireRejected = false;
  Failure f = runServerPlans(c, wire, allSingleCutsAndBytewise(wire.size()), e);
  if (f.failed()) c.fail(f.sig, f.what);
}

void regressClient(pbt::Case &c, const std::string &method, const std::string &wire, bool expectComplete, bool eof = true)
{
  pbt::watchdog(8, "C15/client/call-does-not-return");
  c.describe(method + " <- " + refhttp::showBytes(wire, 700));
  refhttp::Parsed ps = refhttp::parseResponse(wire, method, eof);
  ClientExpectation e = clientExpectationFromParse(ps, wire.size());
  if ((e.kind == ClientExpectation::MustComplete) != expectComplete || e.kind == ClientExpectation::Unconstrained)
  {
    c.fail("harness/regression-stream", pbt::Fmt() << "strict parser: tail=" << refhttp::tailName(ps.tail) << " (" << ps.why << ")");
    return;
  }
  if (expectComplete) e.closeDelimited = refhttp::parseResponse(wire, method, false).closeDelimitedOpen;
  Failure f = runClientPlans(method, wire, allSingleCutsAndBytewise(wire.size()), e, eof);
  if (f.failed()) c.fail(f.sig, f.what);
}
const char *kFollowUp = "GET /after HTTP/1.1\r\nHost: follow-up\r\n\r\n";
} // namespace

// --- suspected defects S16, one minimal case each
PBT_REGRESSION(server_chunk_size_wraps_position)
{
  // 16 hex digits: chunkSize + 2 + 18 (length of the size line) == 2^64 -> pos returns to the same line
  regressServer(c, std::string("POST /w HTTP/1.1\r\nHost: h\r\nTransfer-Encoding: chunked\r\n\r\nFFFFFFFFFFFFFFEC\r\nhello\r\n0\r\n\r\n") + kFollowUp, 0,
                refhttp::Tail::Incomplete);
}
PBT_REGRESSION(server_chunk_size_all_ones)
{
  regressServer(c, std::string("POST /w HTTP/1.1\r\nHost: h\r\nTransfer-Encoding: chunked\r\n\r\nffffffffffffffff\r\nhello\r\n0\r\n\r\n") + kFollowUp, 0, refhttp::Tail::Incomplete);
}
PBT_REGRESSION(server_chunk_size_not_hex_is_rejected)
{
  regressServer(c, std::string("POST /z HTTP/1.1\r\nHost: h\r\nTransfer-Encoding: chunked\r\n\r\nzz\r\nhello\r\n0\r\n\r\n") + kFollowUp, 0, refhttp::Tail::BadLength);
}
PBT_REGRESSION(server_chunk_size_sign_and_prefix_rejected)
{
  regressServer(c, std::string("POST /z HTTP/1.1\r\nHost: h\r\nTransfer-Encoding: chunked\r\n\r\n+5\r\nhello\r\n0\r\n\r\n") + kFollowUp, 0, refhttp::Tail::BadLength);
  if (c.failed()) return;
  regressServer(c, std::string("POST /z HTTP/1.1\r\nHost: h\r\nTransfer-Encoding: chunked\r\n\r\n0x5\r\nhello\r\n0\r\n\r\n") + kFollowUp, 0, refhttp::Tail::BadLength);
  if (c.failed()) return;
  regressServer(c, std::string("POST /z HTTP/1.1\r\nHost: h\r\nTransfer-Encoding: chunked\r\n\r\n10000000000000005\r\nhello\r\n0\r\n\r\n") + kFollowUp, 0, refhttp::Tail::BadLength);
}
PBT_REGRESSION(server_chunk_data_without_crlf_rejected)
{
  regressServer(c, std::string("POST /z HTTP/1.1\r\nHost: h\r\nTransfer-Encoding: chunked\r\n\r\n5\r\nhelloXX\r\n0\r\n\r\n") + kFollowUp, 0, refhttp::Tail::BadLength);
  if (c.failed()) return;
  // skipping two octets blindly would find a valid last chunk here
  regressServer(c, std::string("POST /z HTTP/1.1\r\nHost: h\r\nTransfer-Encoding: chunked\r\n\r\n5\r\nhelloXX0\r\n\r\n") + kFollowUp, 0, refhttp::Tail::BadLength);
}
PBT_REGRESSION(server_trailers_do_not_misframe_next_request)
{
  regressServer(c, std::string("POST /t HTTP/1.1\r\nHost: h\r\nTransfer-Encoding: chunked\r\n\r\n5\r\nhello\r\n0\r\nX-Checksum: abc\r\n\r\n") + kFollowUp, 2, refhttp::Tail::Ok);
}
PBT_REGRESSION(server_chunked_body_is_decoded)
{
  regressServer(c, "POST /c HTTP/1.1\r\nHost: h\r\nTransfer-Encoding: chunked\r\n\r\n5\r\nhello\r\n1;ext=1\r\n \r\n6\r\nworld!\r\n0\r\n\r\n", 1, refhttp::Tail::Ok);
}
PBT_REGRESSION(server_content_length_trailing_junk_rejected)
{
  regressServer(c, std::string("POST /l HTTP/1.1\r\nHost: h\r\nContent-Length: 12abc\r\n\r\nabcdefghijkl") + kFollowUp, 0, refhttp::Tail::BadLength);
}
PBT_REGRESSION(server_content_length_sign_rejected)
{
  regressServer(c, std::string("POST /l HTTP/1.1\r\nHost: h\r\nContent-Length: +5\r\n\r\nhello") + kFollowUp, 0, refhttp::Tail::BadLength);
}
PBT_REGRESSION(server_content_length_conflict_rejected)
{
  regressServer(c, std::string("POST /l HTTP/1.1\r\nHost: h\r\nContent-Length: 5\r\nContent-Length: 7\r\n\r\nhello!!") + kFollowUp, 0, refhttp::Tail::BadLength);
  if (c.failed()) return;
  regressServer(c, std::string("POST /l HTTP/1.1\r\nHost: h\r\nContent-Length: 7\r\nContent-Length: 5\r\n\r\nhello!!") + kFollowUp, 0, refhttp::Tail::BadLength);
}
PBT_REGRESSION(server_content_length_zero_then_five_rejected)
{
  // the first of two conflicting values is zero ("0" and "00"): a "seen before" test on the value itself misses it
  regressServer(c, std::string("POST /l HTTP/1.1\r\nHost: h\r\nContent-Length: 0\r\nContent-Length: 5\r\n\r\nhello") + kFollowUp, 0, refhttp::Tail::BadLength);
  if (c.failed()) return;
  regressServer(c, std::string("POST /l HTTP/1.1\r\nHost: h\r\nContent-Length: 00\r\nX-Pad: 1\r\ncontent-length: 5\r\n\r\nhello") + kFollowUp, 0, refhttp::Tail::BadLength);
  if (c.failed()) return;
  regressServer(c, std::string("POST /l HTTP/1.1\r\nHost: h\r\nContent-Length: 0\r\nContent-Length: 0\r\nContent-Length: 5\r\n\r\nhello") + kFollowUp, 0, refhttp::Tail::BadLength);
  if (c.failed()) return;
  regressServer(c, std::string("POST /l HTTP/1.1\r\nHost: h\r\nContent-Length: 5\r\nContent-Length: 0\r\n\r\nhello") + kFollowUp, 0, refhttp::Tail::BadLength);
}
PBT_REGRESSION(server_content_length_overflow_rejected)
{
  regressServer(c, std::string("POST /l HTTP/1.1\r\nHost: h\r\nContent-Length: 18446744073709551621\r\n\r\nhello") + kFollowUp, 0, refhttp::Tail::BadLength);
}
PBT_REGRESSION(server_transfer_encoding_substring_rejected)
{
  regressServer(c, std::string("POST /e HTTP/1.1\r\nHost: h\r\nTransfer-Encoding: xchunked\r\n\r\n5\r\nhello\r\n0\r\n\r\n") + kFollowUp, 0, refhttp::Tail::BadLength);
}
// --- behaviour that must stay (pass on the unchanged tree)
PBT_REGRESSION(server_pipelined_content_length)
{
  regressServer(c, std::string("POST /a HTTP/1.1\r\nhOsT: h\r\ncontent-LENGTH:  5 \r\nX-Note: chunked\r\n\r\nhelloGET /b?x=1 HTTP/1.1\r\nHost: h\r\nX-Content-Length: 99\r\n\r\nPUT /c HTTP/1.0\r\nContent-Length: 0\r\n\r\n"),
                3, refhttp::Tail::Ok);
}
PBT_REGRESSION(server_body_contains_header_terminator)
{
  regressServer(c, std::string("POST /a HTTP/1.1\r\nHost: h\r\nContent-Length: 24\r\n\r\nGET /x HTTP/1.1\r\n\r\n0\r\n\r\n") + kFollowUp, 2, refhttp::Tail::Ok);
}
PBT_REGRESSION(client_chunked_with_extensions_and_trailers)
{
  regressClient(c, "GET", "HTTP/1.1 200 OK\r\ntransfer-ENCODING: Chunked\r\n\r\n5;a=\"x;y\"\r\nhello\r\n001\r\n \r\n6 ;q\r\nworld!\r\n000\r\nX-Sum: 1\r\n\r\n", true);
}
PBT_REGRESSION(client_interim_then_content_length)
{
  regressClient(c, "POST", "HTTP/1.1 100 Continue\r\n\r\nHTTP/1.1 103 Early Hints\r\nLink: </a>\r\n\r\nHTTP/1.1 201 Created\r\nContent-Length: 3\r\n\r\nabcSURPLUS", true);
}
PBT_REGRESSION(client_close_delimited)
{
  regressClient(c, "GET", "HTTP/1.0 200 OK\r\nServer: s\r\n\r\nbody until\r\n\r\nclose", true);
}
PBT_REGRESSION(client_head_and_304_have_no_body)
{
  regressClient(c, "HEAD", "HTTP/1.1 200 OK\r\nContent-Length: 1234\r\n\r\n", true);
  if (c.failed()) return;
  regressClient(c, "GET", "HTTP/1.1 304 Not Modified\r\nTransfer-Encoding: chunked\r\n\r\n", true);
}
PBT_REGRESSION(client_invalid_lengths_rejected)
{
  for (std::string w : {"HTTP/1.1 200 OK\r\nContent-Length: 12abc\r\n\r\nabcdefghijkl", "HTTP/1.1 200 OK\r\nContent-Length: +5\r\n\r\nhello",
                        "HTTP/1.1 200 OK\r\nContent-Length: 5\r\nContent-Length: 6\r\n\r\nhello!", "HTTP/1.1 200 OK\r\nContent-Length: 0\r\nContent-Length: 5\r\n\r\nhello",
                        "HTTP/1.1 200 OK\r\nContent-Length: 00\r\nContent-Length: 5\r\n\r\nhello", "HTTP/1.1 200 OK\r\nContent-Length: 0, 5\r\n\r\nhello", "HTTP/1.1 200 OK\r\nContent-Length: 18446744073709551621\r\n\r\nhello",
                        "HTTP/1.1 200 OK\r\nTransfer-Encoding: chunked\r\n\r\nzz\r\nhello\r\n0\r\n\r\n", "HTTP/1.1 200 OK\r\nTransfer-Encoding: chunked\r\n\r\n10000000000000005\r\nhello\r\n0\r\n\r\n",
                        "HTTP/1.1 200 OK\r\nTransfer-Encoding: chunked\r\n\r\n5\r\nhelloXX\r\n0\r\n\r\n", "HTTP/1.1 200 OK\r\nTransfer-Encoding: chunked\r\n\r\n5\r\nhelloXX0\r\n\r\n"})
  {
    regressClient(c, "GET", w, false);
    if (c.failed()) return;
  }
}
PBT_REGRESSION(client_chunk_size_near_2p64)
{
  regressClient(c, "GET", "HTTP/1.1 200 OK\r\nTransfer-Encoding: chunked\r\n\r\nFFFFFFFFFFFFFFEC\r\nhello\r\n0\r\n\r\n", false);
}

PBT_REGRESSION(client_body_beyond_cap_is_never_returned)
{
  pbt::watchdog(60, "C15/client/call-does-not-return");
  c.describe("cap 4096: chunked (100-byte chunks) / content-length / close-delimited bodies of 6000, 4097, 4096 and 3000 bytes in several receives");
  for (int framing : {1, 0, 2})
    for (std::size_t bodyLen : {(std::size_t)6000, (std::size_t)4097, (std::size_t)4096, (std::size_t)3000, (std::size_t)12000})
      for (std::size_t chunk : {(std::size_t)100, (std::size_t)7})
      {
        CapCase k = makeCapCase(4096, bodyLen, framing, chunk, false, 3);
        for (auto &cuts : capPlans(nullptr, k.wire.size()))
        {
          ClientRun r = runClient(k.method, k.wire, cuts, true, 4096);
          Failure f = judgeCapRun(k, r);
          if (f.failed()) { c.fail(f.sig, f.what); return; }
        }
      }
}

PBT_MAIN()
